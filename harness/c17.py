"""C17 - tensor helpers are mutually inverse and reconstruct their input (DESIGN.md section 4, C17).

Tie T: index tables and engineering-shear factors of the two converters are tabulated from the working
tree (gen_tables) and the Lean theorems are re-checked over them.
Tie P/D: the Lean model (`Femio.Tensor`, executed over exact rationals by the driver) is compared with the
real functions: array <-> matrix conversions exactly; the post-processing of `calculate_principal_components`,
`calculate_array_from_eigens`, `invert_strain`, `convert_lte_*` on the eigen-system that the real `eigh`
call returned (captured by wrapping `np.linalg.eigh`; the model evaluates the hypothesis of the theorems -
A V = V diag(w), V^T V = 1, w ascending - exactly on it and the harness requires the residuals to be at
rounding level); `align_nnz` pattern exactly and values within 1e-12 * max(D, max |entry|).
Oracle (real API only): the inverse laws, symmetry, descending / orthonormal / right-handed / rebuild,
strain inverted twice, lte global -> local -> global, align_nnz values and common pattern, and
`np.array_equal(input_before, input_after)` for every helper (aliasing is checked on the implementation only).

Round 4 (classes F, G, H of ROUND4.md): every helper takes its input through `materialise` (dtype x memory layout), arrays femio
returned are handed back through `relayout`; structured special tensors (`special_variants`: all six orders of an exactly diagonal
tensor, repeated values at every position, rank 1 / 2, planar, near-diagonal ...) in one batch with general ones; align_nnz is
judged cell by cell (no dense arrays) so that shapes with n_row * n_col beyond 2^31 / 2^32 / 2^33 and a handful of entries are
ordinary cases, with per-matrix formats, index / value dtypes and repeated COO cells; the eigh tie is keyed by the matrix handed
to eigh (it used to index the rows of ONE captured call and crashed the harness when femio called eigh on a subset of the rows).

Round 5 (classes K, L, N, T of ROUND5.md; seeded change C17-9): stream 10 `align mixed dtype` - the matrices of ONE list have
different value dtypes (integer / bool adjacency or count matrices next to signed float64 weights, float32 next to float64, signed
next to unsigned), the float values are decimal fractions of the magnitude of the integer entries chosen per LIST (so that the
minimum, hence D = 2 |min| + 1, is not a short dyadic number), and for the adjacency / count styles the generator redraws the
minimum until the dummy trick (v + c D) - c D is INEXACT in binary64 on an integer entry (deliberate structure, not luck); one
matrix may occur twice in the list (same object / equal copy); every list is aligned twice.  Tie R: Model/TensorRound.lean models
the three binary64 operations (round to nearest even, 53 bits) and predicts every returned value (bit for bit on the unchanged
code; 4 ulp are allowed for another evaluation order; driver command c17.alignfl).  Stream 11 `absolute scale`: batches multiplied by 2^+-(40..250) and batches with repeated tensors.
"""
import itertools
from fractions import Fraction as F

import numpy as np
import scipy.sparse as sp

from . import common as C
from . import meshgen as MG

PROP = 'C17'
LEAN_MODULES = ['Femio.Props.C17']
THEOREMS = ['C17_arr_mat_inverse', 'C17_principal', 'C17_principal_array', 'C17_invert_strain', 'C17_lte_roundtrip',
            'C17_align_nnz', 'C17_diag_shortcut', 'C17_diag_shortcut_rows_selfinverse', 'C17_diag_shortcut_rows_counterexample',
            'C17_flat_key_order', 'C17_flat_key_wrap_counterexample', 'C17_align_cast_exact', 'C17_align_cast_roundoff_counterexample']
PARTIAL = ['clause "does not modify the caller\'s array": no theorem (numpy aliasing), checked on the implementation by '
           'snapshot comparison for every helper, dtype and memory layout (read-only inputs included: a write raises)',
           'C17_diag_shortcut / C17_flat_key_order are about implementations femio does not have (a shear-free shortcut, alignment by '
           'flattened keys): they state what such a rewrite must satisfy and the *_counterexample theorems pin the two seeded changes '
           '(C17-8, C17-7); the real code is tied to diagShortcut on every exactly diagonal tensor with distinct values',
           'np.linalg.eigh is not modelled: its post-condition (IsEigh, ascending) is the explicit hypothesis of '
           'C17_principal / C17_principal_array / C17_invert_strain / C17_lte_roundtrip, evaluated exactly on every captured call',
           'C17_align_cast_exact / C17_align_cast_roundoff_counterexample (round 5, seeded change C17-9): the exact model cannot see a cast '
           'of the recovered values back to an integer dtype; the binary64 model (Model/TensorRound.lean: round to nearest even, 53 bits, '
           'unbounded exponent) shows 1 -> 0.9999999999999996 -> 0 for D = fl(3.6). No general error bound of the dummy trick is proved; '
           'the real values are tied to the binary64 model (bit for bit on the unchanged code, 4 ulp allowed) on every list with <= 64 stored output values',
           'convert_lte_*: only global -> local -> global is claimed by the property and proved (local -> global -> local '
           'cannot return the original values when the stored eigenvalues are not ascending)']
RULE = ('batches of 1..6 symmetric tensors (random dyadic / decimal / integer-valued entries, scale 1e-6..1e6, rotated '
        'diag(l,l,m) with repeated eigenvalues, isotropic, zero, one eigenvalue 1e-12 (near-singular), strains with '
        '1+l down to 1e-3; stream "strain:near-singular": strains with one to three principal values -1+d, '
        'd in {1e-6, 3e-6, 1e-7, 2e-6, 5e-6}, the others in (-.5, .9) or repeated, random / axis-aligned orientation, both shear '
        'conventions, alone or batched with ordinary strains, judged with a tolerance linear in the magnitude of the inverse) '
        'x component order (all 720 permutations in the thorough tier, a random sample + identity + '
        'reversal in quick) x both shear conventions x memory layout of the input (C, Fortran, strided view); '
        'align_nnz: 1..4 CSR / COO matrices of a common shape up to 6x6 with densities 0..1 (empty and full included), '
        'explicit zeros, unsorted indices, mixed signs. Round 4: stream "structured" (class H): every structured special tensor in ONE '
        'batch with 0..3 general ones - exactly diagonal with three distinct values in all 6 orders of the diagonal (two of them '
        '3-cycles), two equal values at every position (single one larger / smaller), values one ulp .. 2^-40 apart, one non-zero '
        'diagonal entry (both signs), rank 1 / rank 2 in general position, one axis aligned + the other two rotated by a Pythagorean '
        'angle or a quarter turn (two shear components exactly zero), diagonal + shear of relative size 1e-9 .. 1e-6 or 1e-300, '
        'isotropic, zero - through principal / array_from_eigens / arr<->mat (sampled orders x both conventions), invert_strain and '
        'lte; stream "typed" (class F): helper x dtype of the caller\'s array (float64, float32, int8..int64, uint8..uint64; values '
        'representable in the dtype, integer strains with |1 + l| >= 1/4) x memory layout (C, Fortran, strided view, transposed view, '
        'negative strides, read-only C / Fortran) x layout of the arrays femio returned and the caller hands back (matrix, values, '
        'directions: Fortran, strided, negative strides, read-only); stream "align extended": format per matrix (csr / csc / coo, mixed '
        'inside one list), int32 / int64 index arrays, value dtype (float64, float32, int8..uint64, bool), repeated COO cells '
        '(float64; value = sum), unsorted CSR / CSC, shapes small / medium (<= 300 x 300) / big (class G: 16 shapes with n_row * n_col '
        'just below / beyond 2^31, 2^32, 2^33, n_row <= 3e5, up to 14 stored entries concentrated at the corners, the last rows / '
        'columns and the rows / columns where row * n_col + col crosses a power of two; layouts spread / first-and-last rows / shared; '
        'two shapes with n_col > 2^31, i.e. int64 index arrays inside scipy); sub-stream int-dtype-extreme (entries at the ends of the '
        'integer dtype + the entry that the WRAPPED dummy value would cancel); stream "align mixed dtype" (round 5): 2..4 matrices whose value dtypes DIFFER inside the list, styles '
        'adjacency+weights (0/1 bool / int / uint matrix of a ring or a random symmetric edge set + signed float64 weights), '
        'counts+weights (counts 1..120), random-mix, float32+float64, int+int (signed with unsigned, narrow with wide); float64 values '
        'per LIST: tenths / hundredths / 6-decimal fractions of magnitude <= 1.5 x {1, 10, 100} or the per-entry mix; for the two '
        'weight styles the most negative float entry is redrawn (<= 60 times, 80 % of the lists) until (v + c D) - c D is inexact '
        'toward zero in binary64 on an integer entry (15..25 such lists per quick run); one matrix twice in the list (same object / '
        'equal copy, 25 %); format, index dtype, sortedness per matrix; small (<= 6 x 6) and medium (<= 120 x 120) shapes; every list '
        'aligned twice; stream "absolute scale" (round 5): general / structured batches x 2^+-(40..250) through arrmat, principal, '
        'lte, and batches in which 1..3 tensors occur twice; corpus/C17 first. distinct = distinct (helper, input, '
        'options); a case is non-trivial unless the tensor batch is all zero / all matrices are empty.')
ASSUMPTIONS = [
    'np.linalg.eigh post-condition (orthonormal eigenvectors, ascending eigenvalues) is a hypothesis of the theorems; '
    'checked numerically on every captured call (residual <= 1e-12 * scale)',
    'float results are compared with the exact model within stated tolerances: 1e-15 (cross product of unit vectors), '
    '1e-13 * scale (reconstruction), 1e-12 * kappa^2 * scale (strain inversion, kappa = max |1/(1+l)|), 1e-12 * max(D, max |entry|) (align_nnz)',
    'near-singular strains (stream strain:near-singular, 1+l down to 1e-7): strain inverted twice is compared with the original '
    'within 5e-14 * kappa * scale, i.e. ~225 ulp of the magnitude kappa of the once-inverted tensor (rounding of eigh on a matrix of '
    'norm kappa; measured worst case on the unchanged code over 12000 tensors: 1.4e-15 * kappa); a deviation of 1e-8 or more at '
    'kappa <= 1e5, or of 1e-6 at kappa = 1e7, is reported',
    'values are normal binary64 numbers with |x| <= 1e300 (x/2*2 is not exact on denormals)',
    '"does not modify the caller\'s array" is an aliasing fact of numpy fancy indexing: checked on the implementation '
    'by snapshot comparison, not a theorem',
    'align_nnz inputs are canonical (no duplicate cells, all inside the shape: the hypothesis hwf of C17_align_nnz, true by '
    'construction of the generator and asserted per case) except COO inputs with repeated cells, whose value is the sum: the model '
    'gets their canonical form; D is compared within one rounding',
    'align_nnz values are compared within 1e-12 * max(D, max |entry|): (s + c D) - c D is rounded at the magnitude of s + c D and a '
    'positive matrix has D = 1 whatever the size of its entries',
    'float32 inputs: femio computes in single precision; orthonormality / handedness / rebuild / strain inversion are judged with '
    '2e-5 (relative to the scale, kappa^2 for strains) instead of 1e-12 (measured worst case on the unchanged code over 26000 '
    'tensors: 3.4e-7); the model tie is skipped for float32 (eigh residuals are at single-precision level); integer and unsigned '
    'inputs are promoted to binary64 by numpy and judged like float64',
    'align_nnz, tie R: the returned values are compared with fl(fl(v + d_c) - d_c) of the binary64 model, d_c = D added c times (the '
    'order in which femio adds the patterns; scipy adds / subtracts CSR matrices entry by entry in binary64 after promoting integer / '
    'bool / float32 values exactly): bit for bit on the unchanged code (counted in the evidence); a deviation of at most 4 ulp of '
    '|v| + (c + 1) D (another evaluation order of the same operations) is counted, a larger one is a broken correspondence; lists '
    'with <= 64 output values and no repeated COO cells',
    'float16 / longdouble inputs are outside the quantifier (numpy.linalg does not support them)',
    'big sparse shapes keep n_row <= 3e5 (CSR row pointers) and CSC only with n_col <= 4e5; CSR inputs with more than 4e5 columns '
    'have sorted indices (scipy adds unsorted CSR matrices with an O(n_col) workspace: a cost, not a value)',
    'the tie of the eigh-based helpers is keyed by the matrix handed to np.linalg.eigh: a tensor that is not handed to eigh at all '
    'is a broken correspondence (the model post-processes an eigh result), reported once per helper; the oracle decides',
]
TRUSTED = ['C17: np.linalg.eigh is wrapped by the harness to capture its argument and result (copied before femio '
           'overwrites the third eigenvector in place)',
           'C17 tie S: harness/gen_tensor_kernels.py (symbolic-execution translator working tree -> lean/Femio/Gen/TensorKernels.lean): '
           'the exact polynomial class Sym of gen_kernels.py, np.linalg.eigh replaced by a stub returning fresh symbols and recording its '
           'argument while tracing; everything else the helpers do is numpy acting on object arrays']

# tie S (DESIGN 2.3b): the polynomial maps traced from the real tensor helpers by symbolic execution = the model functions of
# Model/Tensor.lean, proved by `ring` over every field on every run (Props/TensorTie.lean, built and audited separately)
from .tensor_tie import tensor_tie as EXTRA_OBLIGATIONS, EXTRA_THEOREMS   # noqa: E402


# ------------------------------------------------------------------ helpers

class EighTap:
    def __enter__(self):
        self.calls = []
        self.orig = np.linalg.eigh

        def tap(a, *args, **kw):
            r = self.orig(a, *args, **kw)
            self.calls.append((np.array(a, dtype=float, copy=True), np.array(r[0], copy=True), np.array(r[1], copy=True)))
            return r
        np.linalg.eigh = tap
        return self

    def __exit__(self, *a):
        np.linalg.eigh = self.orig


def rats(xs):
    return ' '.join(C.enc_rat(float(x)) for x in np.asarray(xs, dtype=float).reshape(-1))


def reply_rats(r):
    assert r.startswith('ok '), r
    return [F(t) for t in r.split()[1:]]


def lst(xs):
    xs = list(np.asarray(xs, dtype=float).reshape(-1))
    return f'{len(xs)} ' + ' '.join(C.enc_rat(float(x)) for x in xs) if xs else '0'


def fr(xs):
    return [F(float(x)) for x in np.asarray(xs, dtype=float).reshape(-1)]


def inv_perm(o):
    r = [0] * len(o)
    for k, v in enumerate(o):
        r[v] = k
    return r


def layouts(rnd, a):
    """the same values in different memory layouts (aliasing / stride handling)"""
    kind = rnd.choice(['C', 'F', 'view'])
    if kind == 'F':
        return np.asfortranarray(a.copy()), kind
    if kind == 'view':
        big = np.zeros((a.shape[0] * 2, a.shape[1] * 2))
        big[::2, ::2] = a
        return big[::2, ::2], kind
    return a.copy(), kind


DTYPES = ['float64', 'float32', 'int8', 'int16', 'int32', 'int64', 'uint8', 'uint16', 'uint32', 'uint64']
LAYOUTS = ['C', 'F', 'view', 'T', 'neg', 'ro', 'roF']
_LEGACY_DTYPE = {'float': 'float64', 'int': 'int64', None: 'float64'}


def materialise(rows, dtype='float64', layout='C'):
    """the caller's array: the given values in the given dtype and memory layout (class F of ROUND4: integer / unsigned /
    float32 storage, Fortran order, transposed view, strided and negatively strided views, read-only arrays)"""
    dt = np.dtype(_LEGACY_DTYPE.get(dtype, dtype))
    a = np.array(rows, dtype=float)
    assert np.array_equal(a.astype(dt).astype(float), a), 'generator: value not representable in the dtype'
    a = a.astype(dt)
    if layout in ('F', 'roF'):
        a = np.asfortranarray(a)
    elif layout == 'view':
        big = np.zeros((a.shape[0] * 2, a.shape[1] * 2), dtype=dt)
        big[::2, ::2] = a
        a = big[::2, ::2]
    elif layout == 'T':
        a = np.ascontiguousarray(a.T).T
    elif layout == 'neg':
        a = a[::-1, ::-1].copy()[::-1, ::-1]
    else:
        a = a.copy()
    if layout in ('ro', 'roF'):
        a.setflags(write=False)
    return a


MLAYOUTS = [None, None, 'F', 'view', 'ro', 'neg']


def relayout(x, kind):
    """an array femio returned, handed back by the caller with the same values in another memory layout"""
    x = np.asarray(x)
    if kind == 'F':
        return np.asfortranarray(x)
    if kind == 'view':
        big = np.zeros(tuple(2 * d for d in x.shape), dtype=x.dtype)
        sl = tuple(slice(None, None, 2) for _ in x.shape)
        big[sl] = x
        return big[sl]
    if kind == 'neg':
        sl = tuple(slice(None, None, -1) for _ in x.shape)
        return x[sl].copy()[sl]
    if kind == 'ro':
        y = x.copy()
        y.setflags(write=False)
        return y
    return x


def rel_tol(dtype):
    """rounding level of the arithmetic femio does in the dtype of the input: binary64 for float64 and all integer dtypes
    (numpy promotes), binary32 for float32 inputs (eigh, cross product and the rebuild run in single precision;
    measured worst case on the unchanged code over 20000 tensors: see ASSUMPTIONS)"""
    return 2e-5 if np.dtype(_LEGACY_DTYPE.get(dtype, dtype)) == np.float32 else 1e-12


def captured(tap):
    """eigen-systems captured from np.linalg.eigh, keyed by the bytes of the matrix handed in (so that the tie does not depend
    on HOW femio batches its eigh calls: one call, one per row, or a subset of the rows)"""
    d = {}
    for A, w, V in tap.calls:
        A = np.asarray(A, dtype=float)
        if A.ndim == 2:
            A, w, V = A[None], np.asarray(w)[None], np.asarray(V)[None]
        if A.ndim != 3 or A.shape[1:] != (3, 3):
            continue
        for r in range(len(A)):
            d.setdefault((A[r] + 0.0).tobytes(), (A[r], np.asarray(w[r], dtype=float), np.asarray(V[r], dtype=float)))
    return d


def no_capture(ctx, what, ci):
    """the implementation did not hand this tensor to eigh: the model (post-processing of an eigh result) has nothing to be
    compared with -> the correspondence is broken for this input (the oracle decides whether the property still holds)"""
    ctx.disagree(f'{what}: no np.linalg.eigh call captured for this tensor (the model post-processes the eigen-system eigh returns)',
                 ci, 'not handed to eigh', 'eigh result expected')


def rational_rotation(rnd):
    """exact rotation matrix from an integer quaternion"""
    while True:
        q = [rnd.randint(-3, 3) for _ in range(4)]
        n = sum(x * x for x in q)
        if n:
            break
    a, b, c, d = q
    R = [[a*a + b*b - c*c - d*d, 2*(b*c - a*d), 2*(b*d + a*c)],
         [2*(b*c + a*d), a*a - b*b + c*c - d*d, 2*(c*d - a*b)],
         [2*(b*d - a*c), 2*(c*d + a*b), a*a - b*b - c*c + d*d]]
    return np.array(R, dtype=float) / n


def tensor6(rnd, kind, strain=False):
    """one symmetric tensor in the default component layout [11, 22, 33, 12, 23, 31] (tensor components)"""
    def val():
        c = rnd.choice(['int', 'dyadic', 'decimal'])
        if c == 'int':
            return float(rnd.randint(-9, 9))
        if c == 'dyadic':
            return rnd.randint(-2**20, 2**20) / 2.0**rnd.randint(0, 24)
        return round(rnd.uniform(-10, 10), 13)
    if kind == 'zero':
        t = [0.0] * 6
    elif kind == 'isotropic':
        c = val()
        t = [c, c, c, 0.0, 0.0, 0.0]
    elif kind in ('repeated', 'near-singular', 'spd'):
        if kind == 'repeated':
            l, m_ = val(), val()
            lam = [l, l, m_]
        elif kind == 'near-singular':
            lam = [val(), val(), rnd.choice([1e-12, -1e-12, 1e-9])]
        else:
            lam = [abs(val()) + .5 for _ in range(3)]
        R = rational_rotation(rnd)
        A = R @ np.diag(lam) @ R.T
        A = (A + A.T) / 2
        t = [A[0, 0], A[1, 1], A[2, 2], A[0, 1], A[1, 2], A[0, 2]]
    else:
        t = [val() for _ in range(6)]
        if kind == 'scaled':
            s = 10.0 ** rnd.randint(-6, 6)
            t = [x * s for x in t]
    if strain:
        # eigenvalues of a strain must stay away from -1: shrink to |l| <= 0.9 or place one near -1
        A = np.array([[t[0], t[3], t[5]], [t[3], t[1], t[4]], [t[5], t[4], t[2]]])
        w = np.linalg.eigvalsh(A)
        s = max(1.0, float(np.abs(w).max()) / .9)
        t = [x / s for x in t]
        if kind == 'near-singular':
            R = rational_rotation(rnd)
            lam = [rnd.uniform(-.5, .5), rnd.uniform(-.5, .5), -1 + rnd.choice([1e-3, 1e-2])]
            A = R @ np.diag(lam) @ R.T
            A = (A + A.T) / 2
            t = [A[0, 0], A[1, 1], A[2, 2], A[0, 1], A[1, 2], A[0, 2]]
    return [float(x) for x in t]


TKINDS = ['random', 'random', 'scaled', 'repeated', 'isotropic', 'zero', 'near-singular', 'spd']


# ---- structured special values (class H of ROUND4): tensors on which a shortcut that avoids the general eigen-solver is
#      tempting and on which "sorted / orthonormal / right-handed" can hold while "rebuilds the input" does not

PERMS3 = list(itertools.permutations(range(3)))
PYTH = [(3 / 5, 4 / 5), (4 / 5, 3 / 5), (5 / 13, 12 / 13), (-3 / 5, 4 / 5), (8 / 17, -15 / 17), (0.0, 1.0), (0.0, -1.0), (-1.0, 0.0)]


def special_variants(ints=False):
    """every (kind, variant) of the structured tensors: exactly diagonal with three distinct values in all 6 orders of the
    diagonal (the descending order is the identity, a swap or a 3-CYCLE), two equal values (position of the single one x
    single one larger / smaller), nearly equal values, one non-zero diagonal entry (rank 1 on an axis, both signs), rank 1 and
    rank 2 in general position, one axis aligned and the other two rotated in their plane (two of the three shear components
    exactly zero; includes the quarter turns = signed axis permutations), diagonal plus tiny shear, isotropic, zero"""
    v = [('diagonal', p) for p in PERMS3]
    v += [('diag-repeated', (pos, hi)) for pos in range(3) for hi in (False, True)]
    v += [('rank1-axis', (k, sg)) for k in range(3) for sg in (1, -1)]
    v += [('rank1', None), ('isotropic', None), ('zero', None)]
    if not ints:
        v += [('diag-nearly-repeated', p) for p in PERMS3[::2]]
        v += [('planar', k) for k in range(3)]
        v += [('near-diagonal', p) for p in PERMS3]
        v += [('rank2', None)]
    return v


def special_tensor(rnd, kind, var, ints=False):
    """tensor components [11, 22, 33, 12, 23, 31] of one structured tensor"""
    def val():
        if ints:
            return float(rnd.randint(-9, 9))
        c = rnd.choice(['int', 'dyadic', 'decimal', 'small'])
        if c == 'int':
            return float(rnd.randint(-9, 9))
        if c == 'dyadic':
            return rnd.randint(-2**20, 2**20) / 2.0**rnd.randint(0, 24)
        if c == 'small':
            return round(rnd.uniform(-1, 1), 6) * 10.0**rnd.randint(-6, -1)
        return round(rnd.uniform(-10, 10), 13)

    def distinct(n, nonzero=False):
        while True:
            xs = [val() for _ in range(n)]
            if len(set(xs)) == n and not (nonzero and 0.0 in xs):
                return xs
    d, sh = [0.0, 0.0, 0.0], [0.0, 0.0, 0.0]
    if kind in ('diagonal', 'near-diagonal'):
        xs = sorted(distinct(3), reverse=True)
        for k in range(3):
            d[var[k]] = xs[k]                      # the k-th largest value sits at diagonal position var[k]
        if kind == 'near-diagonal':
            sc = max(abs(x) for x in xs)
            eps = rnd.choice([1e-9, 1e-7, 1e-6, 1e-300 / sc])
            sh = [rnd.choice([0.0, 1.0, -1.0, .5]) * eps * sc for _ in range(3)]
            if not any(sh):
                sh[rnd.randrange(3)] = eps * sc
    elif kind == 'diag-repeated':
        pos, hi = var
        l, m_ = sorted(distinct(2))
        if not hi:
            l, m_ = m_, l
        d = [l, l, l]
        d[pos] = m_
    elif kind == 'diag-nearly-repeated':
        l, m_ = distinct(2, nonzero=True)
        xs = [l, float(np.nextafter(l, rnd.choice([-np.inf, np.inf]))) if rnd.random() < .5 else l * (1 + 2.0**-rnd.randint(40, 50)), m_]
        for k in range(3):
            d[var[k]] = xs[k]
    elif kind == 'rank1-axis':
        k, sg = var
        d[k] = sg * (abs(val()) + (1.0 if ints else 2.0**-10))
    elif kind == 'rank1':
        while True:
            v = [rnd.randint(-2, 2) for _ in range(3)]
            if sum(1 for x in v if x) >= 2:
                break
        c = float(rnd.choice([-3, -2, -1, 1, 2, 3])) if ints else (val() or 1.0)
        d = [c * v[0] * v[0], c * v[1] * v[1], c * v[2] * v[2]]
        sh = [c * v[0] * v[1], c * v[1] * v[2], c * v[0] * v[2]]
    elif kind == 'isotropic':
        d = [val()] * 3
    elif kind == 'zero':
        pass
    elif kind == 'planar':
        lam = distinct(3) if rnd.random() < .8 else (lambda x: [x[0], x[0], x[1]])(distinct(2))
        rnd.shuffle(lam)
        c, s_ = rnd.choice(PYTH)
        i, j = [(1, 2), (2, 0), (0, 1)][var]
        R = np.eye(3)
        R[i, i], R[i, j], R[j, i], R[j, j] = c, -s_, s_, c
        A = R @ np.diag(lam) @ R.T
        A = (A + A.T) / 2
        for (a_, b_) in [(0, 1), (1, 2), (0, 2)]:
            if {a_, b_} != {i, j}:
                A[a_, b_] = A[b_, a_] = 0.0        # exactly zero (they are, up to the sign of zero)
        d, sh = [A[0, 0], A[1, 1], A[2, 2]], [A[0, 1], A[1, 2], A[0, 2]]
    elif kind == 'rank2':
        l, m_ = distinct(2, nonzero=True)
        R = rational_rotation(rnd)
        A = R @ np.diag([l, m_, 0.0]) @ R.T
        A = (A + A.T) / 2
        d, sh = [A[0, 0], A[1, 1], A[2, 2]], [A[0, 1], A[1, 2], A[0, 2]]
    else:       # 'general'
        d, sh = [val() for _ in range(3)], [val() for _ in range(3)]
    return [float(x) + 0.0 for x in d + sh]


def special_batch(rnd, order, eng, strain=False, dtype='float64', full=False):
    """(n, 6) user array (values representable in `dtype`) of structured tensors mixed with 0..3 general ones in one batch
    (a shortcut is typically applied to the matching ROWS of a batch through a mask), for the given order / convention"""
    dt = np.dtype(dtype)
    ints = dt.kind in 'iu'
    variants = special_variants(ints)
    if not full:
        variants = rnd.sample(variants, rnd.randint(1, 6))
    specs = variants + [('general', None)] * rnd.randint(0, 3)
    rnd.shuffle(specs)
    io = inv_perm(order)
    rows, kinds = [], []
    for kind, var in specs:
        for _ in range(60):
            t = special_tensor(rnd, kind, var, ints)
            if dt.kind == 'u':
                t = [abs(x) for x in t]
            if strain:
                w = np.linalg.eigvalsh(mat_of(t))
                if ints:
                    if np.abs(1 + w).min() < .25:
                        continue                  # an integer-valued strain cannot be rescaled: draw again
                else:
                    s_ = max(1.0, float(np.abs(w).max()) / .9)
                    t = [x / s_ for x in t]
            b = [t[0], t[1], t[2]] + [x * (2 if eng else 1) for x in t[3:]]
            row = np.array([b[io[k]] for k in range(6)])
            if dt == np.float32:
                row = row.astype(np.float32).astype(float)
            rows.append(row)
            kinds.append(kind if var is None else f'{kind}:{"".join(map(str, var)) if kind in ("diagonal", "near-diagonal", "diag-nearly-repeated") else var}')
            break
    return np.array(rows, dtype=float), kinds


def batch(rnd, order, eng, strain=False):
    """(n, 6) user array for the given order / convention, plus the tensor components per row"""
    n = rnd.randint(1, 6)
    kinds = [rnd.choice(TKINDS) for _ in range(n)]
    ts = [tensor6(rnd, k, strain) for k in kinds]
    rows = []
    io = inv_perm(order)
    for t in ts:
        b = [t[0], t[1], t[2]] + [x * (2 if eng else 1) for x in t[3:]]     # slot values after reordering
        rows.append([b[io[k]] for k in range(6)])                           # a[order[k]] = b[k]
    return np.array(rows, dtype=float), np.array(ts, dtype=float), kinds


NS_DELTAS = [1e-6, 3e-6, 1e-7, 1e-6, 3e-6, 1e-7, 2e-6, 5e-6]


def near_singular_strain(rnd):
    """tensor components [11, 22, 33, 12, 23, 31] of a strain with 1..3 principal values -1 + d (principal stretch d, an almost
    completely collapsed direction), the remaining ones ordinary or repeated; random rational or axis-aligned orientation"""
    k = rnd.choice([1, 1, 1, 1, 2, 3])
    lam = [-1 + rnd.choice(NS_DELTAS) for _ in range(k)] + [rnd.uniform(-.5, .9) for _ in range(3 - k)]
    if k == 1 and rnd.random() < .15:
        lam[2] = lam[1]
    rnd.shuffle(lam)
    orient = 'axis' if rnd.random() < .15 else 'rotated'
    R = np.eye(3) if orient == 'axis' else rational_rotation(rnd)
    A = R @ np.diag(lam) @ R.T
    A = (A + A.T) / 2
    return [float(x) for x in (A[0, 0], A[1, 1], A[2, 2], A[0, 1], A[1, 2], A[0, 2])], k, orient


def near_singular_batch(rnd, eng):
    """(n, 6) user array (default order) with at least one near-singular strain, some batched with ordinary strains"""
    n = rnd.randint(1, 4)
    which = [rnd.random() < .75 for _ in range(n)]
    which[rnd.randrange(n)] = True
    rows, kinds = [], []
    for ns in which:
        if ns:
            t, k, orient = near_singular_strain(rnd)
            kinds.append(f'near-singular-strain:{k}:{orient}')
        else:
            kind = rnd.choice(TKINDS)
            t = tensor6(rnd, kind, strain=True)
            kinds.append(kind)
        rows.append([t[0], t[1], t[2]] + [x * (2 if eng else 1) for x in t[3:]])
    return np.array(rows, dtype=float), kinds


def mat_of(t):
    t = np.asarray(t)
    return np.array([[t[0], t[3], t[5]], [t[3], t[1], t[4]], [t[5], t[4], t[2]]])


# ------------------------------------------------------------------ the individual checks (oracle + correspondence)

def check_arrmat(ctx, case, record=True):
    """case: {'a': rows, 'order', 'eng', 'layout', 'dtype'}; returns failures"""
    from femio import functions as fn
    fails = []
    order, eng = case['order'], case['eng']
    dtype = _LEGACY_DTYPE.get(case.get('dtype', 'float'), case.get('dtype', 'float'))
    a0 = materialise(case['a'], dtype, case.get('layout', 'C'))
    before = a0.copy()
    m = fn.convert_array2symmetric_matrix(a0, from_engineering=eng, order=list(order))
    if not np.array_equal(before, a0):
        fails.append(('mutation:array2symmetric_matrix', 'convert_array2symmetric_matrix modified the caller\'s array',
                      {'before': before.tolist(), 'after': a0.tolist()}))
    mb = np.array(m, copy=True)
    m = relayout(m, case.get('mlayout'))
    back = fn.convert_symmetric_matrix2array(m, to_engineering=eng, order=inv_perm(order))
    if not np.array_equal(mb, m):
        fails.append(('mutation:symmetric_matrix2array', 'convert_symmetric_matrix2array modified the caller\'s matrix',
                      {'before': mb.tolist(), 'after': np.asarray(m).tolist()}))
    if mb.shape != (len(before), 3, 3) or not np.array_equal(mb, np.transpose(mb, (0, 2, 1))):
        fails.append(('asymmetric', 'convert_array2symmetric_matrix result is not a batch of symmetric 3x3 matrices',
                      {'matrix': np.asarray(m).tolist()}))
    if back.shape != before.shape or not np.array_equal(back, before):
        sig = 'roundtrip:int-dtype-engineering' if np.dtype(dtype).kind in 'iu' else f'roundtrip:{"engineering" if eng else "tensor"}'
        fails.append((sig, f'array -> matrix -> array (inverse order) is not the identity: {before.tolist()} -> {np.asarray(back).tolist()}',
                      {'input': before.tolist(), 'matrix': np.asarray(m).tolist(), 'back': np.asarray(back).tolist()}))
    if ctx.driver is not None:
        o = C.enc_list(order)
        io = C.enc_list(inv_perm(order))
        lines, exp = [], []
        for row, mm in zip(before, mb):
            lines.append(f'c17.arr2mat {o} {int(eng)} {lst(row)}')
            exp.append(('array2symmetric_matrix', fr(mm)))
            lines.append(f'c17.mat2arr {io} {int(eng)} {lst(mm)}')
            exp.append(('symmetric_matrix2array', None))
        rep = ctx.driver.ask_many(lines)
        for k, (r, (what, want)) in enumerate(zip(rep, exp)):
            got = reply_rats(r)[1:]
            if want is None:
                want = fr(back[k // 2]) if back.shape == before.shape else None
            if got != want:
                ctx.disagree(what, {'order': list(order), 'eng': eng, 'row': before[k // 2].tolist()},
                             [str(x) for x in want] if want else None, [str(x) for x in got])
                break
        ctx.count('compared:arr<->mat rows', len(before))
    return fails


def check_principal(ctx, case):
    """case: {'a', 'order', 'eng'}"""
    from femio import functions as fn
    fails = []
    order, eng = case['order'], case['eng']
    dtype = case.get('dtype', 'float64')
    rel = rel_tol(dtype)
    a0 = materialise(case['a'], dtype, case.get('layout', 'C'))
    before = a0.copy()
    with EighTap() as tap:
        vals, dirs, vecs = fn.calculate_principal_components(a0, from_engineering=eng, order=list(order))
    if not np.array_equal(before, a0):
        fails.append(('mutation:principal_components', 'calculate_principal_components modified the caller\'s array',
                      {'before': before.tolist(), 'after': a0.tolist()}))
    n = len(a0)
    b = before[:, list(order)]
    T = np.array([mat_of([r[0], r[1], r[2]] + [x / (2 if eng else 1) for x in r[3:]]) for r in b], dtype=float)   # intended tensors
    scale = np.maximum(np.abs(T).max(axis=(1, 2)), 1e-300)
    vals, dirs, vecs = np.asarray(vals), np.asarray(dirs), np.asarray(vecs)
    if vals.shape != (n, 3) or dirs.shape != (n, 9) or vecs.shape != (n, 9):
        return fails + [('principal:shape', 'calculate_principal_components does not return (n, 3), (n, 9), (n, 9) arrays',
                         {'shapes': [list(vals.shape), list(dirs.shape), list(vecs.shape)]})]
    vals_impl, dirs_impl, vecs_impl = vals, dirs, vecs
    vals, dirs, vecs = vals.astype(float), dirs.astype(float), vecs.astype(float)
    D = np.stack([dirs[:, 0:3], dirs[:, 3:6], dirs[:, 6:9]], axis=2)       # columns = directions
    ok_desc = np.all(vals[:, 0] >= vals[:, 1]) and np.all(vals[:, 1] >= vals[:, 2])
    if not ok_desc:
        fails.append(('principal:not-descending', 'principal values are not sorted descending', {'values': vals.tolist()}))
    gram = np.einsum('nki,nkj->nij', D, D)
    if not np.all(np.abs(gram - np.eye(3)) <= rel):
        fails.append(('principal:not-orthonormal', 'principal directions are not orthonormal',
                      {'gram': gram.tolist(), 'input': before.tolist()}))
    det = np.linalg.det(D)
    if not np.all(np.abs(det - 1) <= rel):
        fails.append(('principal:not-right-handed', 'principal directions are not right-handed (det != +1)',
                      {'det': det.tolist(), 'input': before.tolist()}))
    reb = np.einsum('nik,nk,njk->nij', D, vals, D)
    if not np.all(np.abs(reb - T).max(axis=(1, 2)) <= rel * scale):
        fails.append(('principal:rebuild', 'sum_k value_k d_k d_k^T differs from the input tensor',
                      {'input': before.tolist(), 'rebuilt': reb.tolist(), 'tensor': T.tolist()}))
    v_in, d_in = relayout(vals_impl.copy(), case.get('mlayout')), relayout(dirs_impl.copy(), case.get('mlayout'))
    arr_back = np.asarray(fn.calculate_array_from_eigens(v_in, d_in, to_engineering=eng))
    if not (np.array_equal(v_in, vals_impl) and np.array_equal(d_in, dirs_impl)):
        fails.append(('mutation:array_from_eigens', 'calculate_array_from_eigens modified the caller\'s arrays', {}))
    if arr_back.shape != b.shape or not np.all(np.abs(arr_back - b).max(axis=1) <= rel * scale * 2):
        fails.append(('principal:array_from_eigens', 'calculate_array_from_eigens(values, directions) does not rebuild the input array',
                      {'input': b.tolist(), 'rebuilt': arr_back.tolist()}))
    want_vec = np.concatenate([vals[:, [k]] * dirs[:, 3 * k:3 * k + 3] for k in range(3)], axis=1)
    if not np.all(np.abs(vecs - want_vec) <= (4e-15 if rel == 1e-12 else 5e-7) * np.maximum(np.abs(want_vec), 1e-300)):
        fails.append(('principal:vectors', 'principal vectors are not value * direction', {'vectors': vecs.tolist()}))
    if ctx.driver is not None and rel == 1e-12 and arr_back.shape == b.shape:
        caps = captured(tap)
        o = C.enc_list(order)
        lines, rows_ = [], []
        for k in range(n):
            cap = caps.get((T[k] + 0.0).tobytes())
            if cap is None:
                if not ctx.dist.get('tie:principal:tensor-not-handed-to-eigh'):
                    no_capture(ctx, 'calculate_principal_components', {'order': list(order), 'eng': eng, 'row': before[k].tolist()})
                ctx.count('tie:principal:tensor-not-handed-to-eigh')
                continue
            A_, w_, V_ = cap
            rows_.append((k, A_))
            lines += [f'c17.arr2mat {o} {int(eng)} {lst(before[k])}', f'c17.residual {rats(A_)} {rats(w_)} {rats(V_)}',
                      f'c17.principal {rats(w_)} {rats(V_)}',
                      f'c17.fromeigens {rats(vals[k])} {rats(dirs[k])} {int(eng)}']
        # exactly diagonal tensors with three distinct values: the frame is unique up to signs; the real result must be the
        # one of the model `diagShortcut true` (C17_diag_shortcut) for the descending order of the diagonal
        dl, dk = [], []
        for k in range(n):
            dg = [float(T[k][0, 0]), float(T[k][1, 1]), float(T[k][2, 2])]
            if not (T[k][0, 1] or T[k][1, 2] or T[k][0, 2]) and len(set(dg)) == 3:
                srt = sorted(range(3), key=lambda i_: -dg[i_])
                dl.append(f'c17.diagshortcut {rats(dg)} {srt[0]} {srt[1]} {srt[2]}')
                dk.append(k)
        for k, r in zip(dk, ctx.driver.ask_many(dl) if dl else []):
            g = [float(x) for x in reply_rats(r)]
            sc = max(float(np.abs(T[k]).max()), 1e-300)
            if not (np.all(np.abs(np.array(g[:3]) - vals[k]) <= 1e-13 * sc)
                    and np.all(np.abs(np.abs(np.array(g[3:12])) - np.abs(dirs[k])) <= 1e-12)):
                ctx.disagree('principal components of an exactly diagonal tensor (model diagShortcut)',
                             {'order': list(order), 'eng': eng, 'row': before[k].tolist()},
                             {'values': vals[k].tolist(), 'directions': dirs[k].tolist()}, g)
                break
        ctx.count('compared:diagonal tensors vs diagShortcut', len(dk))
        rep = ctx.driver.ask_many(lines) if lines else []
        for q, (k, A_) in enumerate(rows_):
            ci = {'order': list(order), 'eng': eng, 'row': before[k].tolist()}
            m_in = reply_rats(rep[4 * q])[1:]
            if m_in != fr(A_):
                ctx.disagree('matrix handed to eigh', ci, A_.tolist(), [str(x) for x in m_in])
                break
            res = [float(x) for x in reply_rats(rep[4 * q + 1])]
            r1, r2, asc = res[:9], res[9:18], res[18]
            sc = max(float(np.abs(A_).max()), 1e-300)
            if max(abs(x) for x in r1) > 1e-12 * sc or max(abs(x) for x in r2) > 1e-12 or asc != 1:
                ctx.count('eigh-hypothesis-violated')
                ctx.disagree('eigh post-condition (hypothesis of the theorems) does not hold numerically', ci,
                             {'AV-VL': max(abs(x) for x in r1), 'VtV-1': max(abs(x) for x in r2), 'ascending': asc}, 'residual <= 1e-12')
                break
            p = [float(x) for x in reply_rats(rep[4 * q + 2])]
            mv, md, mvec = np.array(p[:3]), np.array(p[3:12]), np.array(p[12:21])
            if not (np.array_equal(mv, vals[k]) and np.array_equal(md[:6], dirs[k][:6])
                    and np.all(np.abs(md[6:] - dirs[k][6:]) <= 1e-15)
                    and np.all(np.abs(mvec - vecs[k]) <= 4e-15 * max(float(np.abs(vals[k]).max()), 1e-300))):
                ctx.disagree('calculate_principal_components post-processing', ci,
                             {'values': vals[k].tolist(), 'directions': dirs[k].tolist(), 'vectors': vecs[k].tolist()},
                             {'values': mv.tolist(), 'directions': md.tolist(), 'vectors': mvec.tolist()})
                break
            fe = np.array([float(x) for x in reply_rats(rep[4 * q + 3])[1:]])
            if fe.shape != arr_back[k].shape or not np.all(np.abs(fe - arr_back[k]) <= 1e-13 * max(float(np.abs(vals[k]).max()), 1e-300)):
                ctx.disagree('calculate_array_from_eigens', ci, arr_back[k].tolist(), fe.tolist())
                break
        ctx.count('compared:principal tensors', n)
    return fails


def check_strain(ctx, case):
    from femio import functions as fn
    fails = []
    eng = case['eng']
    dtype = case.get('dtype', 'float64')
    rel = rel_tol(dtype)
    a0 = materialise(case['a'], dtype, case.get('layout', 'C'))
    before = a0.copy()
    with EighTap() as tap:
        inv1 = fn.invert_strain(a0, is_engineering=eng)
    inv1 = np.asarray(inv1)
    if inv1.shape != before.shape:
        return [('strain:shape', 'invert_strain does not return an (n, 6) array', {'shape': list(inv1.shape)})]
    if not np.array_equal(before, a0):
        fails.append(('mutation:invert_strain', 'invert_strain modified the caller\'s array',
                      {'before': before.tolist(), 'after': a0.tolist()}))
    inv1_before = inv1.copy()
    inv2 = fn.invert_strain(inv1, is_engineering=eng)
    if not np.array_equal(inv1_before, inv1):
        fails.append(('mutation:invert_strain', 'invert_strain modified the caller\'s array (second call)', {}))
    T = np.array([mat_of([r[0], r[1], r[2]] + [x / (2 if eng else 1) for x in r[3:]]) for r in before], dtype=float)
    w = np.linalg.eigvalsh(T)
    kappa = np.maximum(1.0, np.abs(1 / (1 + w)).max(axis=1))
    scale = np.maximum(np.abs(T).max(axis=(1, 2)), 1.0)
    tol = rel * kappa**2 * scale
    if case.get('tol') == 'linear':
        # near-singular stream: the once-inverted tensor has magnitude kappa, eigh on it is accurate to a few ulp of kappa
        # and the second inversion maps that back with factors (1 + l)^2 <= O(1): rounding noise is linear in kappa
        tol = np.minimum(tol, 5e-14 * kappa * scale / 2)
    if inv2.shape != before.shape or not np.all(np.abs(inv2 - before).max(axis=1) <= tol * 2):
        fails.append(('strain:twice', 'inverting a strain twice does not return the original',
                      {'input': before.tolist(), 'once': inv1.tolist(), 'twice': np.asarray(inv2).tolist(), 'tol': tol.tolist()}))
    B = np.array([mat_of([r[0], r[1], r[2]] + [x / (2 if eng else 1) for x in r[3:]]) for r in inv1], dtype=float)
    prod = np.einsum('nij,njk->nik', np.eye(3) + T, np.eye(3) + B)
    if not np.all(np.abs(prod - np.eye(3)).max(axis=(1, 2)) <= tol * 4):
        fails.append(('strain:inverse', '(1 + strain)(1 + inverted) differs from the identity',
                      {'input': before.tolist(), 'once': inv1.tolist(), 'product': prod.tolist()}))
    if ctx.driver is not None and rel == 1e-12:
        caps = captured(tap)
        rows_ = []
        for k in range(len(a0)):
            cap = caps.get((T[k] + 0.0).tobytes())
            if cap is None:
                if not ctx.dist.get('tie:strain:tensor-not-handed-to-eigh'):
                    no_capture(ctx, 'invert_strain', {'eng': eng, 'row': before[k].tolist()})
                ctx.count('tie:strain:tensor-not-handed-to-eigh')
                continue
            rows_.append((k, cap))
        lines = [f'c17.invstrain {rats(cap[1])} {rats(cap[2])} {int(eng)}' for k, cap in rows_]
        rep = ctx.driver.ask_many(lines) if lines else []
        for (k, cap), r in zip(rows_, rep):
            got = np.array([float(x) for x in reply_rats(r)[1:]])
            if got.shape != inv1[k].shape or not np.all(np.abs(got - inv1[k]) <= 1e-13 * kappa[k] * 4):
                ctx.disagree('invert_strain (on the captured eigen-system)', {'eng': eng, 'row': before[k].tolist()},
                             inv1[k].tolist(), got.tolist())
                break
        ctx.count('compared:invert_strain tensors', len(a0))
    return fails


def check_lte(ctx, case):
    fails = []
    dtype = case.get('dtype', 'float64')
    rel = rel_tol(dtype)
    f0 = materialise(case['f'], dtype, case.get('layout', 'C'))
    n = len(f0)
    import femio
    fd = MG.quiet(femio.generate_brick, 'hex', n, 1, 1)
    before = f0.copy()
    MG.quiet(fd.elemental_data.update_data, fd.elements.ids, {'linear_thermal_expansion_coefficient_full': f0})
    with EighTap() as tap:
        MG.quiet(fd.convert_lte_global2local)
    if not np.array_equal(before, f0):
        fails.append(('mutation:lte_global2local', 'convert_lte_global2local modified the caller\'s array', {}))
    lte = fd.elemental_data.get_attribute_data('lte').copy()
    orient = fd.elemental_data.get_attribute_data('orient').copy()
    fd.elemental_data.pop('linear_thermal_expansion_coefficient_full')
    MG.quiet(fd.convert_lte_local2global)
    back = fd.elemental_data.get_attribute_data('lte_full')
    scale = np.maximum(np.abs(before.astype(float)).max(axis=1), 1e-300)
    back = np.asarray(back)
    if back.shape != before.shape or not np.all(np.abs(back - before).max(axis=1) <= rel * scale):
        fails.append(('lte:roundtrip', 'lte_full -> (lte, orientation) -> lte_full does not return the original values',
                      {'input': before.tolist(), 'lte': lte.tolist(), 'orient': orient.tolist(), 'back': np.asarray(back).tolist()}))
    if ctx.driver is not None and rel == 1e-12 and back.shape == before.shape:
        caps = captured(tap)
        bf = before.astype(float)
        lines, rows_ = [], []
        for k in range(n):
            r_ = bf[k]
            cap = caps.get((mat_of([r_[0], r_[1], r_[2], r_[3] / 2, r_[4] / 2, r_[5] / 2]) + 0.0).tobytes())
            if cap is None:
                if not ctx.dist.get('tie:lte:tensor-not-handed-to-eigh'):
                    no_capture(ctx, 'convert_lte_global2local', {'row': before[k].tolist()})
                ctx.count('tie:lte:tensor-not-handed-to-eigh')
                continue
            A_, w_, V_ = cap
            rows_.append((k, A_))
            lines += [f'c17.ltemat {lst(before[k])}', f'c17.residual {rats(A_)} {rats(w_)} {rats(V_)}',
                      f'c17.lteg2l {rats(w_)} {rats(V_)}', f'c17.ltel2g {rats(lte[k])} {lst(orient[k])}']
        rep = ctx.driver.ask_many(lines) if lines else []
        for q, (k, A_) in enumerate(rows_):
            ci = {'row': before[k].tolist()}
            if reply_rats(rep[4 * q]) != fr(A_):
                ctx.disagree('matrix handed to eigh by convert_lte_global2local', ci, A_.tolist(), rep[4 * q][:200])
                break
            res = [float(x) for x in reply_rats(rep[4 * q + 1])]
            sc = max(float(np.abs(A_).max()), 1e-300)
            if max(abs(x) for x in res[:9]) > 1e-12 * sc or max(abs(x) for x in res[9:18]) > 1e-12 or res[18] != 1:
                ctx.disagree('eigh post-condition (hypothesis of the theorems) does not hold numerically', ci, res, 'residual <= 1e-12')
                break
            g = reply_rats(rep[4 * q + 2])
            if g[:3] != fr(lte[k]) or g[4:] != fr(orient[k]):
                ctx.disagree('convert_lte_global2local stored values', ci, {'lte': lte[k].tolist(), 'orient': orient[k].tolist()},
                             [str(x) for x in g])
                break
            l2g = np.array([float(x) for x in reply_rats(rep[4 * q + 3])[1:]])
            if l2g.shape != back[k].shape or not np.all(np.abs(l2g - back[k]) <= 1e-13 * scale[k]):
                ctx.disagree('convert_lte_local2global', ci, back[k].tolist(), l2g.tolist())
                break
        ctx.count('compared:lte tensors', n)
    return fails


def build_sparse(spec):
    """spec: {'shape', 'fmt' in csr / csc / coo, 'entries': [[i, j, v], ...] in stored order, optional 'idx' (dtype of the
    index arrays handed to scipy, int32 / int64) and 'dtype' (of the stored values)}; CSR / CSC are built from raw arrays and keep
    explicit zeros and the stored (possibly unsorted) order inside a row / column; COO keeps repeated cells (their sum is the value
    of the matrix).  Cost is O(n_row + n_col + nnz) whatever the shape."""
    r, c = spec['shape']
    ent = spec['entries']
    idx = np.dtype(spec.get('idx', 'int32'))
    dt = np.dtype(spec.get('dtype', 'float64'))
    if (max(r, c) > np.iinfo(np.int32).max):
        idx = np.dtype('int64')
    ii = np.array([e[0] for e in ent], dtype=idx)
    jj = np.array([e[1] for e in ent], dtype=idx)
    vv = np.array([e[2] for e in ent], dtype=float).astype(dt)
    assert np.array_equal(vv.astype(float), np.array([e[2] for e in ent], dtype=float)), 'generator: value not representable in the dtype'
    fmt = spec['fmt']
    if fmt == 'coo':
        return sp.coo_matrix((vv, (ii, jj)), shape=(r, c))
    major, minor, nmaj = (ii, jj, r) if fmt == 'csr' else (jj, ii, c)
    assert nmaj <= 400000, 'generator: compressed axis too long to be cheap'
    perm = np.argsort(major, kind='stable')
    indptr = np.concatenate([[0], np.cumsum(np.bincount(major, minlength=nmaj))]).astype(idx)
    cls = sp.csr_matrix if fmt == 'csr' else sp.csc_matrix
    return cls((vv[perm], minor[perm].astype(idx), indptr), shape=(r, c))


def cells_of(m):
    """{(i, j): value} of any scipy sparse matrix (repeated cells summed, explicit zeros kept), O(nnz)"""
    coo = m.tocoo()
    d = {}
    for i, j, v in zip(coo.row.tolist(), coo.col.tolist(), coo.data.tolist()):
        d[(i, j)] = d.get((i, j), 0.0) + float(v)
    return d


def stored_pattern(o):
    """stored (row, column) pairs of a CSR matrix in storage order"""
    rows = np.repeat(np.arange(o.shape[0]), np.diff(o.indptr))
    return list(zip(rows.tolist(), o.indices.tolist()))


def judge_align(case, out, want, union, D, tolA, pre, note):
    """the align_nnz clause of the property on one returned list: one common pattern (the union of the stored cells of the inputs)
    and, cell by cell, the values of the corresponding input (O(nnz), no dense arrays)"""
    fails = []
    r, c = case['mats'][0]['shape']
    small = r * c <= 64
    ocsr = [o.tocsr() for o in out]
    pats = [stored_pattern(o) for o in ocsr]
    if len(out) != len(want) or any(p != union for p in pats):
        fails.append((pre + 'align:pattern', 'aligned matrices do not share the union pattern of the inputs' + note,
                      {'union': union, 'patterns': pats, 'mats': case['mats']}))
    for k, (o, d) in enumerate(zip(ocsr, want)):
        got = cells_of(o) if o.shape == (r, c) else None
        bad = None if got is not None else 'shape'
        if got is not None:
            for cell in set(got) | set(d):
                if abs(got.get(cell, 0.0) - float(d.get(cell, 0))) > tolA:
                    bad = cell
                    break
        if bad is not None:
            fails.append((pre + 'align:values', f'aligned matrix {k} differs from its input{note}' + (f' at cell {bad}: input {float(d.get(bad, 0))!r}, '
                          f'aligned {got.get(bad, 0.0)!r}' if got is not None else ' (shape)'),
                          {'input': sorted([i, j, float(v)] for (i, j), v in d.items()),
                           'output': sorted([i, j, v] for (i, j), v in (got or {}).items()), 'D': D,
                           **({'mats': case['mats']} if small else {})}))
            break
    return fails


def check_align(ctx, case):
    from femio import functions as fn
    fails = []
    mats = []
    for s_ in case['mats']:      # 'alias': k = the very same scipy object as the k-th matrix of the list (class K of ROUND5)
        mats.append(mats[s_['alias']] if 'alias' in s_ else build_sparse(s_))
    r, c = case['mats'][0]['shape']
    want = []                                   # the value of every input: {cell: exact value}, explicit zeros are stored cells
    for s_ in case['mats']:      # hypothesis hwf of the theorem (repeated cells only in the COO format, where they mean their sum)
        cells_ = [(e[0], e[1]) for e in s_['entries']]
        assert (len(set(cells_)) == len(cells_) or s_['fmt'] == 'coo') and all(0 <= i < r and 0 <= j < c for i, j in cells_)
        d = {}
        for e in s_['entries']:
            d[(e[0], e[1])] = d.get((e[0], e[1]), 0) + F(float(e[2]))
        want.append(d)
    snap = [cells_of(m) for m in mats]
    pre = case.get('sigprefix', '')
    out = fn.align_nnz(mats)
    out_again = fn.align_nnz(mats) if case.get('twice') else None     # the caller's list handed in a second time
    # (scipy canonicalises unsorted inputs in place when adding; the property does not claim anything about the
    #  representation of the inputs, only the values are compared)
    for m, d in zip(mats, snap):
        if cells_of(m) != d:
            ctx.count('note:align_nnz changed the value of an input')
    allv = [F(0)] if any(len(d) < r * c for d in want) else []
    allv += [v for d in want for v in d.values()]
    D = float(abs(min(allv)) * 2 + 1)
    # (s + c D) - c D is rounded at the magnitude of s + c D: the tolerance is relative to the larger of D and the largest entry
    # (a positive matrix has D = 1 whatever the size of its entries)
    tolA = 1e-12 * max(D, float(max(abs(v) for v in allv)) if allv else 0.0)
    union = sorted({k for d in want for k in d})
    out = list(out)
    ocsr = [o.tocsr() for o in out]
    fails += judge_align(case, out, want, union, D, tolA, pre, '')
    if out_again is not None and not fails:
        fails += judge_align(case, list(out_again), want, union, D, tolA, pre + 'second-call:', ' (second call with the same list)')
    if ctx.driver is not None:
        toks = ['c17.align', str(r * c), str(len(want))]
        for d in want:           # the model's input is the canonical form of every matrix (repeated COO cells summed)
            toks.append(str(len(d)))
            for (i, j), v in d.items():
                toks += [str(i), str(j), str(v)]
        t = C.Toks(ctx.driver.ask(' '.join(toks))[3:])
        mD = t.rat()
        mm = t.lst(lambda: t.lst(lambda: (t.nat(), t.nat(), t.rat())))
        if abs(float(mD) - D) > 4e-16 * D:        # the real D is rounded once more than the exact one
            ctx.disagree('align_nnz dummy scale', case, D, str(mD))
        else:
            for o, mo in zip(ocsr, mm):
                real = [(i, j, float(v)) for (i, j), v in zip(stored_pattern(o), o.data.tolist())]
                if [(i, j) for i, j, _ in real] != [(i, j) for i, j, _ in mo] or any(
                        abs(a[2] - float(b[2])) > tolA for a, b in zip(real, mo)):
                    ctx.disagree('align_nnz output', case, real, [(i, j, str(v)) for i, j, v in mo])
                    break
        ctx.count('compared:align_nnz matrices', len(mats))
        # tie R (round 5): the binary64 model of the dummy trick (Model/TensorRound.lean: every value is fl(fl(v + d_c) - d_c),
        # d_c = D added c times, c = number of matrices of the list storing the cell) predicts every returned value BIT-EXACTLY;
        # lists without repeated COO cells (scipy's summation order of duplicates is not modelled), at most 64 stored values
        if len(out) == len(want) and all(len(d) == len(s_['entries']) for d, s_ in zip(want, case['mats'])) \
                and all(p == union for p in (stored_pattern(o) for o in ocsr)) and 0 < len(union) * len(want) <= 64:
            cnt = {cell: sum(1 for d in want if cell in d) for cell in union}
            pairs = [(cnt[cell], d.get(cell, F(0))) for d in want for cell in union]
            r_ = ctx.driver.ask(f'c17.alignfl {C.enc_rat(D)} {len(pairs)} ' + ' '.join(f'{c_} {v}' for c_, v in pairs))
            model = reply_rats(r_)[1:]
            real = [F(float(x)) for o in ocsr for x in o.data.tolist()]
            # bit for bit on the unchanged code; another evaluation order of the same three operations (still the property: the
            # values are the original ones within rounding) may differ by a few ulp of |v| + d_c: counted, not reported
            exact = len(model) == len(real) and model == real
            if not exact:
                slack = [4 * 2.0**-53 * (abs(float(v)) + (c_ + 1) * D) for c_, v in pairs]
                bad = [i for i, (a_, b_) in enumerate(zip(model, real)) if abs(float(a_ - b_)) > slack[i]] if len(model) == len(real) else [0]
                if bad:
                    q = bad[0]
                    ctx.disagree('align_nnz values vs the binary64 model of (v + c D) - c D (more than 4 ulp of |v| + c D)', case,
                                 {'D': D, 'c, v': [pairs[q][0], float(pairs[q][1])], 'real': float(real[q]) if real else None},
                                 float(model[q]) if model else None)
                else:
                    ctx.count('tie R: align_nnz values differ from the binary64 model in the last bits only (lists)')
            else:
                ctx.count('tie R: align_nnz values equal the binary64 model bit for bit (lists)')
            ctx.count('compared:align_nnz values vs binary64 model', len(pairs))
    return fails


def guarded(f, ctx, case):
    """an exception raised inside femio on an input of the quantifier is a failure of the property (the helpers are
    total on these inputs); an exception of the harness itself is re-raised"""
    import traceback
    try:
        return f(ctx, case)
    except Exception as e:
        frames = traceback.extract_tb(e.__traceback__)
        if any('/femio/' in fr.filename for fr in frames):
            where = [fr for fr in frames if '/femio/' in fr.filename][-1]
            return [(f'{case.get("sigprefix", "")}raises:{where.name}:{type(e).__name__}', f'{where.name} raises {type(e).__name__}: {e}',
                     {'line': where.lineno})]
        raise


CHECKS = {'arrmat': check_arrmat, 'principal': check_principal, 'strain': check_strain, 'lte': check_lte, 'align': check_align}


# ------------------------------------------------------------------ generation

def gen_align(rnd):
    r, c = rnd.randint(1, 6), rnd.randint(1, 6)
    k = rnd.randint(1, 4)
    fmt = rnd.choice(['csr', 'csr', 'coo'])
    mats = []
    sign = rnd.choice(['mixed', 'mixed', 'positive', 'negative'])
    for _ in range(k):
        dens = rnd.choice([0.0, .2, .5, .8, 1.0])
        cells = [(i, j) for i in range(r) for j in range(c) if rnd.random() < dens or dens == 1.0]
        if fmt == 'csr' and rnd.random() < .4:
            rnd.shuffle(cells)           # unsorted column order inside the rows
        ent = []
        for (i, j) in cells:
            v = rnd.choice([float(rnd.randint(1, 9)), rnd.randint(1, 2**20) / 2.0**rnd.randint(0, 12), round(rnd.uniform(0, 100), 6) + .5])
            if sign == 'negative' or (sign == 'mixed' and rnd.random() < .5):
                v = -v
            if fmt == 'csr' and rnd.random() < .08:
                v = 0.0                  # explicit zero
            ent.append([i, j, v])
        mats.append({'shape': [r, c], 'fmt': fmt, 'entries': ent})
    return {'mats': mats}


# shapes with n_row * n_col around and beyond 2**31, 2**32, 2**33 whose CSR form is cheap (n_row <= 3e5): flattened
# (row * n_col + col) positions of the last rows do not fit the int32 index dtype scipy uses for such matrices; the two with
# n_col > 2**31 get int64 index arrays from scipy
BIG_SHAPES = [(46341, 46341), (46340, 46341), (65536, 65536), (65537, 65535), (70000, 70000), (100000, 50000), (50000, 100000),
              (3, 2**31 - 1), (2, 2**30 + 1), (7, 2**29 + 3), (92682, 92683), (200000, 200000), (300000, 16384), (16384, 300000),
              (4, 2**33 + 1), (1, 2**32 + 7)]
ALIGN_DTYPES = ['float64', 'float64', 'float64', 'float32', 'int8', 'int16', 'int32', 'int64', 'uint8', 'uint16', 'uint32', 'uint64', 'bool']


def align_value(rnd, dtype, sign):
    dt = np.dtype(dtype)
    if dt.kind == 'b':
        return 1.0
    if dt.kind == 'f' and dt.itemsize == 8:
        v = rnd.choice([float(rnd.randint(1, 9)), rnd.randint(1, 2**20) / 2.0**rnd.randint(0, 12), round(rnd.uniform(0, 100), 6) + .5])
    elif dt.kind == 'f':
        v = rnd.choice([float(rnd.randint(1, 9)), rnd.randint(1, 2**20) / 2.0**rnd.randint(0, 12)])
    else:
        v = float(rnd.randint(1, 9))
    if dt.kind != 'u' and (sign == 'negative' or (sign == 'mixed' and rnd.random() < .5)):
        v = -v
    return v


def big_cells(rnd, r, c, n):
    """n distinct cells of an (r, c) matrix, concentrated where flattened positions cross 2**31, 2**32, 2**33, at the last rows /
    columns and at the corners"""
    rows = {0, 1, r - 1, r - 2, r // 2}
    cols = {0, 1, c - 1, c - 2, c // 2}
    for b in (2**31, 2**32, 2**33):
        q, m = divmod(b, c)
        rows |= {q - 1, q, q + 1}
        cols |= {m - 1, m, m + 1}
    rows = sorted(x for x in rows if 0 <= x < r)
    cols = sorted(x for x in cols if 0 <= x < c)
    cells = set()
    while len(cells) < min(n, r * c):
        i = rnd.choice(rows) if rnd.random() < .75 else rnd.randrange(r)
        j = rnd.choice(cols) if rnd.random() < .6 else rnd.randrange(c)
        cells.add((i, j))
    return sorted(cells)


def gen_align_x(rnd, size):
    """align_nnz inputs with the dimensions the first generator lacks: per-matrix format (csr / csc / coo, mixed inside one list),
    dtype of the index arrays handed to scipy, dtype of the stored values, repeated cells in COO (float64 only), unsorted order in
    CSR and CSC, and shape class `size`: 'small' (<= 6 x 6), 'medium' (<= 300 x 300, sparse), 'big' (BIG_SHAPES)"""
    if size == 'big':
        r, c = rnd.choice(BIG_SHAPES)
    elif size == 'medium':
        r, c = rnd.randint(7, 300), rnd.randint(7, 300)
    else:
        r, c = rnd.randint(1, 6), rnd.randint(1, 6)
    k = rnd.randint(1, 4)
    fmts = [f for f in ('csr', 'csc', 'coo') if not (f == 'csc' and c > 400000)]
    mode = rnd.choice(['same', 'same', 'mixed'])
    f0 = rnd.choice(fmts)
    dtype = rnd.choice(ALIGN_DTYPES)
    dt = np.dtype(dtype)
    sign = rnd.choice(['mixed', 'mixed', 'positive', 'negative'])
    layout = rnd.choice(['spread', 'first-and-last', 'shared']) if size != 'small' else 'spread'
    base = big_cells(rnd, r, c, rnd.randint(2, 14)) if size != 'small' else None
    extreme = dt.kind in 'iu' and rnd.random() < .3
    mats = []
    for q in range(k):
        fmt = f0 if mode == 'same' else rnd.choice(fmts)
        if size == 'small':
            dens = rnd.choice([0.0, .2, .5, .8, 1.0])
            cells = [(i, j) for i in range(r) for j in range(c) if rnd.random() < dens or dens == 1.0]
        elif layout == 'shared':
            cells = list(base)
        elif layout == 'first-and-last':
            cut = base[len(base) // 2][0]
            lo, hi = [x for x in base if x[0] < cut], [x for x in base if x[0] >= cut]
            cells = (lo, hi)[q % 2] if rnd.random() < .8 else list(base)
        else:
            cells = big_cells(rnd, r, c, rnd.randint(0, 14)) if rnd.random() < .6 else rnd.sample(base, rnd.randint(0, len(base)))
        cells = list(cells)
        if (fmt != 'coo' and rnd.random() < .4 and max(r, c) <= 400000) or (fmt == 'coo' and rnd.random() < .5):
            # unsorted order inside the rows / columns, arbitrary order of the COO triplets (not for CSR with more than 4e5
            # columns: scipy adds unsorted CSR matrices with an O(n_col) workspace, which is gigabytes there - a cost, not a value)
            rnd.shuffle(cells)
        ent = []
        for (i, j) in cells:
            v = align_value(rnd, dtype, sign)
            if rnd.random() < .08 and fmt != 'coo':
                v = 0.0                  # explicit zero (stored False for bool)
            ent.append([i, j, v])
        if fmt == 'coo' and dtype == 'float64' and ent and rnd.random() < .3:
            for _ in range(rnd.randint(1, 3)):       # repeated cells: the matrix holds their sum
                i, j, _v = rnd.choice(ent)
                ent.insert(rnd.randrange(len(ent) + 1), [i, j, align_value(rnd, dtype, sign)])
        mats.append({'shape': [r, c], 'fmt': fmt, 'entries': ent, 'idx': rnd.choice(['int32', 'int64']), 'dtype': dtype})
    case = {'mats': mats}
    if extreme:
        # values at the ends of the integer dtype: everything femio derives from the entries (the dummy value 2 |min| + 1, sums
        # over the inputs) leaves the dtype; one entry is chosen so that adding the WRAPPED dummy value cancels it
        info = np.iinfo(dt)
        bits = dt.itemsize * 8
        ents = [e for m_ in mats for e in m_['entries'] if e[2] != 0.0]
        if len(ents) >= 2 and bits <= 32:
            lo = [info.min, info.min + 1, -(info.max // 2) - 1, -(info.max // 2) - rnd.randint(2, 30), -info.max] if dt.kind == 'i' \
                else [info.max, info.max - 1, info.max // 2 + 1]
            mval = rnd.choice(lo)
            e0, e1 = rnd.sample(ents, 2)
            for e in ents:
                if dt.kind == 'i' and e[2] < mval:
                    e[2] = float(mval)
            e0[2] = float(mval)
            wrapped = ((2 * abs(mval) + 1 + (2**(bits - 1) if dt.kind == 'i' else 0)) % 2**bits) - (2**(bits - 1) if dt.kind == 'i' else 0)
            for cand in (-wrapped, -2 * wrapped, info.max):
                if max(mval, info.min) <= cand <= info.max and cand != 0 and (dt.kind == 'i' or cand >= 0):
                    e1[2] = float(cand)
                    break
            case['sigprefix'] = 'int-dtype-extreme:'
    return case


INT_DTYPES = ['int8', 'int16', 'int32', 'int64', 'uint8', 'uint16', 'uint32', 'uint64']
MIX_STYLES = ['adjacency+weights', 'counts+weights', 'random-mix', 'random-mix', 'float32+float64', 'int+int']


def mix_value(rnd, dtype, sign, style, wscale=1, fkind='any'):
    """one stored value of a matrix of the mixed-dtype stream: integer-dtype matrices hold 1 (adjacency), small counts or counts up
    to 120; float64 matrices mostly hold decimal fractions of magnitude up to 1.5 * wscale (k/10, k/100, 6 decimals: D = 2 |min| + 1
    is then NOT a dyadic number and of the magnitude of the integer entries, so that v + c D often lies in the binade above c D and
    (v + c D) - c D carries round-off: 0.9999999999999996 for 1), some dyadic fractions / integers / values below 1e-3; float32
    matrices dyadic fractions with <= 20 bits"""
    dt = np.dtype(dtype)
    if dt.kind == 'b':
        return 1.0
    if dt.kind in 'iu':
        v = 1.0 if style == 'adjacency+weights' else float(rnd.choice([rnd.randint(1, 9), rnd.randint(1, 9), rnd.randint(10, 120)]))
    elif dt.itemsize == 8:
        c = fkind if fkind != 'any' else rnd.choice(['tenths', 'hundredths', 'decimal', 'decimal', 'dyadic', 'int', 'small'])
        v = {'tenths': lambda: rnd.randint(1, 15) * wscale / 10, 'hundredths': lambda: rnd.randint(1, 150) * wscale / 100,
             'decimal': lambda: (round(rnd.uniform(0, 1.5), 6) + 1e-6) * wscale, 'dyadic': lambda: rnd.randint(1, 2**20) / 2.0**rnd.randint(0, 12),
             'int': lambda: float(rnd.randint(1, 9)), 'small': lambda: round(rnd.uniform(0, 1e-3), 9) + 1e-9}[c]()
    else:
        v = rnd.choice([float(rnd.randint(1, 9)), rnd.randint(1, 2**20) / 2.0**rnd.randint(0, 12)])
    if dt.kind not in 'ub' and (sign == 'negative' or (sign == 'mixed' and rnd.random() < .5)):
        v = -v
    return v


def roundoff_exposed(mats):
    """does the dummy trick of align_nnz - every output value is (v + c D) - c D with D = 2 |min| + 1 and c = number of matrices of
    the list that store the cell - recover some entry of an INTEGER-dtype matrix of the list inexactly in binary64? Returns
    'toward-zero' / 'away' / None.  (Used by the generator only, to make such lists a deliberate style: the oracle never looks at it.)"""
    cnt, allv = {}, []
    r, c = mats[0]['shape']
    for m_ in mats:
        for cell in {(e[0], e[1]) for e in m_['entries']}:
            cnt[cell] = cnt.get(cell, 0) + 1
        allv += [e[2] for e in m_['entries']]
        if len(m_['entries']) < r * c:
            allv.append(0.0)
    D = abs(float(min(allv))) * 2 + 1
    res = None
    for m_ in mats:
        if np.dtype(m_['dtype']).kind not in 'iub':
            continue
        for i, j, v in m_['entries']:
            dummy = 0.0
            for _ in range(cnt[(i, j)]):
                dummy += D
            got = (v + dummy) - dummy
            if got != v:
                if abs(got) < abs(v):
                    return 'toward-zero'
                res = 'away'
    return res


def gen_align_mix(rnd, style=None, size=None):
    """align_nnz on a list whose matrices do NOT share one value dtype (classes K, N, T of ROUND5: mixed int + float inputs in one
    call, made a deliberate style instead of luck): 2..4 matrices of a common shape, value dtype PER MATRIX according to `style`
      adjacency+weights : one or two 0/1 matrices (bool / any integer dtype; symmetric pattern for square shapes) + float64
                          matrices of signed decimal weights on some of the same cells and some others,
      counts+weights    : integer counts 1..120 + signed float64 weights,
      random-mix        : every matrix draws its own dtype from ALIGN_DTYPES,
      float32+float64   : single and double precision,
      int+int           : different integer dtypes (signed with unsigned, narrow with wide),
    format / index dtype / sortedness per matrix as in gen_align_x; the position of the integer matrices in the list is random;
    with probability 1/4 one matrix appears TWICE in the list (the same scipy object, or an equal copy: two members with the same
    cells and values); every case is evaluated twice with the same list (`twice`)."""
    style = style or rnd.choice(MIX_STYLES)
    size = size or rnd.choice(['small', 'small', 'small', 'medium'])
    if size == 'medium':
        r, c = rnd.randint(7, 120), rnd.randint(7, 120)
    else:
        r, c = rnd.randint(2, 6), rnd.randint(2, 6)
    if style == 'adjacency+weights' and rnd.random() < .7:
        c = r
    k = rnd.randint(2, 4)
    if style in ('adjacency+weights', 'counts+weights'):
        n_int = 1 if k == 2 or rnd.random() < .7 else 2
        pool = INT_DTYPES + (['bool', 'bool'] if style == 'adjacency+weights' else [])
        dts = [rnd.choice(pool) for _ in range(n_int)] + ['float64'] * (k - n_int)
        rnd.shuffle(dts)
    elif style == 'float32+float64':
        dts = ['float32', 'float64'] + [rnd.choice(['float32', 'float64']) for _ in range(k - 2)]
        rnd.shuffle(dts)
    elif style == 'int+int':
        dts = rnd.sample(INT_DTYPES, k) if rnd.random() < .8 else [rnd.choice(INT_DTYPES + ['bool']) for _ in range(k)]
    else:
        dts = [rnd.choice(ALIGN_DTYPES) for _ in range(k)]
        if len(set(dts)) == 1:
            dts[rnd.randrange(k)] = rnd.choice([d for d in ALIGN_DTYPES if d != dts[0]])
    sign = rnd.choice(['mixed', 'mixed', 'mixed', 'negative', 'positive'])
    wscale = rnd.choice([1, 1, 1, 10, 100])
    # kind of the float64 values PER LIST (with a kind per entry the minimum - hence D - is nearly always one of the large dyadic values)
    fkind = rnd.choice(['tenths', 'hundredths', 'decimal', 'decimal', 'any'])
    if size == 'small':
        base = [(i, j) for i in range(r) for j in range(c)]
    else:
        base = sorted({(rnd.randrange(r), rnd.randrange(c)) for _ in range(rnd.randint(4, 40))})
    if style == 'adjacency+weights':       # the edges of a graph on the rows: a ring / a random symmetric set (square shapes)
        if r == c and rnd.random() < .6:
            adj = {(i, (i + 1) % r) for i in range(r)} | {((i + 1) % r, i) for i in range(r)}
        else:
            adj = {x for x in base if rnd.random() < .4} or {base[0]}
            if r == c:
                adj |= {(j, i) for i, j in adj}
        adj = sorted(x for x in adj if x[0] != x[1] or r != c) or [base[0]]
    mats = []
    for q, dtype in enumerate(dts):
        fmt = rnd.choice(['csr', 'csr', 'csc', 'coo'])
        is_int = np.dtype(dtype).kind in 'iub'
        if style == 'adjacency+weights' and is_int:
            cells = list(adj)
        elif style == 'adjacency+weights':
            cells = [x for x in adj if rnd.random() < .6] + [x for x in base if x not in adj and rnd.random() < (.15 if size == 'small' else .3)]
        else:
            dens = rnd.choice([.2, .5, .8, 1.0]) if size == 'small' else rnd.choice([.3, .6, 1.0])
            cells = [x for x in base if rnd.random() < dens or dens == 1.0]
        cells = sorted(set(cells))
        if rnd.random() < .4:
            rnd.shuffle(cells)
        ent = []
        for (i, j) in cells:
            v = mix_value(rnd, dtype, sign, style, wscale, fkind)
            if rnd.random() < .05 and fmt != 'coo' and not (style == 'adjacency+weights' and is_int):
                v = 0.0
            ent.append([i, j, v])
        mats.append({'shape': [r, c], 'fmt': fmt, 'entries': ent, 'idx': rnd.choice(['int32', 'int64']), 'dtype': dtype})
    dup = None
    if rnd.random() < .25:
        q0 = rnd.randrange(len(mats))
        m2 = {**mats[q0], 'entries': [list(e) for e in mats[q0]['entries']]}
        dup = rnd.choice(['same-object', 'equal-copy'])
        if dup == 'same-object':
            m2['alias'] = q0
        mats.insert(rnd.randint(q0 + 1, len(mats)), m2)      # inserted behind q0: the position the alias refers to stays
    exposed = roundoff_exposed(mats)
    if style in ('adjacency+weights', 'counts+weights') and exposed != 'toward-zero' and rnd.random() < .8:
        # deliberate structure instead of luck (class T): redraw the most negative float64 entry of the list (it determines D) until
        # the dummy trick is inexact on an integer entry (typically within a few draws when D is of the magnitude of the entry)
        fl = [e for m_ in mats if m_['dtype'] == 'float64' and 'alias' not in m_ for e in m_['entries']]
        ints = [abs(e[2]) for m_ in mats if np.dtype(m_['dtype']).kind in 'iub' for e in m_['entries'] if e[2]]
        if fl and ints:
            e0 = min(fl, key=lambda e: e[2])
            twins = [e for m_ in mats if m_['dtype'] == 'float64' for e in m_['entries'] if e is not e0 and e[:2] == e0[:2] and e[2] == e0[2]]
            top = max(abs(e[2]) for e in fl)
            for _ in range(60):
                mag = max(top, rnd.choice(ints) * rnd.uniform(.05, 1.5))
                e0[2] = -(round(mag * rnd.uniform(1.0, 1.3), rnd.choice([1, 2, 6])) + rnd.choice([.1, .3, .7, .01]))
                exposed = roundoff_exposed(mats)
                if exposed == 'toward-zero':
                    break
            for e in twins:               # (an equal copy of the matrix stays an equal copy)
                e[2] = e0[2]
    return {'mats': mats, 'twice': True}, f'{style}:{fkind}:x{wscale}', dup, exposed


def run(ctx):
    rnd = ctx.rng
    perms = list(itertools.permutations(range(6)))
    if ctx.quick:
        orders = [tuple(range(6)), tuple(reversed(range(6)))] + rnd.sample(perms, 58)
    else:
        orders = perms

    def record(kind, case, fails, key, sample, nontrivial=True):
        if callable(fails):
            fails = guarded(fails, ctx, case)
        ctx.case((kind, key), sample=sample, nontrivial=nontrivial)
        ctx.count(f'helper:{kind}')
        for sig, what, obs in fails:
            ctx.fail(sig, what, {'kind': kind, **case}, obs)

    import time
    laps, t_last = {}, [time.time()]

    def lap(name):
        laps[name] = round(laps.get(name, 0) + time.time() - t_last[0], 2)
        t_last[0] = time.time()
    ctx.extra['stream_s'] = laps
    # 0. corpus (inputs of earlier findings and of the classes of seeded changes that were once missed)
    for name, obj in C.corpus_cases(PROP):
        case = dict(obj['input'])
        kind = case.pop('kind')
        record(kind, case, CHECKS[kind], ('corpus', name), None)
        ctx.count('corpus')
    # 1. array <-> matrix for every order x both conventions
    for order in orders:
        for eng in (False, True):
            a, ts, kinds = batch(rnd, order, eng)
            a, layout = layouts(rnd, a)
            case = {'a': a.tolist(), 'order': list(order), 'eng': eng, 'layout': layout}
            record('arrmat', case, check_arrmat, (a.tobytes(), order, eng), {'order': list(order), 'eng': eng, 'a': a.tolist()[:2], 'layout': layout},
                   nontrivial=bool(np.any(a)))
            ctx.count(f'layout:{layout}')
            for k in kinds:
                ctx.count(f'tensor:{k}')
    lap('1 arrmat')
    # 1b. integer-valued arrays stored with an integer dtype (labelled stream)
    for _ in range(ctx.n(6, 40)):
        order = rnd.choice(orders)
        eng = rnd.random() < .7
        a = np.array([[rnd.randint(-9, 9) for _ in range(6)] for _ in range(rnd.randint(1, 3))])
        case = {'a': a.tolist(), 'order': list(order), 'eng': eng, 'layout': 'C', 'dtype': 'int'}
        record('arrmat', case, check_arrmat, ('int', a.tobytes(), order, eng), None)
        ctx.count('stream:int-dtype')
    lap('1b int')
    # 2. principal components / array_from_eigens
    for order in rnd.sample(orders, ctx.n(60, 300)):
        for eng in (False, True):
            a, ts, kinds = batch(rnd, order, eng)
            case = {'a': a.tolist(), 'order': list(order), 'eng': eng}
            record('principal', case, check_principal, (a.tobytes(), order, eng),
                   {'order': list(order), 'eng': eng, 'a': a.tolist()[:2], 'kinds': kinds}, nontrivial=bool(np.any(a)))
    lap('2 principal')
    # 3. invert_strain (default order only: the function has no order option)
    for _ in range(ctx.n(120, 500)):
        eng = rnd.random() < .5
        a, ts, kinds = batch(rnd, tuple(range(6)), eng, strain=True)
        case = {'a': a.tolist(), 'eng': eng}
        record('strain', case, check_strain, (a.tobytes(), eng), {'eng': eng, 'a': a.tolist()[:2], 'kinds': kinds},
               nontrivial=bool(np.any(a)))
    lap('3 strain')
    # 4. lte global -> local -> global
    for _ in range(ctx.n(40, 200)):
        a, ts, kinds = batch(rnd, tuple(range(6)), True)
        case = {'f': a.tolist()}
        record('lte', case, check_lte, a.tobytes(), {'f': a.tolist()[:2], 'kinds': kinds}, nontrivial=bool(np.any(a)))
    lap('4 lte')
    # 5. align_nnz
    for _ in range(ctx.n(300, 1500)):
        case = gen_align(rnd)
        record('align', case, check_align, repr(case), {'mats': case['mats'][:2]},
               nontrivial=any(s['entries'] for s in case['mats']))
        ctx.count(f'align:fmt={case["mats"][0]["fmt"]}')
        ctx.count(f'align:k={len(case["mats"])}')
    lap('5 align')
    # 6. invert_strain on near-singular strains (principal stretch 1 + l = 1e-7 .. 5e-6), linear tolerance; drawn last so
    #    that the cases of the streams above are unchanged for a given seed
    for _ in range(ctx.n(200, 1000)):
        eng = rnd.random() < .5
        a, kinds = near_singular_batch(rnd, eng)
        case = {'a': a.tolist(), 'eng': eng, 'tol': 'linear'}
        record('strain', case, check_strain, ('ns', a.tobytes(), eng), None)
        ctx.count('stream:strain:near-singular')
        ctx.count(f'stream:strain:near-singular:{"engineering" if eng else "tensor"}')
        for k in kinds:
            if k.startswith('near-singular-strain'):
                ctx.count('strain:' + k)
    lap('6 strain near-singular')
    # 7. structured special tensors (class H): every variant of special_variants() in ONE batch together with a few general
    #    tensors, through every helper; all six orders of an exactly diagonal tensor, repeated values at every position, ...
    ident = tuple(range(6))
    for order in [ident] + rnd.sample(orders, ctx.n(9, 119)):
        for eng in (False, True):
            a, kinds = special_batch(rnd, order, eng, full=True)
            case = {'a': a.tolist(), 'order': list(order), 'eng': eng}
            record('principal', case, check_principal, ('H', a.tobytes(), order, eng), None)
            record('arrmat', {**case, 'layout': 'C'}, check_arrmat, ('H', a.tobytes(), order, eng), None)
            ctx.count('stream:structured:principal+arrmat')
            for k in kinds:
                ctx.count('special:' + k.split(':')[0])
                if k.startswith('diagonal:'):
                    ctx.count('special:' + k)
    for _ in range(ctx.n(8, 60)):
        eng = rnd.random() < .5
        a, kinds = special_batch(rnd, ident, eng, strain=True, full=True)
        record('strain', {'a': a.tolist(), 'eng': eng}, check_strain, ('H', a.tobytes(), eng), None)
        ctx.count('stream:structured:strain')
    for _ in range(ctx.n(6, 40)):
        a, kinds = special_batch(rnd, ident, True, full=True)
        record('lte', {'f': a.tolist()}, check_lte, ('H', a.tobytes()), None)
        ctx.count('stream:structured:lte')
    lap('7 structured')
    # 8. dtype and memory layout of the caller's array (class F) x helper, on structured and general batches
    for _ in range(ctx.n(120, 800)):
        helper = rnd.choice(['arrmat', 'principal', 'principal', 'strain', 'lte'])
        dtype = rnd.choice(DTYPES + ['float64', 'float32'])
        layout = rnd.choice(LAYOUTS)
        order = rnd.choice(orders) if helper in ('arrmat', 'principal') else ident
        eng = True if helper == 'lte' else rnd.random() < .5
        if np.dtype(dtype).kind == 'f' and rnd.random() < .4:
            a, _, kinds = batch(rnd, order, eng, strain=(helper == 'strain'))
            if dtype == 'float32':
                a = a.astype(np.float32).astype(float)
        else:
            a, kinds = special_batch(rnd, order, eng, strain=(helper == 'strain'), dtype=dtype)
        if not len(a):
            continue
        if helper == 'lte':
            case = {'f': a.tolist(), 'dtype': dtype, 'layout': layout}
        elif helper == 'strain':
            case = {'a': a.tolist(), 'eng': eng, 'dtype': dtype, 'layout': layout}
        else:
            case = {'a': a.tolist(), 'order': list(order), 'eng': eng, 'dtype': dtype, 'layout': layout, 'mlayout': rnd.choice(MLAYOUTS)}
            ctx.count(f'returned-array-layout:{case["mlayout"]}')
        record(helper, case, CHECKS[helper], ('F', helper, a.tobytes(), order, eng, dtype, layout), None, nontrivial=bool(np.any(a)))
        ctx.count(f'stream:typed:{helper}')
        ctx.count(f'dtype:{dtype}')
        ctx.count(f'layout:{layout}')
    lap('8 typed')
    # 9. align_nnz: formats mixed inside one list, csc, index dtype, value dtype, repeated COO cells; medium shapes; and a few
    #    large-but-cheap shapes (class G: n_row * n_col beyond 2**31 / 2**32 / 2**33 with a handful of stored entries)
    for size, cnt in (('small', ctx.n(150, 800)), ('medium', ctx.n(30, 200)), ('big', ctx.n(30, 250))):
        for _ in range(cnt):
            case = gen_align_x(rnd, size)
            record('align', case, check_align, repr(case), None, nontrivial=any(s_['entries'] for s_ in case['mats']))
            ctx.count(f'align:size={size}')
            ctx.count(f'align:value-dtype={case["mats"][0]["dtype"]}')
            ctx.count('align:formats=' + '+'.join(sorted({s_['fmt'] for s_ in case['mats']})))
            if 'sigprefix' in case:
                ctx.count('stream:align:int-dtype-extreme')
            if size == 'big':
                r_, c_ = case['mats'][0]['shape']
                ctx.count('align:big:cells>2^%d' % (33 if r_ * c_ > 2**33 else 32 if r_ * c_ > 2**32 else 31 if r_ * c_ > 2**31 else 0))
    lap('9 align extended')
    # 10. align_nnz on lists whose matrices have DIFFERENT value dtypes (ROUND5 classes K / N / T): integer adjacency / count
    #     matrices together with signed float weights whose minimum is a decimal fraction, float32 with float64, signed with
    #     unsigned, one matrix twice in the list; every list is aligned twice. Drawn after the older streams.
    for q in range(ctx.n(160, 1000)):
        case, style, dup, exposed = gen_align_mix(rnd, style=MIX_STYLES[q % len(MIX_STYLES)] if q < 2 * len(MIX_STYLES) else None)
        record('align', case, check_align, repr(case), {'mats': case['mats'][:2]} if q < 2 else None,
               nontrivial=any(s_['entries'] for s_ in case['mats']))
        ctx.count('stream:align:mixed-dtype')
        ctx.count(f'align-mix:style={style.split(":")[0]}')
        ctx.count(f'align-mix:float-values={":".join(style.split(":")[1:])}')
        ctx.count(f'align-mix:dummy-trick-inexact-on-an-integer-entry={exposed}')
        ctx.count('align-mix:dtypes=' + '+'.join(sorted({np.dtype(s_['dtype']).kind for s_ in case['mats']})))
        if dup:
            ctx.count(f'align-mix:duplicate={dup}')
    lap('10 align mixed dtype')
    # 11. absolute scale (class L): the same kinds of batches multiplied by an exact power of two 2^+-(40..250), i.e. entries of
    #     1e-80 / 1e+80 whose differences are "zero" / "infinite" for any absolute epsilon or np.allclose default; every judgement
    #     of the helpers is relative to the scale of the tensor; and batches in which some tensors occur twice (class K)
    for q in range(ctx.n(40, 300)):
        helper = ['principal', 'arrmat', 'lte', 'principal'][q % 4]
        order = rnd.choice(orders) if helper != 'lte' else ident
        eng = True if helper == 'lte' else rnd.random() < .5
        if rnd.random() < .5:
            a, _, kinds = batch(rnd, order, eng)
        else:
            a, kinds = special_batch(rnd, order, eng)
        e = rnd.choice([-1, 1]) * rnd.randint(40, 250)
        mode = rnd.choice(['scale', 'scale', 'scale+duplicates', 'duplicates'])
        if mode != 'duplicates':
            a = a * 2.0**e
        if 'duplicates' in mode:
            a = np.concatenate([a, a[[rnd.randrange(len(a)) for _ in range(rnd.randint(1, 3))]]])
            a = a[rnd.sample(range(len(a)), len(a))]
        case = {'f': a.tolist()} if helper == 'lte' else {'a': a.tolist(), 'order': list(order), 'eng': eng}
        if helper == 'arrmat':
            case['layout'] = 'C'
        record(helper, case, CHECKS[helper], ('L', helper, a.tobytes(), order, eng), None, nontrivial=bool(np.any(a)))
        ctx.count(f'stream:abs-scale:{helper}')
        ctx.count(f'abs-scale:mode={mode}')
        if mode != 'duplicates':
            ctx.count('abs-scale:2^%s%d..' % ('+' if e > 0 else '-', abs(e) // 50 * 50))
    lap('11 absolute scale / duplicates')
    ctx.extra['orders'] = len(orders)


def replay(ctx, obj):
    case = dict(obj['input'])
    kind = case.pop('kind')
    fails = guarded(CHECKS[kind], ctx, case)
    return {'fails': bool(fails), 'failures': [{'signature': s, 'what': w, 'observed': o} for s, w, o in fails]}
