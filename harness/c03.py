"""C03 - FrontISTR .cnt write -> read keeps the analysis conditions; node-group expansion.

Tie D: (a) `Femio.Fistr.writeCnt` must render, line by line, the control file `FistrWriter.write_cnt` writes
(values = decimals with exactly the digits the section's format carries); (b) `Femio.Fistr.readCnt` and the real
reader parse the same text (written text, and text where rows are addressed to node-group names) to the same
tables, row by row.
Oracle (real code only): write -> read back -> solution type and the set of (node, dof, value) prescriptions per
constraint kind (to 6 / 7 / 13 digits); a file addressing a node group by name vs the same file listing the
members explicitly must read to the same prescription sets.
"""
import shutil

import numpy as np

from . import common as C
from . import fistr_common as X
from . import c01

PROP = 'C03'
LEAN_MODULES = ['Femio.Props.C03']
THEOREMS = ['C03_boundary_roundtrip', 'C03_spring_roundtrip', 'C03_cload_roundtrip', 'C03_fixtemp_roundtrip',
            'C03_cflux_roundtrip', 'C03_group_expansion', 'C03_solution_type', 'C03_solution_type_known',
            'C03_boundary_dof_gt3_lost', 'C03_line_roundtrip',
            'C03_file_roundtrip', 'C03_roundtrip', 'C03_cflux_both_merged']
PARTIAL = [
    'C03_file_roundtrip / C03_roundtrip (whole control file: readCnt ng (writeCnt c) = expectedCnt c, prescription sets '
    'per kind + solution type, every node-group map) are over the model of write_cnt at default settings (CntIn: '
    'solution type, only-solid flag, the six optional sections; boilerplate lines as transcribed) and its well-formed '
    'inputs WFCnt (\\w+ solution type, 3-wide tables, boundary / cload not all-NaN, not both cflux kinds - '
    'C03_cflux_both_merged says what the reader does then); group-addressed rows never occur in a written file, so '
    'node-group expansion stays a section-level theorem (C03_group_expansion)',
    'decimal <-> binary rounding of %.5E / %E / %.12E and float() is runtime (trusted: correctly rounded)',
]
RULE = ('seeded generator: a combinatorial mesh as in C01 (arbitrary ids / order / types); solution type STATIC or HEAT; '
        'for each of boundary / spring / cload an optional table over a random node subset (distinct ids, arbitrary row '
        'order) with an arbitrary NaN pattern having at least one value (all-NaN rows allowed); optional fixtemp and '
        'cflux or pure_cflux lists; values = decimals with the digits of the section format (6 / 7 / 13) or arbitrary '
        'doubles; node-group stream: 1-3 groups (plus ALL) over arbitrary node subsets used in place of explicit ids in '
        'a random subset of the rows. distinct = distinct case JSON; non-trivial = at least one prescription')
ASSUMPTIONS = [
    'constraint tables have the 3 translational dofs (the reader allocates 3 columns; every fixture of femio does); '
    '6-dof tables run in the labelled stream `outside:dof6`',
    'a table has at least one non-NaN entry; all-NaN tables run in the labelled stream `outside:all-nan`',
    'cflux and pure_cflux are not present at the same time (labelled stream `outside:cflux+pure_cflux`)',
    'ids < 2^53; node-group names match [A-Za-z]\\w* (the reader recognises a group row by its first letter)',
    'all settings other than solution_type at their defaults',
]
TRUSTED = ['C03: correctly rounded printf / float() (libc, CPython)']

DIG = {'boundary': 5, 'spring': 6, 'cload': 6, 'fixtemp': 12, 'cflux': 12, 'pure_cflux': 12}
TOL = {'boundary': 5e-6, 'spring': 5e-7, 'cload': 5e-7, 'fixtemp': 1e-12, 'cflux': 1e-12, 'pure_cflux': 1e-12}
TABLES = ['boundary', 'spring', 'cload']
SCALARS = ['fixtemp', 'cflux', 'pure_cflux']


def val_float(v, p):
    return X.sci_float(tuple(v[1:]), p) if v[0] == 's' else float.fromhex(v[1])


def rand_val(rnd, p, decimal):
    if decimal:
        return ['s'] + list(X.rand_sci(rnd, p))
    return ['h', float(rnd.choice([rnd.uniform(-10, 10), rnd.uniform(-1, 1) * 10.0 ** rnd.randint(-20, 20), 1 / 3, 0.0])).hex()]


def gen_table(rnd, ids, p, decimal, width=3, all_nan=False):
    sub = rnd.sample(ids, rnd.randint(1, min(len(ids), 6)))
    rows = [[i, [rand_val(rnd, p, decimal) if rnd.random() < .5 else None for _ in range(width)]] for i in sub]
    if all_nan:
        return [[i, [None] * width] for i, _ in rows]
    if all(c is None for _, r in rows for c in r):
        rows[rnd.randrange(len(rows))][1][rnd.randrange(width)] = rand_val(rnd, p, decimal)
    return rows


def gen_case(rnd, decimal=None):
    mesh = c01.gen_comb(rnd)
    mesh.update(groups=[], has_all=False, sec=None, temp=None, group_style='none')
    if mesh['decimal'] is False:    # the mesh itself is not under test here: keep it decimal
        mesh = None
        while mesh is None or not mesh['decimal']:
            mesh = c01.gen_comb(rnd)
        mesh.update(groups=[], has_all=False, sec=None, temp=None, group_style='none')
    decimal = (rnd.random() < .75) if decimal is None else decimal
    ids = [i for i, _ in mesh['nodes']]
    case = {'mesh': mesh, 'solution': rnd.choice(['STATIC', 'HEAT']), 'decimal': decimal, 'tables': {}, 'scalars': {}}
    for k in TABLES:
        if rnd.random() < .6:
            case['tables'][k] = gen_table(rnd, ids, DIG[k], decimal)
    for k in ('fixtemp', rnd.choice(['cflux', 'pure_cflux'])):
        if rnd.random() < .5:
            sub = rnd.sample(ids, rnd.randint(1, min(len(ids), 5)))
            case['scalars'][k] = [[i, rand_val(rnd, 12, decimal)] for i in sub]
    return case


def build_fem(case):
    from femio import FEMAttribute
    fd = c01.build_fem(case['mesh'])
    fd.settings['solution_type'] = case['solution']
    for k, rows in case['tables'].items():
        data = np.array([[np.nan if c is None else val_float(c, DIG[k]) for c in r] for _, r in rows], dtype=float)
        fd.constraints[k] = FEMAttribute(k, ids=np.array([i for i, _ in rows], dtype=np.int64), data=data, silent=True)
    for k, rows in case['scalars'].items():
        fd.constraints[k] = FEMAttribute(k, ids=np.array([i for i, _ in rows], dtype=np.int64),
                                         data=np.array([[val_float(v, 12)] for _, v in rows], dtype=float), silent=True)
    return fd


def real_write(ctx, case, tag='w'):
    d = ctx.tmp / tag
    if d.exists():
        shutil.rmtree(d)
    d.mkdir(parents=True)
    fd = build_fem(case)
    X.quiet(fd.write, 'fistr', d / 'mesh')
    return (d / 'mesh.msh').read_text().split('\n')[:-1], (d / 'mesh.cnt').read_text().split('\n')[:-1]


def real_read(ctx, msh, cnt, tag='r'):
    from femio import FEMData
    d = ctx.tmp / tag
    if d.exists():
        shutil.rmtree(d)
    d.mkdir(parents=True)
    (d / 'mesh.msh').write_text('\n'.join(msh) + '\n')
    (d / 'mesh.cnt').write_text('\n'.join(cnt) + '\n')
    fd = X.quiet(FEMData.read_files, 'fistr', [str(d / 'mesh.msh'), str(d / 'mesh.cnt')])
    out = {'solution': str(fd.settings.get('solution_type'))}
    for k in TABLES + SCALARS:
        if k in fd.constraints:
            a = fd.constraints[k]
            data = np.asarray(a.data, dtype=float)
            data = data.reshape(len(a.ids), -1)
            out[k] = [[int(i), [None if x != x else float(x) for x in r]] for i, r in zip(a.ids, data)]
        else:
            out[k] = None
    return out


def presc(rows):
    """the set of (node, dof, value) prescriptions a table denotes"""
    return sorted((i, k + 1, v) for i, r in rows for k, v in enumerate(r) if v is not None)


def presc_of_case(case, k):
    if k in case['tables']:
        return presc([[i, [None if c is None else val_float(c, DIG[k]) for c in r]] for i, r in case['tables'][k]])
    if k in case['scalars']:
        return presc([[i, [val_float(v, 12)]] for i, v in case['scalars'][k]])
    return []


def same_presc(got, want, tol):
    return [(a[0], a[1]) for a in got] == [(b[0], b[1]) for b in want] and all(
        X.close(a[2], b[2], tol) for a, b in zip(got, want))


# ------------------------------------------------------------------ model

def enc_cell(c):
    return '0' if c is None else '1 ' + X.enc_sci(c[1:])


def enc_case(case):
    from femio import config
    only_solid = all(t in config.SOLID_ELEMENT_NAMES for t in case['mesh']['blocks'])
    toks = [C.esc(case['solution']), str(int(only_solid))]
    for k in TABLES:
        if k in case['tables']:
            toks += ['1', str(len(case['tables'][k]))]
            for i, r in case['tables'][k]:
                toks += [str(i), C.enc_list(r, enc_cell)]
        else:
            toks.append('0')
    for k in SCALARS:
        if k in case['scalars']:
            toks += ['1', str(len(case['scalars'][k]))]
            for i, v in case['scalars'][k]:
                toks += [str(i), X.enc_sci(v[1:])]
        else:
            toks.append('0')
    return ' '.join(toks)


def model_write(ctx, case):
    t = C.Toks(ctx.driver.ask('c03.write ' + enc_case(case)))
    if t.tok() != 'ok':
        raise RuntimeError('driver')
    if t.nat() == 0:
        return None
    return t.lst(lambda: C.unesc(t.tok()))


def model_read(ctx, groups, cnt):
    g = C.enc_list(groups.items(), lambda kv: C.esc(kv[0]) + ' ' + C.enc_list(kv[1]))
    rep = ctx.driver.ask('c03.read ' + g + ' ' + C.enc_list(cnt, C.esc))
    t = C.Toks(rep)
    if t.tok() != 'ok':
        raise RuntimeError('driver: ' + rep[:200])
    if t.nat() == 0:
        return None
    return _parse_cntread(t)


def model_expected(ctx, case):
    """(decide (Femio.C03.WFCnt c), Femio.C03.expectedCnt c): hypothesis and right-hand side of C03_file_roundtrip"""
    rep = ctx.driver.ask('c03.expected ' + enc_case(case))
    t = C.Toks(rep)
    if t.tok() != 'ok':
        raise RuntimeError('driver: ' + rep[:200])
    wf = t.nat() == 1
    return wf, _parse_cntread(t)


def _parse_cntread(t):
    out = {'solution': C.unesc(t.tok())}

    def opt(f):
        return f() if t.nat() else None
    for k in TABLES:
        out[k] = opt(lambda: t.lst(lambda: [t.nat(), t.lst(lambda: opt(lambda: X.read_dec(t)))]))
    for k in SCALARS:
        out[k] = opt(lambda: t.lst(lambda: [t.nat(), [X.read_dec(t)]]))
    assert t.done()
    return out


def diff_read(a, b):
    for k in ['solution'] + TABLES + SCALARS:
        if repr(c01._norm(a.get(k))) != repr(c01._norm(b.get(k))):
            return k
    return None


# ------------------------------------------------------------------ node groups

def group_texts(rnd, case, msh, cnt):
    """(msh with !NGROUP blocks, cnt addressing groups by name, cnt listing the members, groups)"""
    ids = [i for i, _ in case['mesh']['nodes']]
    groups = {}
    for _ in range(rnd.randint(1, 3)):
        groups[X.rand_name(rnd, groups, first_alpha=True)] = rnd.sample(ids, rnd.randint(1, min(5, len(ids))))
    ng = []
    for nm, mem in groups.items():
        ng += [f'!NGROUP, NGRP={nm}'] + [str(i) for i in mem]
    msh2 = msh[:-1] + ng + msh[-1:]
    allg = dict(groups)
    allg['ALL'] = ids
    by_name, explicit = [], []
    n_rows = 0
    for ln in cnt:
        f = ln.split(',')
        is_row = (not ln.startswith('!')) and f[0].strip().isdigit() and len(f) >= 2 and any(ch in ln for ch in 'E')
        if is_row and rnd.random() < .5:
            nm = rnd.choice(list(allg))
            rest = ','.join(f[1:])
            by_name.append(rnd.choice(['', ' ']) + nm + rnd.choice(['', ' ']) + ',' + rest)
            explicit += [f'{i},{rest}' for i in allg[nm]]
            n_rows += 1
        else:
            by_name.append(ln)
            explicit.append(ln)
    return msh2, by_name, explicit, allg, n_rows


# ------------------------------------------------------------------ run

def eval_case(ctx, case, groups=True):
    rnd = ctx.rng
    n_presc = sum(len(presc_of_case(case, k)) for k in TABLES + SCALARS)
    desc = {'solution': case['solution'], 'decimal': case['decimal'], 'mesh_types': list(case['mesh']['blocks']),
            'n_nodes': len(case['mesh']['nodes']), 'tables': {k: len(v) for k, v in case['tables'].items()},
            'scalars': {k: len(v) for k, v in case['scalars'].items()}, 'prescriptions': n_presc}
    ctx.case(C.hashlib.sha1(C.json.dumps(case, sort_keys=True).encode()).hexdigest(), sample=desc, nontrivial=n_presc > 0)
    ctx.count('solution:' + case['solution'])
    ctx.count('numbers:' + ('format-digit decimal' if case['decimal'] else 'arbitrary double'))
    ctx.count('ids:' + str(case['mesh']['id_style']) + '/' + case['mesh']['order'])
    for k in list(case['tables']) + list(case['scalars']):
        ctx.count('kind:' + k)
    for k, rows in case['tables'].items():
        for _, r in rows:
            ctx.count('nan-pattern:' + ''.join('x' if c is not None else '.' for c in r))
    inp = {'case': case}
    try:
        msh, cnt = real_write(ctx, case)
    except Exception as e:  # noqa
        ctx.fail('roundtrip:write-raises:' + type(e).__name__, f'write("fistr") raised {e!r}', inp, repr(e))
        return
    if ctx.driver is not None and case['decimal']:
        ml = model_write(ctx, case)
        if ml != cnt:
            k = next((k for k, (a, b) in enumerate(zip(ml or [], cnt)) if a != b), min(len(ml or []), len(cnt)))
            ctx.disagree('cnt text', inp, {'line': k, 'text': cnt[k] if k < len(cnt) else None},
                         {'line': k, 'text': ml[k] if ml and k < len(ml) else None})
    try:
        got = real_read(ctx, msh, cnt)
    except Exception as e:  # noqa
        ctx.fail('roundtrip:read-raises:' + type(e).__name__, f'reading the written files raised {e!r}', inp, repr(e))
        return
    if got['solution'] != case['solution']:
        ctx.fail('roundtrip:solution', f'solution type {case["solution"]} read back as {got["solution"]}', inp, got['solution'])
    for k in TABLES + SCALARS:
        want = presc_of_case(case, k)
        have = presc(got[k]) if got[k] is not None else []
        if not same_presc(have, want, TOL[k]):
            ctx.fail('roundtrip:' + k, f'{k}: prescriptions written {want[:6]} read back {have[:6]}', inp, {'read': have[:20]})
    ids = [i for i, _ in case['mesh']['nodes']]
    if ctx.driver is not None:
        mr = model_read(ctx, {'ALL': ids}, cnt)
        k = 'model-raises' if mr is None else diff_read(got, mr)
        if k:
            ctx.disagree('cnt read: ' + k, inp, got.get(k), None if mr is None else mr.get(k))
        # theorem C03_file_roundtrip instantiated on this case: its hypothesis `WFCnt c` must hold for the generated
        # (in-quantifier) input and its right-hand side `expectedCnt c` must be what the REAL reader returned
        if case['decimal']:
            wf, exp = model_expected(ctx, case)
            ctx.count('theorem-hypothesis WFCnt:' + str(wf).lower())
            if not wf:
                ctx.disagree('generated in-quantifier case is outside Femio.C03.WFCnt (hypothesis of C03_file_roundtrip)',
                             inp, 'in quantifier', 'WFCnt = false')
            else:
                k = diff_read(got, exp)
                if k:
                    ctx.disagree('expectedCnt (right-hand side of C03_file_roundtrip) vs real reader: ' + k, inp,
                                 got.get(k), exp.get(k))
    if not groups or n_presc == 0:
        return
    # node-group name vs explicit listing
    msh2, by_name, explicit, allg, n_rows = group_texts(rnd, case, msh, cnt)
    ctx.count('group-rows', n_rows)
    ginp = {'case': case, 'msh': msh2, 'cnt_by_name': by_name, 'cnt_explicit': explicit, 'groups': allg}
    try:
        a = real_read(ctx, msh2, by_name, tag='g1')
        b = real_read(ctx, msh2, explicit, tag='g2')
    except Exception as e:  # noqa
        ctx.fail('group:read-raises:' + type(e).__name__, f'reading a control file that addresses node groups raised {e!r}', ginp, repr(e))
        return
    for k in TABLES + SCALARS:
        pa = presc(a[k]) if a[k] is not None else []
        pb = presc(b[k]) if b[k] is not None else []
        if sorted(set(pa)) != sorted(set(pb)):
            ctx.fail('group:' + k, f'{k}: group-name file denotes {pa[:6]}, explicit listing denotes {pb[:6]}', ginp, {'by_name': pa[:20], 'explicit': pb[:20]})
    if ctx.driver is not None:
        mr = model_read(ctx, allg, by_name)
        k = 'model-raises' if mr is None else diff_read(a, mr)
        if k:
            ctx.disagree('cnt read (group names): ' + k, ginp, a.get(k), None if mr is None else mr.get(k))


def outside_streams(ctx, n):
    rnd = ctx.rng
    for _ in range(n):
        case = gen_case(rnd, decimal=True)
        ids = [i for i, _ in case['mesh']['nodes']]
        k = rnd.choice(TABLES)
        case['tables'] = {k: gen_table(rnd, ids, DIG[k], True, all_nan=True)}
        try:
            msh, cnt = real_write(ctx, case, tag='o')
            got = real_read(ctx, msh, cnt, tag='o2')
            ctx.count(f'outside:all-nan:{k}:' + ('no prescriptions read' if not got[k] or not presc(got[k]) else 'prescriptions appear'))
        except Exception as e:  # noqa
            ctx.count(f'outside:all-nan:{k}:raises:{type(e).__name__}')
    for _ in range(n):
        case = gen_case(rnd, decimal=True)
        ids = [i for i, _ in case['mesh']['nodes']]
        k = rnd.choice(TABLES)
        case['tables'] = {k: gen_table(rnd, ids, DIG[k], True, width=6)}
        want = presc_of_case(case, k)
        try:
            msh, cnt = real_write(ctx, case, tag='o')
            got = real_read(ctx, msh, cnt, tag='o2')
            have = presc(got[k]) if got[k] is not None else []
            lost = [p for p in want if (p[0], p[1]) not in {(h[0], h[1]) for h in have}]
            ctx.count(f'outside:dof6:{k}:' + ('dofs 4-6 lost silently' if lost else 'kept'))
        except Exception as e:  # noqa
            ctx.count(f'outside:dof6:{k}:raises:{type(e).__name__}')
    for _ in range(n):
        case = gen_case(rnd, decimal=True)
        ids = [i for i, _ in case['mesh']['nodes']]
        case['scalars'] = {k: [[i, rand_val(rnd, 12, True)] for i in rnd.sample(ids, 2)] for k in ('cflux', 'pure_cflux')}
        try:
            msh, cnt = real_write(ctx, case, tag='o')
            got = real_read(ctx, msh, cnt, tag='o2')
            ok = all(same_presc(presc(got[k] or []), presc_of_case(case, k), 1e-12) for k in ('cflux', 'pure_cflux'))
            ctx.count('outside:cflux+pure_cflux:' + ('round-trips' if ok else 'merged into one kind'))
        except Exception as e:  # noqa
            ctx.count(f'outside:cflux+pure_cflux:raises:{type(e).__name__}')


def run(ctx):
    n = ctx.n(250, 2500)
    if ctx.driver is None:
        n *= 2
    for name, obj in C.corpus_cases(PROP):
        r = replay(ctx, obj)
        if r.get('fails'):
            ctx.fail(obj.get('signature', 'corpus:' + name), 'corpus case fails: ' + name, obj.get('input'), r)
    for _ in range(n):
        eval_case(ctx, gen_case(ctx.rng))
    outside_streams(ctx, ctx.n(8, 40))


def replay(ctx, obj):
    inp = obj['input']
    case = inp['case']
    res = {}
    try:
        msh, cnt = real_write(ctx, case)
        got = real_read(ctx, msh, cnt)
    except Exception as e:  # noqa
        return {'fails': True, 'raised': repr(e)}
    bad = []
    if got['solution'] != case['solution']:
        bad.append(['solution', case['solution'], got['solution']])
    for k in TABLES + SCALARS:
        want = presc_of_case(case, k)
        have = presc(got[k]) if got[k] is not None else []
        if not same_presc(have, want, TOL[k]):
            bad.append([k, want[:10], have[:10]])
    res['roundtrip_differences'] = bad
    if 'cnt_by_name' in inp:
        try:
            a = real_read(ctx, inp['msh'], inp['cnt_by_name'], tag='g1')
            b = real_read(ctx, inp['msh'], inp['cnt_explicit'], tag='g2')
            for k in TABLES + SCALARS:
                pa = presc(a[k]) if a[k] is not None else []
                pb = presc(b[k]) if b[k] is not None else []
                if sorted(set(pa)) != sorted(set(pb)):
                    bad.append(['group:' + k, pa[:10], pb[:10]])
        except Exception as e:  # noqa
            bad.append(['group:raises', repr(e)])
        res['group_differences'] = [x for x in bad if str(x[0]).startswith('group')]
    if ctx.driver is not None and case.get('decimal'):
        res['model_text_equals_written_text'] = model_write(ctx, case) == cnt
    res['fails'] = bool(bad)
    return res
