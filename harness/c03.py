"""C03 - FrontISTR .cnt write -> read keeps the analysis conditions; node-group expansion.

Tie D: (a) `Femio.Fistr.writeCnt` must render, line by line, the control file `FistrWriter.write_cnt` writes
(values = decimals with exactly the digits the section's format carries); (b) `Femio.Fistr.readCnt` and the real
reader parse the same text (written text, and text where rows are addressed to node-group names) to the same
tables, row by row.
Oracle (real code only): write -> read back -> solution type and the set of (node, dof, value) prescriptions per
constraint kind (to 6 / 7 / 13 digits); a file addressing a node group by name vs the same file listing the
members explicitly must read to the same prescription sets.
History dimension (round 3, seeded C03-6): the object that is written is not only "as constructed".  Between construction
and write() it is modified through public means (in-place edits of the arrays returned by `.data` / `.values` / of the
array the caller handed in, the data setter, `update_data`, `overwrite`, `.loc[...]` / `.iloc[...]` write-through,
`update(..., allow_overwrite=True)`, replacing / adding / removing a kind, changing the solution type): prescriptions are
added, changed and RELEASED (NaN).  What the control file must carry is the object's CURRENT public state: a snapshot of
(`.ids`, `.data`) of every kind and of the solution type is taken just before write(); the model is fed with that state,
the read-back prescriptions are compared with it, a fresh object constructed independently with the same content must
write the same bytes, a second write of the same object must write the same bytes and leave the conditions unchanged,
and read -> modify -> write -> read must give the modified state.
Size boundaries (round 4, seeded C03-7): stream `size-boundary` - a few large-but-cheap inputs whose sections have row counts just
below / at / above powers of two (65536 and 131072 in particular; 2^12 .. 2^15 for the smaller sections), built vectorised from
recorded generator parameters and judged by the same oracle (oracle only).
Node-group definitions (round 5, seeded C03-10, class P / K): the LAYOUT of the !NGROUP blocks of the mesh file is an input dimension -
ids per line (one per line, all on one line, k per line), a group split over 2-3 blocks that interleave with the blocks of other
groups, separators / padding, RAGGED blocks (k per line with a shorter last line) - as are many-to-one relations between names and
node sets (two names for one node set, a member listed twice, names that extend each other, 1-node and all-node groups).  The
explicit listing is built from the generator's member lists, never from what femio read.  Tie: the model reads the node groups
from the mesh TEXT (`Femio.Fistr.readCntFiles`, driver `c03.readfiles`), NgCfg.rect detected per run (Cfg pattern).
Caller arrays (classes F / N): the table handed to FEMAttribute is float32 / float16 / Fortran-ordered / a non-contiguous view /
read-only, or an integer / unsigned / bool array of integral values (np.zeros((n, 3), dtype=int)); the truth stays the snapshot of
what the object holds at write().
"""
import shutil

import numpy as np

from . import common as C
from . import fistr_common as X
from . import c01

PROP = 'C03'
LEAN_MODULES = ['Femio.Props.C03']
THEOREMS = ['C03_boundary_roundtrip', 'C03_spring_roundtrip', 'C03_cload_roundtrip', 'C03_fixtemp_roundtrip',
            'C03_cflux_roundtrip', 'C03_group_expansion', 'C03_solution_type', 'C03_solution_type_known',
            'C03_boundary_dof_gt3_lost', 'C03_line_roundtrip',
            'C03_file_roundtrip', 'C03_roundtrip', 'C03_cflux_both_merged',
            'C03_history_fresh_any_cfg', 'C03_history_roundtrip', 'C03_history_property', 'C03_history_fresh',
            'C03_history_poke_state', 'C03_history_counterexample_frame_writer',
            'C03_ngroup_layout', 'C03_ngroup_layout_independent', 'C03_ngroup_first_id_counterexample',
            'C03_ngroup_ragged_counterexample_upstream']
PARTIAL = [
    'C03_file_roundtrip / C03_roundtrip (whole control file: readCnt ng (writeCnt c) = expectedCnt c, prescription sets '
    'per kind + solution type, every node-group map) are over the model of write_cnt at default settings (CntIn: '
    'solution type, only-solid flag, the six optional sections; boilerplate lines as transcribed) and its well-formed '
    'inputs WFCnt (\\w+ solution type, 3-wide tables, boundary / cload not all-NaN, not both cflux kinds - '
    'C03_cflux_both_merged says what the reader does then); group-addressed rows never occur in a written file, so '
    'node-group expansion stays a section-level theorem (C03_group_expansion)',
    'decimal <-> binary rounding of %.5E / %E / %.12E and float() is runtime (trusted: correctly rounded)',
    'C03_history_* are over the history model Model/FistrCntHist.lean (a live kind = ids + ndarray + pandas frame; ops: '
    'in-place poke, data setter, write-through, put / pop of a kind, solution type), tied to the real FEMAttribute by the '
    'driver command c03.hist on every decimal history inside that alphabet (public state compared = correspondence; what the '
    'pandas frames hold is recorded in the distribution only, it is not an observable of this property); '
    'update(allow_overwrite=True) (pandas combine_first) and column scaling are exercised by the oracle only',
    'C03_ngroup_layout / C03_ngroup_layout_independent (every chunking of a member list into non-empty !NGROUP lines denotes the member list; two '
    'layouts of one list are the same definition) are about ONE block rendered with `%d` joined by commas (renderNatRow); blanks / tabs / padding '
    'around the ids and the merge of several blocks of one name are covered by the correspondence c03.readfiles (model reads the groups from the '
    'mesh text) and by the oracle, not by a theorem; for the upstream reader (NgCfg.upstream, rect = true) the theorem needs lines of equal length - '
    'C03_ngroup_ragged_counterexample_upstream is the open finding; C03_ngroup_first_id_counterexample is the structure of seeded change C03-10',
]
RULE = ('seeded generator: a combinatorial mesh as in C01 (arbitrary ids / order / types); solution type STATIC or HEAT; '
        'for each of boundary / spring / cload an optional table over a random node subset (distinct ids, arbitrary row '
        'order) with an arbitrary NaN pattern having at least one value (all-NaN rows allowed; rows whose values COINCIDE: '
        'the same value on every dof / on the prescribed dofs, zeros((n, 3))); optional fixtemp and cflux or pure_cflux '
        'lists; values = decimals with the digits of the section format (6 / 7 / 13) or arbitrary doubles; each kind put into '
        'the object by constraints[kind] = FEMAttribute(..) or constraints.update_data(ids, {kind: A}); 12 % of the cases '
        'with non-default frequency / write_visual / heat settings (oracle only). HISTORY dimension (60 % of the cases): '
        '1-4 public modifications between construction and write(), generated against the live object - in-place edits '
        'through the arrays returned by .data / .values / kept by the caller (single cells: prescribe a free dof, change a '
        'value, RELEASE a prescribed dof; whole rows incl. data[-1] = ..; column scaling), data setter / update_data / '
        'overwrite, .loc / .iloc write-through, update(.., allow_overwrite=True) of the attribute and of constraints, '
        'replacing / adding / removing a kind, changing the solution type; an op that raises is counted and skipped. The '
        'expected conditions are always the snapshot (.ids, .data, solution type) taken just before write(); the model is '
        'fed with that state; the conditions the object holds must be the same after write(). Extras on half of the cases: '
        'second write of the same object (same bytes; or 1-2 more modifications between the two writes), an independently constructed fresh object with the snapshot content '
        '(same bytes), read -> modify (0-3 ops) -> write -> read starting from the written file or from the file that '
        'addresses node groups. Node-group stream: 1-3 groups (plus ALL) over arbitrary node subsets of 1-12 nodes / one node / every node '
        '(unreferenced nodes included), 30 % a second name for the same node set, 30 % a name that extends another name (G / G1 / G10, ALL_2), '
        '10 % a member listed twice, used in place of explicit ids in a random subset of the rows (by-name file vs explicit listing built from the '
        'generator member lists). LAYOUT of every group definition in the mesh text: classes one-per-line / one-line / k-per-line (k >= 2 divides the '
        'block) / split (2-3 blocks, each in one of the former layouts) dealt in turn over the groups of a case, the blocks of different groups '
        'interleaved, separators , | ,_ | ,__ | ,TAB | _,_ , right-aligned fields of width 6 / 8 / 10, leading / trailing blank, header with / without blank; '
        '20 % of the cases turn one group of >= 3 members into a RAGGED definition (lines of different lengths: k per line + shorter last line, or '
        'arbitrary line lengths) - inside the quantifier, own signature group-layout:ragged-block:* (open finding on the unchanged tree). Corpus case '
        'ngroup-several-ids-per-line. Caller arrays: per kind 10 % float32 / float16 / Fortran order / non-contiguous view / read-only; 8 % of the cases '
        'one kind as an integer-valued table in int64 / int32 / int16 / uint8 / bool (40 % all zeros). Labelled stream outside:ngroup-format:* (trailing '
        'delimiter, lower-case keyword, blanks around =): recorded, never judged. Stream `size-boundary` (round 4): per quick run two '
        'large-but-cheap inputs built vectorised from recorded generator parameters (hex brick / plate / column of 4 000 - 70 000 nodes, '
        'ids ascending / shuffled / sparse / ~2e9; conditions over random node subsets in arbitrary row order whose NaN pattern holds '
        'EXACTLY the requested number of prescriptions): one table kind just above 65536 rows, one scalar kind above 65536 and one '
        'table kind above 131072 rows, further sections around 2^12 .. 2^15 / 10^4 rows (n-1, n, n+1, n+r), 30 % with an in-place edit '
        'through .data before write(); thorough: every kind at 65535 / 65536 / 65537, table kinds at 131071 / 131072 / 131073 / 196609, '
        'scalar kinds above 131072; same oracle as everywhere (snapshot just before write(), the object unchanged by write(), '
        'prescription multisets and solution type after read-back), vectorised. distinct = distinct input JSON; '
        'non-trivial = at least one prescription in the state that is written')
ASSUMPTIONS = [
    'constraint tables have the 3 translational dofs (the reader allocates 3 columns; every fixture of femio does); '
    '6-dof tables run in the labelled stream `outside:dof6`',
    'a boundary / cload table has at least one non-NaN entry at write() (np.concatenate of nothing raises); all-NaN tables '
    'run in the labelled stream `outside:all-nan`; an edit history that ends there is refilled',
    'cflux and pure_cflux are not present at the same time (labelled stream `outside:cflux+pure_cflux`)',
    'ids < 2^53; node-group names match [A-Za-z]\\w* (the reader recognises a group row by its first letter)',
    'a node-group definition = one or more `!NGROUP, NGRP=name` blocks (upper-case keyword, no blank around =) whose data lines hold one or more '
    'comma-separated ids with optional blanks / tabs around them; lines of DIFFERENT lengths within one block are inside the quantifier (the unchanged '
    'tree raises there: finding group-layout:ragged-block:read-raises:ValueError, findings/C03-ragged-ngroup.md); a delimiter at the end of a line, '
    'lower-case keywords, `NGRP = name`, GENERATE are outside (stream `outside:ngroup-format:*`); two group names that differ only in case are not generated',
    'caller arrays of dtype float32 / float16: the expected conditions are the values the array holds (snapshot), values that overflow to inf there are '
    'outside (`outside:non-finite:*`); the Lean history model is not tied on cases with a non-default caller array (a poke stores a converted value or raises)',
    'settings other than solution_type: defaults, or frequency / write_visual / heat (oracle only); free-text settings '
    '(output_res, output_vis, step) are not generated',
    'the public state of a kind is (.ids, .data): after an in-place edit through .data the pandas frame of the attribute '
    '(.loc / data_frame) is stale on the unchanged tree - that inconsistency is C08 territory and is not judged here; the '
    'writer is held to .data, which is what the unchanged tree writes and what the user edited',
    'FEMAttribute.update(.., allow_overwrite=False) is not generated for an existing kind (DataFrame.append does not exist in '
    'the installed pandas 3: it raises on the unchanged tree); the writer emits no !NGROUP, so node groups cannot be carried '
    'by a modified object - the group clause stays a clause about control-file texts read with a mesh file defining the groups',
]
TRUSTED = ['C03: correctly rounded printf / float() (libc, CPython)']

DIG = {'boundary': 5, 'spring': 6, 'cload': 6, 'fixtemp': 12, 'cflux': 12, 'pure_cflux': 12}
TOL = {'boundary': 5e-6, 'spring': 5e-7, 'cload': 5e-7, 'fixtemp': 1e-12, 'cflux': 1e-12, 'pure_cflux': 1e-12}
TABLES = ['boundary', 'spring', 'cload']
SCALARS = ['fixtemp', 'cflux', 'pure_cflux']


def val_float(v, p):
    return X.sci_float(tuple(v[1:]), p) if v[0] == 's' else float.fromhex(v[1])


def rand_val(rnd, p, decimal):
    if decimal:
        return ['s'] + list(X.rand_sci(rnd, p))
    return ['h', float(rnd.choice([rnd.uniform(-10, 10), rnd.uniform(-1, 1) * 10.0 ** rnd.randint(-20, 20), 1 / 3, 0.0])).hex()]


def gen_cells(rnd, p, decimal, width=3, density=.5):
    """one table row.  Besides independent cells: the idioms in which values COINCIDE - a node fixed / loaded with the same
    value on every dof (`zeros((n, 3))`, a load along the diagonal), the same value on the prescribed dofs only"""
    style = rnd.choice(['free'] * 6 + ['same-all', 'same-all', 'same-prescribed'])
    if style == 'same-all':
        v = rand_val(rnd, p, decimal) if rnd.random() < .6 else (['s', False, 0, 0] if decimal else ['h', (0.0).hex()])
        return [list(v) for _ in range(width)]
    cells = [rand_val(rnd, p, decimal) if rnd.random() < density else None for _ in range(width)]
    if style == 'same-prescribed':
        v = rand_val(rnd, p, decimal)
        cells = [None if c is None else list(v) for c in cells]
    return cells


def gen_table(rnd, ids, p, decimal, width=3, all_nan=False):
    sub = rnd.sample(ids, rnd.randint(1, min(len(ids), 6)))
    rows = [[i, gen_cells(rnd, p, decimal, width)] for i in sub]
    if all_nan:
        return [[i, [None] * width] for i, _ in rows]
    if all(c is None for _, r in rows for c in r):
        rows[rnd.randrange(len(rows))][1][rnd.randrange(width)] = rand_val(rnd, p, decimal)
    return rows


def gen_case(rnd, decimal=None):
    mesh = c01.gen_comb(rnd)
    mesh.update(groups=[], has_all=False, sec=None, temp=None, group_style='none')
    if mesh['decimal'] is False:    # the mesh itself is not under test here: keep it decimal
        mesh = None
        while mesh is None or not mesh['decimal']:
            mesh = c01.gen_comb(rnd)
        mesh.update(groups=[], has_all=False, sec=None, temp=None, group_style='none')
    decimal = (rnd.random() < .75) if decimal is None else decimal
    ids = [i for i, _ in mesh['nodes']]
    case = {'mesh': mesh, 'solution': rnd.choice(['STATIC', 'HEAT']), 'decimal': decimal, 'tables': {}, 'scalars': {}}
    for k in TABLES:
        if rnd.random() < .6:
            case['tables'][k] = gen_table(rnd, ids, DIG[k], decimal)
    for k in ('fixtemp', rnd.choice(['cflux', 'pure_cflux'])):
        if rnd.random() < .5:
            sub = rnd.sample(ids, rnd.randint(1, min(len(ids), 5)))
            case['scalars'][k] = [[i, rand_val(rnd, 12, decimal)] for i in sub]
    # how each kind gets into the object: FEMAttribute assigned to constraints[kind], or constraints.update_data(ids, {kind: A})
    # other settings the writer puts into the control file next to the conditions (oracle only: the model is of the defaults)
    if rnd.random() < .12:
        opts = {'frequency': rnd.randint(2, 50), 'write_visual': False,
                'heat': [[rnd.choice([0.0, 0.5, 1.0]), float(rnd.randint(1, 100)), 0.0, 0.0, rnd.randint(1, 40), 1e-6]]}
        case['settings'] = {k: opts[k] for k in rnd.sample(sorted(opts), rnd.randint(1, 3))}
    # dtype / memory layout of the array the caller hands in (classes F, N): the values are what the array holds
    arr = {}
    for k in list(case['tables']) + list(case['scalars']):
        if rnd.random() < .1:
            arr[k] = rnd.choice(FLOAT_ARRAY_STYLES)
    if rnd.random() < .08:      # integer idiom: np.zeros((n, 3), dtype=int), integer loads / temperatures in an integer / bool array
        k = rnd.choice(TABLES + ['fixtemp'])
        dt = rnd.choice(INT_ARRAY_STYLES)
        lo, hi = {'bool': (0, 1), 'uint8': (0, 255), 'int16': (-999, 999)}.get(dt, (-99999, 99999))
        zero = rnd.random() < .4

        def cell():
            return ['s'] + list(X.sci_of_fraction(0 if zero else rnd.randint(lo, hi), DIG[k]))
        sub = rnd.sample(ids, rnd.randint(1, min(len(ids), 6)))
        if k in TABLES:
            case['tables'][k] = [[i, [cell() for _ in range(3)]] for i in sub]
        else:
            case['scalars'][k] = [[i, cell()] for i in sub]
        arr[k] = dt
    if arr:
        case['array'] = arr
    case['construct'] = {k: rnd.choice(['setitem', 'setitem', 'update_data']) for k in list(case['tables']) + list(case['scalars'])}
    return case


FLOAT_ARRAY_STYLES = ['float32', 'float16', 'fortran', 'noncontig', 'readonly']
INT_ARRAY_STYLES = ['int64', 'int32', 'int16', 'uint8', 'bool']
LOSSY_ARRAY_STYLES = ['float32', 'float16']


def as_array(data, style):
    """the float64 C-ordered table in the dtype / memory layout `style`"""
    if style is None:
        return data
    if style == 'fortran':
        return np.asfortranarray(data)
    if style == 'noncontig':
        return np.repeat(data, 2, axis=1)[:, ::2]
    if style == 'readonly':
        data.setflags(write=False)
        return data
    with np.errstate(over='ignore'):
        return data.astype(style)


def rows_array(rows, p):
    return np.array([[np.nan if c is None else val_float(c, p) for c in r] for r in rows], dtype=float)


def build_fem(case, caller=None):
    """the object as constructed.  `caller` (dict) receives, per kind, the very array that was handed to femio (the
    caller keeps it: FEMAttribute aliases it, so editing it later is one more public way of editing the table)"""
    from femio import FEMAttribute
    fd = c01.build_fem(case['mesh'])
    fd.settings['solution_type'] = case['solution']
    how = case.get('construct', {})
    for k, v in (case.get('settings') or {}).items():
        fd.settings[k] = np.array(v, dtype=float) if k == 'heat' else v
    items = [(k, [i for i, _ in rows], rows_array([r for _, r in rows], DIG[k])) for k, rows in case['tables'].items()]
    items += [(k, [i for i, _ in rows], rows_array([[v] for _, v in rows], 12)) for k, rows in case['scalars'].items()]
    order = case.get('order')
    if order:
        items.sort(key=lambda it: order.index(it[0]) if it[0] in order else len(order))
    styles = case.get('array') or {}
    for k, ids, data in items:
        ids = np.array(ids, dtype=np.int64)
        data = as_array(data, styles.get(k))
        if how.get(k) == 'update_data':     # idiom of tests/util/test_random_generator.py
            X.quiet(fd.constraints.update_data, ids, {k: data})
        else:
            fd.constraints[k] = FEMAttribute(k, ids=ids, data=data, silent=True)
        if caller is not None:
            caller[k] = data
    return fd


def write_obj(ctx, fd, tag='w'):
    d = ctx.tmp / tag
    if d.exists():
        shutil.rmtree(d)
    d.mkdir(parents=True)
    X.quiet(fd.write, 'fistr', d / 'mesh')
    return (d / 'mesh.msh').read_text().split('\n')[:-1], (d / 'mesh.cnt').read_text().split('\n')[:-1]


def real_write(ctx, case, tag='w'):
    return write_obj(ctx, build_fem(case), tag)


def real_read(ctx, msh, cnt, tag='r', want_fd=False):
    from femio import FEMData
    d = ctx.tmp / tag
    if d.exists():
        shutil.rmtree(d)
    d.mkdir(parents=True)
    (d / 'mesh.msh').write_text('\n'.join(msh) + '\n')
    (d / 'mesh.cnt').write_text('\n'.join(cnt) + '\n')
    fd = X.quiet(FEMData.read_files, 'fistr', [str(d / 'mesh.msh'), str(d / 'mesh.cnt')])
    out = {'solution': str(fd.settings.get('solution_type'))}
    for k in TABLES + SCALARS:
        if k in fd.constraints:
            a = fd.constraints[k]
            data = np.asarray(a.data, dtype=float)
            data = data.reshape(len(a.ids), -1)
            out[k] = [[int(i), [None if x != x else float(x) for x in r]] for i, r in zip(a.ids, data)]
        else:
            out[k] = None
    return (out, fd) if want_fd else out


def presc(rows):
    """the set of (node, dof, value) prescriptions a table denotes"""
    return sorted((i, k + 1, v) for i, r in rows for k, v in enumerate(r) if v is not None)


def presc_of_case(case, k):
    if k in case['tables']:
        return presc([[i, [None if c is None else val_float(c, DIG[k]) for c in r]] for i, r in case['tables'][k]])
    if k in case['scalars']:
        return presc([[i, [val_float(v, 12)]] for i, v in case['scalars'][k]])
    return []


def same_presc(got, want, tol):
    return [(a[0], a[1]) for a in got] == [(b[0], b[1]) for b in want] and all(
        X.close(a[2], b[2], tol) for a, b in zip(got, want))


# ------------------------------------------------------------------ histories: public modifications before write()
#
# op alphabet (JSON lists; `rows` = one list of cells per row, cell = value | None (= NaN = free); scalar kinds: 1 cell)
#   ['poke', kind, via, [[row, col, cell] ...]]   arr[row, col] = cell         arr = attr.data | attr.values | the array
#   ['pokerow', kind, via, row, cells]            arr[row] = cells                   the caller handed to femio
#   ['scale', kind, via, col, factor]             arr[:, col] *= factor
#   ['setter', kind, how, rows]                   attr.data = A | attr.update_data(A) | constraints.overwrite(kind, A)
#   ['loc', kind, how, keys, rows]                attr.loc[ids].data = A | attr.iloc[positions].data = A  (write-through)
#   ['update', kind, how, ids, rows]              attr.update(ids, A, allow_overwrite=True) |
#                                                 constraints.update_data(ids, {kind: A}, allow_overwrite=True)
#   ['replace', kind, how, ids, rows]             constraints[kind] = FEMAttribute(..) | constraints.overwrite(kind, A, ids=ids)
#                                                 | constraints.update({kind: FEMAttribute(..)})
#   ['add', kind, how, ids, rows]                 constraints.update_data(ids, {kind: A}) | constraints[kind] = FEMAttribute(..)
#   ['pop', kind]                                 constraints.pop(kind)
#   ['solution', s]                               settings['solution_type'] = s
# An op that raises (e.g. numpy's "assignment destination is read-only" on the array of an attribute whose frame was
# replaced) is not the business of this property (FEMAttribute's own consistency is C08): the outcome is counted and the
# history goes on.  Whatever the ops did, the truth is the snapshot of the public state taken just before write().

def snapshot(fd, frame=False):
    """the CURRENT public state of the conditions: solution type, kinds in dict order, (`.ids`, `.data`) per kind
    (frame=True: what the pandas frames `data_frame` hold instead of `.data` - only for the tie of the history model)"""
    snap = {'solution': str(fd.settings.get('solution_type')), 'order': [], 'kinds': {}}
    for k in fd.constraints.keys():
        if k in TABLES + SCALARS:
            a = fd.constraints[k]
            ids = [int(i) for i in a.ids]
            data = a.data_frame.values if frame else a.data
            data = np.array(data, dtype=float).reshape(len(ids), -1) if len(ids) else np.zeros((0, 0))
            snap['order'].append(k)
            snap['kinds'][k] = (ids, [[float(x) for x in r] for r in data])
    return snap


def snap_presc(snap, k):
    if k not in snap['kinds']:
        return []
    ids, data = snap['kinds'][k]
    return presc([[i, [None if x != x else x for x in r]] for i, r in zip(ids, data)])


def exact_presc_equal(a, b):
    return len(a) == len(b) and all(x[:2] == y[:2] and x[2].hex() == y[2].hex() for x, y in zip(a, b))


def pool_of_case(case, pool=None):
    """float bit pattern -> the decimal datum it was made from (so that a state can be handed to the model exactly)"""
    pool = {} if pool is None else pool
    for k, rows in case['tables'].items():
        for _, r in rows:
            for c in r:
                if c is not None:
                    pool[(DIG[k], val_float(c, DIG[k]).hex())] = c
    for k, rows in case['scalars'].items():
        for _, v in rows:
            pool[(12, val_float(v, 12).hex())] = v
    return pool


def pool_of_ops(ops, pool):
    def cells(k, rows):
        for r in rows:
            for c in r:
                if c is not None:
                    pool[(DIG[k], val_float(c, DIG[k]).hex())] = c
    for op in ops:
        if op[0] == 'poke':
            cells(op[1], [[c for _, _, c in op[3]]])
        elif op[0] == 'pokerow':
            cells(op[1], [op[4]])
        elif op[0] in ('setter',):
            cells(op[1], op[3])
        elif op[0] in ('loc', 'update', 'replace', 'add'):
            cells(op[1], op[4])
    return pool


def state_case(base, snap, pool):
    """the snapshot as a case (what a user who constructs the same content afresh would pass)"""
    fin = {'mesh': base['mesh'], 'solution': snap['solution'], 'tables': {}, 'scalars': {}, 'order': list(snap['order'])}
    if base.get('settings'):
        fin['settings'] = base['settings']
    dec = [True]

    def cell(k, x):
        if x != x:
            return None
        v = pool.get((DIG[k], x.hex()))
        if v is None:
            v = ['h', x.hex()]
        if v[0] != 's':
            dec[0] = False
        return v
    for k in snap['order']:
        ids, data = snap['kinds'][k]
        if k in TABLES:
            fin['tables'][k] = [[i, [cell(k, x) for x in r]] for i, r in zip(ids, data)]
        else:
            fin['scalars'][k] = [[i, cell(k, r[0]) if len(r) == 1 else None] for i, r in zip(ids, data)]
    fin['decimal'] = dec[0]
    return fin


def outside_reason(fin):
    """None if the state is inside the property's quantifier (as delimited by ASSUMPTIONS), else a label"""
    for k, rows in fin['tables'].items():
        if any(len(r) != 3 for _, r in rows):
            return 'width:' + k
        if k != 'spring' and all(c is None for _, r in rows for c in r):
            return 'all-nan:' + k
        if any(c is not None and not np.isfinite(val_float(c, DIG[k])) for _, r in rows for c in r):
            return 'non-finite:' + k
    for k, rows in fin['scalars'].items():
        if any(v is None or not np.isfinite(val_float(v, 12)) for _, v in rows):
            return 'scalar-nan:' + k
    if 'cflux' in fin['scalars'] and 'pure_cflux' in fin['scalars']:
        return 'cflux+pure_cflux'
    return None


def gen_rows(rnd, k, n, decimal, density=.5):
    p = DIG[k]
    if k in SCALARS:
        return [[rand_val(rnd, p, decimal)] for _ in range(n)]
    rows = [gen_cells(rnd, p, decimal, 3, density) for _ in range(n)]
    if all(c is None for r in rows for c in r):
        rows[rnd.randrange(n)][rnd.randrange(3)] = rand_val(rnd, p, decimal)
    return rows


def gen_op(rnd, fd, caller, node_ids, decimal):
    """one concrete op chosen by looking at the live object (so that it releases something that is prescribed,
    prescribes something that is free, addresses rows / ids that exist)"""
    present = [k for k in TABLES + SCALARS if k in fd.constraints and len(fd.constraints[k].ids)]
    absent = [k for k in TABLES + SCALARS if k not in fd.constraints
              and not (k in ('cflux', 'pure_cflux') and ('cflux' in fd.constraints or 'pure_cflux' in fd.constraints))]
    menu = ['solution']
    if present:
        menu += ['poke'] * 7 + ['pokerow'] * 2 + ['scale'] + ['setter'] * 3 + ['loc'] * 3 + ['update'] * 3 + ['replace'] * 2 + ['pop']
    if absent:
        menu += ['add'] * 2
    what = rnd.choice(menu)
    if what == 'solution':
        return ['solution', rnd.choice(['STATIC', 'HEAT'])]
    if what == 'add':
        k = rnd.choice(absent)
        sub = rnd.sample(node_ids, rnd.randint(1, min(len(node_ids), 5)))
        return ['add', k, rnd.choice(['update_data', 'setitem']), sub, gen_rows(rnd, k, len(sub), decimal)]
    k = rnd.choice(present)
    if what == 'pop':
        return ['pop', k]
    a = fd.constraints[k]
    ids = [int(i) for i in a.ids]
    n = len(ids)
    live = np.array(a.data, dtype=float).reshape(n, -1)
    width = live.shape[1]
    p = DIG[k]
    distinct = len(set(ids)) == n
    if what in ('loc', 'update') and not distinct:     # a table read from a file has one row per line: ids repeat
        what = 'poke'
    if what in ('poke', 'pokerow', 'scale'):
        vias = ['data', 'data', 'values']
        if k in caller and np.shares_memory(caller[k], a.data):
            vias.append('caller')
        via = rnd.choice(vias)
        if what == 'pokerow':
            r = rnd.choice([-1, rnd.randrange(n)])
            return ['pokerow', k, via, r, gen_rows(rnd, k, 1, decimal, density=.7)[0]]
        if what == 'scale':
            return ['scale', k, via, rnd.randrange(width), rnd.choice([2.0, -1.0, 0.5])]
        cells = []
        n_val = int(np.sum(~np.isnan(live)))
        for _ in range(rnd.randint(1, 3)):
            r, c = rnd.randrange(n), rnd.randrange(width)
            if any(r == r0 and c == c0 for r0, c0, _ in cells):
                continue
            isnan = bool(np.isnan(live[r, c]))
            if k in TABLES and not isnan and n_val > 1 and rnd.random() < .5:
                cells.append([r, c, None])          # RELEASE a prescribed dof
                n_val -= 1
            else:
                cells.append([r, c, rand_val(rnd, p, decimal)])     # prescribe a free dof / change a value
                n_val += isnan
        return ['poke', k, via, cells]
    if what == 'setter':
        return ['setter', k, rnd.choice(['data=', 'update_data', 'overwrite']), gen_rows(rnd, k, n, decimal)]
    if what == 'loc':
        pos = sorted(rnd.sample(range(n), rnd.randint(1, min(n, 3))))
        how = rnd.choice(['loc', 'iloc'])
        keys = [ids[j] for j in pos] if how == 'loc' else pos
        return ['loc', k, how, keys, gen_rows(rnd, k, len(pos), decimal)]
    if what == 'update':
        fresh_ids = [i for i in node_ids if i not in set(ids)]
        sub = rnd.sample(ids, rnd.randint(0, min(n, 2))) + rnd.sample(fresh_ids, rnd.randint(0, min(len(fresh_ids), 2)))
        if not sub:
            sub = [rnd.choice(ids)]
        rnd.shuffle(sub)
        return ['update', k, rnd.choice(['attr', 'attrs']), sub, gen_rows(rnd, k, len(sub), decimal)]
    sub = rnd.sample(node_ids, rnd.randint(1, min(len(node_ids), 5)))
    return ['replace', k, rnd.choice(['setitem', 'overwrite-ids', 'update-dict']), sub, gen_rows(rnd, k, len(sub), decimal)]


def apply_op(fd, op, caller):
    from femio import FEMAttribute
    what = op[0]
    if what == 'solution':
        fd.settings['solution_type'] = op[1]
        return
    k = op[1]
    p = DIG[k]
    cons = fd.constraints
    if what == 'pop':
        cons.pop(k)
        caller.pop(k, None)
        return
    if what in ('poke', 'pokerow', 'scale'):
        via = op[2]
        arr = caller[k] if via == 'caller' else cons[k].values if via == 'values' else cons[k].data
        if what == 'poke':
            for r, c, v in op[3]:
                x = np.nan if v is None else val_float(v, p)
                if arr.ndim == 1:
                    arr[r] = x
                else:
                    arr[r, c] = x
        elif what == 'pokerow':
            row = rows_array([op[4]], p)[0]
            arr[op[3]] = row[0] if arr.ndim == 1 else row
        elif arr.ndim == 1:
            arr[:] *= op[4]
        else:
            arr[:, op[3]] *= op[4]
        return
    rows = op[3] if what == 'setter' else op[4]
    A = rows_array(rows, p)
    if k in cons and np.ndim(cons[k].data) == 1:      # a scalar kind as the reader builds it: keep its rank
        A = A.ravel()
    if what == 'setter':
        if op[2] == 'data=':
            cons[k].data = A
        elif op[2] == 'update_data':
            cons[k].update_data(A)
        else:
            X.quiet(cons.overwrite, k, A)
        caller[k] = A
    elif what == 'loc':
        if op[2] == 'loc':
            cons[k].loc[list(op[3])].data = A
        else:
            cons[k].iloc[list(op[3])].data = A
    elif what == 'update':
        if op[2] == 'attr':
            cons[k].update(list(op[3]), A, allow_overwrite=True)
        else:
            X.quiet(cons.update_data, np.array(op[3], dtype=np.int64), {k: A}, allow_overwrite=True)
    elif what in ('replace', 'add'):
        ids = np.array(op[3], dtype=np.int64)
        if op[2] in ('setitem', 'update-dict'):
            at = FEMAttribute(k, ids=ids, data=A, silent=True)
            if op[2] == 'setitem':
                cons[k] = at
            else:
                cons.update({k: at})
        elif op[2] == 'overwrite-ids':
            X.quiet(cons.overwrite, k, A, ids=ids)
        else:
            X.quiet(cons.update_data, ids, {k: A})
        caller[k] = A
    else:
        raise ValueError(op)


TK = {'boundary': 0, 'spring': 1, 'cload': 2}
SK = {'fixtemp': 0, 'cflux': 1, 'pure_cflux': 2}


def model_ops_of(fd, op, caller):
    """the op in the alphabet of the Lean history model (`Femio.Fistr.ObjOp`, driver syntax of `c03.hist`), from the state
    of the object BEFORE the op (row count, ids, aliasing of the caller's array); None = not in the modelled alphabet"""
    what = op[0]
    if what == 'solution':
        return ['sol ' + C.esc(op[1])]
    k = op[1]
    tab = k in TK
    pre = f't {TK[k]} ' if tab else f's {SK[k]} '

    def row(r):
        return C.enc_list(r, enc_cell) if tab else X.enc_sci(r[0][1:])
    if what == 'pop':
        return [f'pt {TK[k]} 0' if tab else f'ps {SK[k]} 0']
    if what in ('replace', 'add'):
        body = str(len(op[3])) + ''.join(f' {i} {row(r)}' for i, r in zip(op[3], op[4]))
        return [(f'pt {TK[k]} 1 ' if tab else f'ps {SK[k]} 1 ') + body]
    a = fd.constraints[k]
    n = len(a.ids)
    if what in ('poke', 'pokerow'):
        if op[2] == 'caller' and not (k in caller and np.shares_memory(caller[k], a.data)):
            return []
        if what == 'pokerow':
            return [pre + f'row {op[3] % n} {row(op[4])}']
        return [pre + (f'cell {r} {c} {enc_cell(v)}' if tab else f'row {r} {X.enc_sci(v[1:])}') for r, c, v in op[3]]
    if what == 'setter':
        return [pre + 'set ' + C.enc_list(op[3], row)]
    if what == 'loc':
        ids = [int(i) for i in a.ids]
        pos = [ids.index(i) for i in op[3]] if op[2] == 'loc' else list(op[3])
        return [pre + 'wt ' + C.enc_list(pos) + ' ' + C.enc_list(op[4], row)]
    return None     # scale (values leave the decimals), update (pandas combine_first)


def apply_tracked(fd, op, caller, track):
    """apply_op; when it took effect, `track` receives its rendering for the Lean history model"""
    try:
        mops = model_ops_of(fd, op, caller)
    except Exception:  # noqa      (values that are not decimals, ...)
        mops = None
    apply_op(fd, op, caller)
    track.append(mops)


def apply_ops(ctx, fd, ops, caller, track):
    """replay recorded ops on a rebuilt object (same tolerance of raising ops as at generation time)"""
    for op in ops:
        try:
            apply_tracked(fd, op, caller, track)
        except Exception:  # noqa
            pass


def gen_edits(ctx, fd, caller, node_ids, decimal, n, track):
    """generate n ops against the live object, apply each at once, return them (concrete: replayable on a rebuilt object)"""
    rnd = ctx.rng
    ops = []
    for _ in range(n):
        op = gen_op(rnd, fd, caller, node_ids, decimal)
        ops.append(op)
        label = op[0] + (':' + str(op[2]) if len(op) > 2 and isinstance(op[2], str) else '')
        try:
            apply_tracked(fd, op, caller, track)
            ctx.count('edit:' + label)
        except Exception as e:  # noqa
            ctx.count('edit-raises:' + label + ':' + type(e).__name__)
    # keep the final state inside the quantifier where an edit sequence left a boundary / cload table without any value
    for k in ('boundary', 'cload'):
        if k in fd.constraints:
            a = fd.constraints[k]
            if len(a.ids) and bool(np.all(np.isnan(np.asarray(a.data, dtype=float)))):
                ids = [int(i) for i in a.ids]
                op = ['replace', k, 'setitem', ids, gen_rows(rnd, k, len(ids), decimal)]
                ops.append(op)
                apply_tracked(fd, op, caller, track)
                ctx.count('edit:refill-all-nan-table')
    return ops


def frame_view(fd, base, pool):
    """ObjSt.view {fromArray := false}: what a writer would take that builds the !BOUNDARY / !CLOAD rows (the two sections
    made by `_generate_constraints`) from the pandas frames and everything else from `.data`"""
    st, fr = state_case(base, snapshot(fd), pool), state_case(base, snapshot(fd, frame=True), pool)
    for k in ('boundary', 'cload'):
        if k in st['tables']:
            st['tables'][k] = fr['tables'][k]
    st['decimal'] = st['decimal'] and fr['decimal']
    return st


def encodable(st):
    return st['decimal'] and all(v is not None for rows in st['scalars'].values() for _, v in rows)


def hist_tie(ctx, rep, init, track, fd, base, pool, label):
    """tie of the Lean history model (Model/FistrCntHist.lean): ((ObjSt.fresh init).run ops).view cfg must be the public
    state (.ids, .data) of the real object (cfg = fromArray) and what its pandas frames hold (cfg = frame)"""
    if ctx.driver is None or not track:
        return
    if label != 'rmw' and base.get('array'):     # integer / float32 / read-only arrays: a poke stores a converted value or raises
        ctx.count('history-model:outside its alphabet (dtype / layout of the caller array)')
        return
    if any(m is None for m in track) or not encodable(init):
        ctx.count('history-model:outside its alphabet (scale / update / non-decimal values)')
        return
    mo = [m for ms in track for m in ms]
    for cfg in (1, 0):
        st = state_case(base, snapshot(fd), pool) if cfg else frame_view(fd, base, pool)
        if not encodable(st):
            ctx.count('history-model:state not encodable')
            return
        reply = ctx.driver.ask(f'c03.hist {cfg} {enc_case(init)} {C.enc_list(mo)}')
        same = reply.split() == ('ok ' + enc_case(st)).split()
        if cfg and not same:
            rep.disagree(f'history model ({label}): public state (.ids, .data) after the modifications', enc_case(st), reply[:2000])
        if not cfg:
            # what the frames hold is not an observable of this property (it is what the hypothetical writer of
            # C03_history_counterexample_frame_writer would read): recorded, never part of the verdict
            ctx.count('history-model:boundary / cload as the pandas frames hold them: ' + ('as modelled' if same else 'NOT as modelled'))
    ctx.count('history-model:compared')


# ------------------------------------------------------------------ model

def enc_cell(c):
    return '0' if c is None else '1 ' + X.enc_sci(c[1:])


def enc_case(case):
    from femio import config
    only_solid = all(t in config.SOLID_ELEMENT_NAMES for t in case['mesh']['blocks'])
    toks = [C.esc(case['solution']), str(int(only_solid))]
    for k in TABLES:
        if k in case['tables']:
            toks += ['1', str(len(case['tables'][k]))]
            for i, r in case['tables'][k]:
                toks += [str(i), C.enc_list(r, enc_cell)]
        else:
            toks.append('0')
    for k in SCALARS:
        if k in case['scalars']:
            toks += ['1', str(len(case['scalars'][k]))]
            for i, v in case['scalars'][k]:
                toks += [str(i), X.enc_sci(v[1:])]
        else:
            toks.append('0')
    return ' '.join(toks)


def model_write(ctx, case):
    t = C.Toks(ctx.driver.ask('c03.write ' + enc_case(case)))
    if t.tok() != 'ok':
        raise RuntimeError('driver')
    if t.nat() == 0:
        return None
    return t.lst(lambda: C.unesc(t.tok()))


def model_read(ctx, groups, cnt):
    g = C.enc_list(groups.items(), lambda kv: C.esc(kv[0]) + ' ' + C.enc_list(kv[1]))
    rep = ctx.driver.ask('c03.read ' + g + ' ' + C.enc_list(cnt, C.esc))
    t = C.Toks(rep)
    if t.tok() != 'ok':
        raise RuntimeError('driver: ' + rep[:200])
    if t.nat() == 0:
        return None
    return _parse_cntread(t)


def model_expected(ctx, case):
    """(decide (Femio.C03.WFCnt c), Femio.C03.expectedCnt c): hypothesis and right-hand side of C03_file_roundtrip"""
    rep = ctx.driver.ask('c03.expected ' + enc_case(case))
    t = C.Toks(rep)
    if t.tok() != 'ok':
        raise RuntimeError('driver: ' + rep[:200])
    wf = t.nat() == 1
    return wf, _parse_cntread(t)


def _parse_cntread(t):
    out = {'solution': C.unesc(t.tok())}

    def opt(f):
        return f() if t.nat() else None
    for k in TABLES:
        out[k] = opt(lambda: t.lst(lambda: [t.nat(), t.lst(lambda: opt(lambda: X.read_dec(t)))]))
    for k in SCALARS:
        out[k] = opt(lambda: t.lst(lambda: [t.nat(), [X.read_dec(t)]]))
    assert t.done()
    return out


def diff_read(a, b):
    for k in ['solution'] + TABLES + SCALARS:
        if repr(c01._norm(a.get(k))) != repr(c01._norm(b.get(k))):
            return k
    return None


# ------------------------------------------------------------------ node groups

# The mesh file defines a node group in one or more `!NGROUP, NGRP=name` blocks whose data lines carry ONE OR SEVERAL ids each
# (pre-processors write 8 - 10 per line).  The LAYOUT of the definition - ids per line, blocks per group, separators, padding,
# interleaving with the blocks of other groups - is an input dimension of "every node-group definition used in place of
# explicit ids" (round 5, class P; seeded C03-10): it must not change what a condition on the group name denotes.
#   layout classes of one group (all blocks RECTANGULAR = every line of a block has the same number of ids):
#     one-per-line | one-line (all ids on one line) | k-per-line (k >= 2 divides the block size) | split (2-3 blocks, each of them
#     laid out by one of the former, the blocks of different groups interleaved)
#   ragged: at least one block whose lines have different lengths (k per line with a shorter last line, or arbitrary line lengths)
# Many-to-one relations (class K): a second group with the SAME members (other order / layout), members listed twice, names that
# are prefixes of each other (G1 / G10, ALL / ALL_2), groups of exactly one node and of every node.
NG_SEPS = [', ', ',', ',  ', ',\t', ' , ']
RECT_CLASSES = ['one-per-line', 'one-line', 'k-per-line', 'split']


def _chunks(rnd, mem, cls):
    """the lines (lists of ids) of ONE block holding `mem` in this order"""
    m = len(mem)
    if cls == 'one-per-line' or m == 1:
        ks = [1] * m
    elif cls == 'one-line':
        ks = [m]
    elif cls == 'k-per-line':
        k = rnd.choice([k for k in range(2, m + 1) if m % k == 0])
        ks = [k] * (m // k)
    else:       # ragged: m >= 3, lines of different lengths
        ks = []
        if rnd.random() < .5:
            while sum(ks) < m:
                ks.append(min(rnd.randint(1, 6), m - sum(ks)))
        if len(set(ks)) < 2:        # k per line with a shorter last line (k = m - 1 always qualifies)
            k = rnd.choice([k for k in range(2, m) if m % k])
            ks = [k] * (m // k) + [m % k]
    out, j = [], 0
    for k in ks:
        out.append(mem[j:j + k])
        j += k
    assert j == m and all(out)
    return out


def _render_block(rnd, name, lines):
    sep = rnd.choice(NG_SEPS)
    width = rnd.choice([0, 0, 0, 6, 8, 10])
    lead, trail = rnd.choice(['', '', ' ']), rnd.choice(['', '', ' '])
    hdr = rnd.choice(['!NGROUP, NGRP=', '!NGROUP, NGRP=', '!NGROUP,NGRP='])
    return [hdr + name] + [lead + sep.join(str(i).rjust(width) for i in ln) + trail for ln in lines]


def gen_group_layout(rnd, name, mem, cls):
    """blocks (each: list of text lines, header first) defining group `name` with members `mem` (order kept) in layout class `cls`;
    returns (blocks, is_ragged, ids per line of every data line)"""
    m = len(mem)
    if cls == 'split' and m >= 2:
        nb = rnd.randint(2, min(3, m))
        cuts = sorted(rnd.sample(range(1, m), nb - 1))
        parts = [mem[a:b] for a, b in zip([0] + cuts, cuts + [m])]
        sub = [rnd.choice(['one-per-line', 'one-line', 'k-per-line']) for _ in parts]
    elif cls == 'ragged' and m >= 3:
        nb = rnd.choice([1, 1, 2]) if m >= 4 else 1
        cut = rnd.randint(3, m - 1) if nb == 2 else m
        parts = [mem[:cut]] + ([mem[cut:]] if nb == 2 else [])
        sub = ['ragged'] + [rnd.choice(['one-per-line', 'one-line'])] * (nb - 1)
    else:
        parts, sub = [mem], [cls if cls != 'split' else 'one-line']
    blocks, per_line = [], []
    for part, c in zip(parts, sub):
        if c == 'k-per-line' and not [k for k in range(2, len(part) + 1) if len(part) % k == 0]:
            c = 'one-line'
        if c == 'ragged' and len(part) < 3:
            c = 'one-line'
        lines = _chunks(rnd, part, c)
        per_line += [len(ln) for ln in lines]
        blocks.append((_render_block(rnd, name, lines), len({len(ln) for ln in lines}) > 1))
    return [b for b, _ in blocks], any(r for _, r in blocks), per_line


def gen_groups(rnd, ids):
    """1-3 groups over arbitrary node subsets, then (class K) possibly an alias group with the same members and a group whose name
    extends another name"""
    groups = {}
    for _ in range(rnd.randint(1, 3)):
        size = rnd.choice([1, len(ids)]) if rnd.random() < .15 else rnd.randint(1, min(12, len(ids)))
        mem = rnd.sample(ids, size)
        if rnd.random() < .1:       # a member listed twice
            mem.insert(rnd.randrange(len(mem) + 1), rnd.choice(mem))
        groups[X.rand_name(rnd, groups, first_alpha=True)] = mem
    if rnd.random() < .3:           # two names, the same node set
        src = rnd.choice(list(groups))
        mem = list(groups[src])
        rnd.shuffle(mem)
        groups[X.rand_name(rnd, groups, first_alpha=True)] = mem
    if rnd.random() < .3:           # a name that extends another name (PART1 / PART10, ALL / ALL_2)
        base = rnd.choice(list(groups) + ['ALL'])
        nm = base + rnd.choice(['0', '1', '_2', 'X', 'a', '10'])
        if nm not in groups and nm.upper() != 'ALL':
            groups[nm] = rnd.sample(ids, rnd.randint(1, min(12, len(ids))))
    return groups


def group_texts(rnd, case, msh, cnt, want_ragged=False):
    """(msh with !NGROUP blocks, cnt addressing groups by name, cnt listing the members, groups, #group rows, layout record)"""
    ids = [i for i, _ in case['mesh']['nodes']]
    groups = gen_groups(rnd, ids)
    names = list(groups)
    # layout class per group: every rectangular class is dealt in turn (no luck needed: a case with >= 2 ids in some group has a
    # line with several ids); `want_ragged` turns one group (of >= 3 members, if there is one) into a ragged definition
    start = rnd.randrange(len(RECT_CLASSES))
    classes = {nm: RECT_CLASSES[(start + j) % len(RECT_CLASSES)] if rnd.random() < .8 else rnd.choice(RECT_CLASSES[1:])
               for j, nm in enumerate(names)}
    if want_ragged:
        big = [nm for nm in names if len(groups[nm]) >= 3]
        if big:
            classes[rnd.choice(big)] = 'ragged'
    per_group, ragged, per_line = {}, False, []
    for nm in names:
        blocks, rg, pl = gen_group_layout(rnd, nm, groups[nm], classes[nm])
        per_group[nm] = blocks
        ragged = ragged or rg
        per_line += pl
    # the blocks of different groups interleave; the blocks of one group keep their order
    order = [nm for nm in names for _ in per_group[nm]]
    rnd.shuffle(order)
    ng = []
    for nm in order:
        ng += per_group[nm].pop(0)
    msh2 = msh[:-1] + ng + msh[-1:]
    allg = dict(groups)
    allg['ALL'] = ids
    by_name, explicit = [], []
    n_rows = 0
    for ln in cnt:
        f = ln.split(',')
        is_row = (not ln.startswith('!')) and f[0].strip().isdigit() and len(f) >= 2 and any(ch in ln for ch in 'E')
        if is_row and rnd.random() < .5:
            nm = rnd.choice(list(allg))
            rest = ','.join(f[1:])
            by_name.append(rnd.choice(['', ' ']) + nm + rnd.choice(['', ' ']) + ',' + rest)
            explicit += [f'{i},{rest}' for i in allg[nm]]
            n_rows += 1
        else:
            by_name.append(ln)
            explicit.append(ln)
    layout = {'classes': [classes[nm] for nm in names], 'ragged': ragged, 'max_ids_per_line': max(per_line),
              'n_blocks': len(order), 'n_groups': len(names)}
    return msh2, by_name, explicit, allg, n_rows, layout


def model_readfiles(ctx, rect, msh, cnt):
    rep = ctx.driver.ask(f'c03.readfiles {int(rect)} ' + C.enc_list(msh, C.esc) + ' ' + C.enc_list(cnt, C.esc))
    t = C.Toks(rep)
    if t.tok() != 'ok':
        raise RuntimeError('driver: ' + rep[:200])
    if t.nat() == 0:
        return None
    return _parse_cntread(t)


def ngroup_tie(ctx, rep, got, msh, cnt, ragged):
    """tie of `Femio.Fistr.readCntFiles` (mesh text -> node groups -> control-file rows): the node groups are the ones THE MODEL
    reads from the !NGROUP blocks of the mesh text (not the generator's map).  NgCfg.rect (Cfg pattern): upstream `to_values`
    raises on a block whose lines have different field counts (rect = true); a repaired reader accepts it (rect = false).  On
    rectangular layouts both configurations must reproduce the reader; on ragged ones exactly the configuration the tree implements."""
    res = {}
    for rect in (1, 0):
        mr = model_readfiles(ctx, rect, msh, cnt)
        if (mr is None) != (got is None):
            res[rect] = 'model raises, reader does not' if mr is None else 'reader raises, model does not'
        else:
            res[rect] = None if mr is None else diff_read(got, mr)
    if not ragged:
        for rect in (1, 0):
            if res[rect]:
                rep.disagree(f'cnt read (group names; groups read from the mesh text by the model, rect = {rect}): ' + str(res[rect]),
                             None if got is None else got.get(res[rect]), None)
        return
    tally = ctx.extra.setdefault('ngroup_cfg_mismatches', {'1': 0, '0': 0})
    for rect in (1, 0):
        tally[str(rect)] += bool(res[rect])
    ctx.count('ngroup-cfg:ragged block: reader ' + ('raises' if got is None else 'reads it')
              + '; reproduced by rect = ' + '/'.join(str(r) for r in (1, 0) if not res[r]))
    if res[1] and res[0]:
        rep.disagree('cnt read (group names, ragged !NGROUP block): no NgCfg reproduces the reader: ' + str(res), None, None)


# ------------------------------------------------------------------ run

class Report:
    """findings (the REAL CODE violates the PROPERTY) and disagreements (model != implementation) of one evaluation:
    `eval_case` forwards them to ctx together with the complete input, `replay` returns them"""

    def __init__(self):
        self.findings, self.disagreements = [], []

    def fail(self, signature, what, observed=None):
        self.findings.append((signature, what, observed))

    def disagree(self, what, impl, model):
        self.disagreements.append((what, impl, model))


def judge_read(rep, label, fin, got, hist=''):
    """the property's comparison: what was read back vs the state `fin` that was written"""
    if got['solution'] != fin['solution']:
        rep.fail(label + ':solution', f'solution type {fin["solution"]}{hist} read back as {got["solution"]}', got['solution'])
    for k in TABLES + SCALARS:
        want = presc_of_case(fin, k)
        have = presc(got[k]) if got[k] is not None else []
        if not same_presc(have, want, TOL[k]):
            rep.fail(label + ':' + k, f'{k}: prescriptions of the object{hist} at write() {want[:6]} read back {have[:6]}',
                     {'state_written': want[:20], 'read': have[:20]})


def check_object(ctx, rep, fd, base, pool, tag, label, hist=''):
    """THE ORACLE on a live object: snapshot of its current public state -> write -> the conditions of the object are still
    the same -> read back -> solution type / prescription sets of the snapshot; the model is fed with the snapshot"""
    snap = snapshot(fd)
    fin = state_case(base, snap, pool)
    out = {'final': fin, 'outside': outside_reason(fin), 'msh': None, 'cnt': None, 'got': None, 'fd': None}
    try:
        msh, cnt = write_obj(ctx, fd, tag)
    except Exception as e:  # noqa
        if out['outside'] is None:
            rep.fail(f'{label}:write-raises:{type(e).__name__}', f'write("fistr"){hist} raised {e!r}', repr(e))
        else:
            ctx.count(f'outside:{out["outside"]}:raises:{type(e).__name__}')
        return out
    out.update(msh=msh, cnt=cnt)
    after = snapshot(fd)
    if after['solution'] != snap['solution']:
        rep.fail(label + ':write-changed-conditions:solution', f'write() changed the solution type of the object from '
                 f'{snap["solution"]} to {after["solution"]}', after['solution'])
    for k in TABLES + SCALARS:
        pa, pb = snap_presc(snap, k), snap_presc(after, k)
        if not exact_presc_equal(pa, pb):
            rep.fail(label + ':write-changed-conditions:' + k, f'{k}: write() changed the prescriptions the object holds: '
                     f'before {pa[:6]} after {pb[:6]}', {'before': pa[:20], 'after': pb[:20]})
    if out['outside'] is not None:
        ctx.count('outside:' + out['outside'] + ':written')
        return out
    defaults = not base.get('settings')      # the model (CntIn) is of write_cnt with every other setting at its default
    if ctx.driver is not None and fin['decimal'] and defaults:
        ml = model_write(ctx, fin)
        if ml != cnt:
            j = next((j for j, (x, y) in enumerate(zip(ml or [], cnt)) if x != y), min(len(ml or []), len(cnt)))
            what = f'cnt text ({label})'
            fr = frame_view(fd, base, pool)
            if encodable(fr) and model_write(ctx, fr) == cnt:
                what += (' - the written text is the text of what the pandas frames hold, not of (.ids, .data): the tree '
                         'implements HistCfg.fromArray = false (C03_history_counterexample_frame_writer applies, '
                         'C03_history_roundtrip does not)')
            rep.disagree(what, {'line': j, 'text': cnt[j] if j < len(cnt) else None},
                         {'line': j, 'text': ml[j] if ml and j < len(ml) else None})
    try:
        got, fd2 = real_read(ctx, msh, cnt, tag=tag + 'r', want_fd=True)
    except Exception as e:  # noqa
        rep.fail(f'{label}:read-raises:{type(e).__name__}', f'reading the written files raised {e!r}', repr(e))
        return out
    out.update(got=got, fd=fd2)
    judge_read(rep, label, fin, got, hist)
    if ctx.driver is not None:
        mr = model_read(ctx, {'ALL': [i for i, _ in base['mesh']['nodes']]}, cnt)
        k = 'model-raises' if mr is None else diff_read(got, mr)
        if k:
            rep.disagree(f'cnt read ({label}): ' + k, got.get(k), None if mr is None else mr.get(k))
        # theorem C03_file_roundtrip instantiated on this state: its hypothesis `WFCnt c` must hold for the (in-quantifier)
        # state and its right-hand side `expectedCnt c` must be what the REAL reader returned
        if fin['decimal'] and defaults:
            wf, exp = model_expected(ctx, fin)
            ctx.count('theorem-hypothesis WFCnt:' + str(wf).lower())
            if not wf:
                rep.disagree(f'in-quantifier state is outside Femio.C03.WFCnt (hypothesis of C03_file_roundtrip) ({label})',
                             'in quantifier', 'WFCnt = false')
            else:
                k = diff_read(got, exp)
                if k:
                    rep.disagree(f'expectedCnt (right-hand side of C03_file_roundtrip) vs real reader ({label}): ' + k,
                                 got.get(k), exp.get(k))
    return out


def judge_other_file(ctx, rep, label, fin, cnt, msh2, cnt2, what):
    """a second control file that must carry the same state: identical bytes expected; when the bytes differ the property
    itself decides (read it back and compare with the state) and a mere textual difference is a broken correspondence"""
    if cnt2 == cnt:
        return
    n0 = len(rep.findings)
    try:
        judge_read(rep, label, fin, real_read(ctx, msh2, cnt2, tag='x'), ' (' + what + ')')
    except Exception as e:  # noqa
        rep.fail(f'{label}:read-raises:{type(e).__name__}', f'reading the files of {what} raised {e!r}', repr(e))
    if len(rep.findings) == n0:
        j = next((j for j, (x, y) in enumerate(zip(cnt, cnt2)) if x != y), min(len(cnt), len(cnt2)))
        rep.disagree(f'{what}: control file differs from the first one although both read back to the same conditions',
                     {'line': j, 'first': cnt[j] if j < len(cnt) else None}, {'line': j, 'other': cnt2[j] if j < len(cnt2) else None})


def evaluate(ctx, rep, inp, plan=None):
    """plan = None: re-execute `inp` exactly as recorded (replay).  Otherwise generate the open parts of the input with
    ctx.rng - plan = {'n_edits', 'groups', 'extra'} - and record them in `inp`, so that `inp` is a complete replay"""
    rnd = ctx.rng
    case = inp['case']
    ids = [i for i, _ in case['mesh']['nodes']]
    caller = {}
    fd = build_fem(case, caller)
    pool = pool_of_case(case)
    track = []
    if plan is not None and plan.get('n_edits'):
        case['edits'] = gen_edits(ctx, fd, caller, ids, case['decimal'], plan['n_edits'], track)
    else:
        apply_ops(ctx, fd, case.get('edits', []), caller, track)
    edits = case.get('edits', [])
    pool_of_ops(edits, pool)
    hist_tie(ctx, rep, case, track, fd, case, pool, 'roundtrip')
    hist = f' after {len(edits)} public modification(s)' if edits else ''
    o = check_object(ctx, rep, fd, case, pool, 'w', 'roundtrip', hist)
    fin = o['final']
    res = {'final': fin, 'outside': o['outside'], 'cnt': o['cnt']}
    if not edits:       # nothing happened between construction and write: the state is what the caller passed in
        for k in TABLES + SCALARS:
            if (case.get('array') or {}).get(k) in LOSSY_ARRAY_STYLES:
                continue
            if not exact_presc_equal(presc_of_case(case, k), presc_of_case(fin, k)):
                rep.disagree('the constructed object does not hold the table it was given: ' + k,
                             presc_of_case(fin, k)[:10], presc_of_case(case, k)[:10])
    if o['got'] is None or o['outside'] is not None:
        return res
    msh, cnt = o['msh'], o['cnt']
    extra = plan.get('extra') if plan is not None else inp.get('extra')
    if extra:
        inp['extra'] = extra
    # --- the same object written a second time / an independently constructed object with the same content
    if extra == 'twice':
        # write -> (0-2 further public modifications) -> write again, same object
        track2 = []
        if plan is not None:
            inp['twice_edits'] = gen_edits(ctx, fd, caller, ids, case['decimal'], rnd.choice([0, 0, 1, 2]), track2)
        else:
            apply_ops(ctx, fd, inp.get('twice_edits', []), caller, track2)
        ed2 = inp.get('twice_edits', [])
        pool_of_ops(ed2, pool)
        if ed2:
            hist_tie(ctx, rep, case, track + track2, fd, case, pool, 'second-write')
            check_object(ctx, rep, fd, case, pool, 'w2', 'second-write',
                         f' written once, modified by {len(ed2)} more public modification(s) and written again')
        else:
            try:
                msh2, cnt2 = write_obj(ctx, fd, 'w2')
                judge_other_file(ctx, rep, 'second-write', fin, cnt, msh2, cnt2, 'second write of the same object')
            except Exception as e:  # noqa
                rep.fail(f'second-write:write-raises:{type(e).__name__}', f'the second write("fistr") of the same object raised {e!r}', repr(e))
    if extra == 'fresh':
        try:
            msh2, cnt2 = write_obj(ctx, build_fem(fin), 'wf')
            judge_other_file(ctx, rep, 'fresh-object', fin, cnt, msh2, cnt2,
                             'fresh object constructed with the content the modified object had at write()')
        except Exception as e:  # noqa
            rep.fail(f'fresh-object:write-raises:{type(e).__name__}', f'write("fistr") of a fresh object with the same content raised {e!r}', repr(e))
    # --- node-group name vs explicit listing
    n_presc = sum(len(presc_of_case(fin, k)) for k in TABLES + SCALARS)
    by_name_fd = None
    want_groups = plan['groups'] if plan is not None else 'cnt_by_name' in inp
    if want_groups and (n_presc > 0 or plan is None):
        if plan is not None:
            msh2, by_name, explicit, allg, n_rows, layout = group_texts(rnd, case, msh, cnt, want_ragged=rnd.random() < .2)
            ctx.count('group-rows', n_rows)
            for c in layout['classes']:
                ctx.count('group-layout:' + c)
            ctx.count('group-layout:case ' + ('with a RAGGED block' if layout['ragged'] else 'with a line of several ids'
                                              if layout['max_ids_per_line'] > 1 else 'one id per line only'))
            ctx.count('group-layout:blocks per case', layout['n_blocks'])
            if len({tuple(sorted(set(v))) for v in allg.values()}) < len(allg):
                ctx.count('group-relations:two names, the same node set')
            if any(len(set(v)) < len(v) for v in allg.values()):
                ctx.count('group-relations:a member listed twice')
            if any(x != y and y.startswith(x) for x in allg for y in allg):
                ctx.count('group-relations:a name that is a prefix of another')
            inp.update(msh=msh2, cnt_by_name=by_name, cnt_explicit=explicit, groups=allg, group_layout=layout)
        msh2, by_name, explicit, allg = inp['msh'], inp['cnt_by_name'], inp['cnt_explicit'], inp['groups']
        ragged = bool((inp.get('group_layout') or {}).get('ragged'))
        a = None
        try:
            a, by_name_fd = real_read(ctx, msh2, by_name, tag='g1', want_fd=True)
            b = real_read(ctx, msh2, explicit, tag='g2')
        except Exception as e:  # noqa
            # a block whose lines hold different numbers of ids (k per line, shorter last line) is a legitimate definition of a
            # node group: inside the quantifier; its own signature because the unchanged tree raises there (findings/C03-ragged-ngroup.md)
            sig = 'group-layout:ragged-block:read-raises:' if ragged else 'group:read-raises:'
            rep.fail(sig + type(e).__name__, 'reading a control file that addresses node groups '
                     + ('(one !NGROUP block has lines of different lengths) ' if ragged else '') + f'raised {e!r}', repr(e))
        if a is not None:
            for k in TABLES + SCALARS:
                pa = presc(a[k]) if a[k] is not None else []
                pb = presc(b[k]) if b[k] is not None else []
                if sorted(set(pa)) != sorted(set(pb)):
                    rep.fail('group:' + k, f'{k}: group-name file denotes {pa[:6]}, explicit listing denotes {pb[:6]}',
                             {'by_name': pa[:20], 'explicit': pb[:20]})
        if ctx.driver is not None:
            ngroup_tie(ctx, rep, a, msh2, by_name, ragged)
        if a is None:
            return res
    # --- read -> modify -> write -> read
    if extra == 'rmw':
        if plan is not None:
            inp['rmw'] = {'source': 'by-name' if (by_name_fd is not None and rnd.random() < .4) else 'written'}
        rmw = inp.get('rmw')
        if rmw is None:         # a recorded input whose evaluation ended before this stage
            return res
        src = by_name_fd if rmw['source'] == 'by-name' else o['fd']
        if src is None:
            return res
        track, before = [], state_case(case, snapshot(src), pool)
        if plan is not None:
            rmw['edits'] = gen_edits(ctx, src, {}, ids, case['decimal'], rnd.randint(0, 3), track)
        else:
            apply_ops(ctx, src, rmw.setdefault('edits', []), {}, track)
        pool_of_ops(rmw['edits'], pool)
        hist_tie(ctx, rep, before, track, src, case, pool, 'rmw')
        o2 = check_object(ctx, rep, src, case, pool, 'm', 'rmw',
                          f' read from {"a file addressing node groups" if rmw["source"] == "by-name" else "the written file"}'
                          f' and modified by {len(rmw["edits"])} public modification(s)')
        res['rmw_final'] = o2['final']
    return res


def eval_case(ctx, case, groups=True, n_edits=0, extra=None):
    rep = Report()
    inp = {'case': case}
    res = None
    try:
        res = evaluate(ctx, rep, inp, {'n_edits': n_edits, 'groups': groups, 'extra': extra})
    finally:
        for sig, what, observed in rep.findings:
            ctx.fail(sig, what, inp, observed)
        for what, impl, model in rep.disagreements:
            ctx.disagree(what, inp, impl, model)
    fin = res['final']
    edits = case.get('edits', [])
    n_presc = sum(len(presc_of_case(fin, k)) for k in TABLES + SCALARS)
    desc = {'solution': fin['solution'], 'decimal': fin['decimal'], 'mesh_types': list(case['mesh']['blocks']),
            'n_nodes': len(case['mesh']['nodes']), 'tables': {k: len(v) for k, v in fin['tables'].items()},
            'scalars': {k: len(v) for k, v in fin['scalars'].items()}, 'prescriptions': n_presc,
            'modifications_before_write': [op[0] for op in edits], 'extra': inp.get('extra')}
    ctx.case(C.hashlib.sha1(C.json.dumps(inp, sort_keys=True).encode()).hexdigest(), sample=desc, nontrivial=n_presc > 0)
    ctx.count('solution:' + fin['solution'])
    ctx.count('numbers:' + ('format-digit decimal' if fin['decimal'] else 'arbitrary double'))
    ctx.count('ids:' + str(case['mesh']['id_style']) + '/' + case['mesh']['order'])
    ctx.count('history:' + ('as constructed' if not edits else 'modified before write'))
    ctx.count('settings:' + ('defaults' if not case.get('settings') else '+'.join(sorted(case['settings']))))
    for k, st in (case.get('array') or {}).items():
        ctx.count('caller-array:' + st)
    if not case.get('array'):
        ctx.count('caller-array:float64 C-ordered only')
    if inp.get('extra'):
        ctx.count('extra:' + inp['extra'] + (':' + inp['rmw']['source'] if 'rmw' in inp else '')
                  + (':modified between the writes' if inp.get('twice_edits') else ''))
    if edits:
        was = {k: presc_of_case(case, k) for k in TABLES + SCALARS}
        now = {k: presc_of_case(fin, k) for k in TABLES + SCALARS}
        key = lambda ps: {(i, d) for i, d, _ in ps}      # noqa
        ctx.count('net-effect:released', sum(len(key(was[k]) - key(now[k])) for k in was))
        ctx.count('net-effect:added', sum(len(key(now[k]) - key(was[k])) for k in was))
        ctx.count('net-effect:changed', sum(1 for k in was for p in now[k] for q in was[k] if p[:2] == q[:2] and p[2].hex() != q[2].hex()))
    for k in list(fin['tables']) + list(fin['scalars']):
        ctx.count('kind:' + k)
    for k, rows in fin['tables'].items():
        for _, r in rows:
            ctx.count('nan-pattern:' + ''.join('x' if c is not None else '.' for c in r))


def outside_streams(ctx, n):
    rnd = ctx.rng
    for _ in range(n):
        case = gen_case(rnd, decimal=True)
        ids = [i for i, _ in case['mesh']['nodes']]
        k = rnd.choice(TABLES)
        case['tables'] = {k: gen_table(rnd, ids, DIG[k], True, all_nan=True)}
        try:
            msh, cnt = real_write(ctx, case, tag='o')
            got = real_read(ctx, msh, cnt, tag='o2')
            ctx.count(f'outside:all-nan:{k}:' + ('no prescriptions read' if not got[k] or not presc(got[k]) else 'prescriptions appear'))
        except Exception as e:  # noqa
            ctx.count(f'outside:all-nan:{k}:raises:{type(e).__name__}')
    for _ in range(n):
        case = gen_case(rnd, decimal=True)
        ids = [i for i, _ in case['mesh']['nodes']]
        k = rnd.choice(TABLES)
        case['tables'] = {k: gen_table(rnd, ids, DIG[k], True, width=6)}
        want = presc_of_case(case, k)
        try:
            msh, cnt = real_write(ctx, case, tag='o')
            got = real_read(ctx, msh, cnt, tag='o2')
            have = presc(got[k]) if got[k] is not None else []
            lost = [p for p in want if (p[0], p[1]) not in {(h[0], h[1]) for h in have}]
            ctx.count(f'outside:dof6:{k}:' + ('dofs 4-6 lost silently' if lost else 'kept'))
        except Exception as e:  # noqa
            ctx.count(f'outside:dof6:{k}:raises:{type(e).__name__}')
    for _ in range(n):
        case = gen_case(rnd, decimal=True)
        ids = [i for i, _ in case['mesh']['nodes']]
        case['scalars'] = {k: [[i, rand_val(rnd, 12, True)] for i in rnd.sample(ids, 2)] for k in ('cflux', 'pure_cflux')}
        try:
            msh, cnt = real_write(ctx, case, tag='o')
            got = real_read(ctx, msh, cnt, tag='o2')
            ok = all(same_presc(presc(got[k] or []), presc_of_case(case, k), 1e-12) for k in ('cflux', 'pure_cflux'))
            ctx.count('outside:cflux+pure_cflux:' + ('round-trips' if ok else 'merged into one kind'))
        except Exception as e:  # noqa
            ctx.count(f'outside:cflux+pure_cflux:raises:{type(e).__name__}')


NG_OUTSIDE_VARIANTS = ['trailing-comma', 'lower-case-keyword', 'spaces-around-equals']


def outside_group_formats(ctx, n):
    """labelled stream `outside:ngroup-format:*` (never judged): spellings of an !NGROUP block that FrontISTR itself may accept
    but that the property text does not speak about and the unchanged reader does not support - a delimiter at the end of a data
    line ('1, 2, 3,'), the keyword in lower case ('!ngroup, ngrp=G'), blanks around '=' ('NGRP = G').  What the reader does with
    them is recorded in the distribution."""
    rnd = ctx.rng
    for j in range(n):
        variant = NG_OUTSIDE_VARIANTS[j % len(NG_OUTSIDE_VARIANTS)]
        case = gen_case(rnd, decimal=True)
        ids = [i for i, _ in case['mesh']['nodes']]
        k = rnd.choice(['boundary', 'cload'])
        case['tables'] = {k: gen_table(rnd, ids, DIG[k], True)}
        case['scalars'] = {}
        case['construct'] = {}
        try:
            msh, cnt = real_write(ctx, case, tag='o')
            mem = rnd.sample(ids, rnd.randint(2, min(6, len(ids)))) if len(ids) > 1 else list(ids)
            hdr, line = '!NGROUP, NGRP=GRP', ', '.join(str(i) for i in mem)
            if variant == 'trailing-comma':
                line += ','
            elif variant == 'lower-case-keyword':
                hdr = '!ngroup, ngrp=GRP'
            else:
                hdr = '!NGROUP, NGRP = GRP'
            msh2 = msh[:-1] + [hdr, line] + msh[-1:]
            by_name, explicit, done = [], [], False
            for ln in cnt:
                f = ln.split(',')
                if not done and (not ln.startswith('!')) and f[0].strip().isdigit() and len(f) >= 3 and 'E' in ln:
                    by_name.append('GRP,' + ','.join(f[1:]))
                    explicit += [f'{i},' + ','.join(f[1:]) for i in mem]
                    done = True
                else:
                    by_name.append(ln)
                    explicit.append(ln)
            b = real_read(ctx, msh, explicit, tag='o2')
            try:
                a = real_read(ctx, msh2, by_name, tag='o3')
                same = sorted(set(presc(a[k] or []))) == sorted(set(presc(b[k] or [])))
                ctx.count(f'outside:ngroup-format:{variant}:' + ('read as the explicit listing' if same else 'read DIFFERENTLY from the explicit listing'))
            except Exception as e:  # noqa
                ctx.count(f'outside:ngroup-format:{variant}:raises:{type(e).__name__}')
        except Exception as e:  # noqa
            ctx.count(f'outside:ngroup-format:{variant}:harness:{type(e).__name__}')


# ------------------------------------------------------------------ size boundaries (round 4, class G; seeded C03-7)
#
# The small cases above have at most a few dozen rows per section.  A writer / reader that works block by block, preallocates,
# or switches algorithm at a size is only exercised by sections whose ROW COUNT crosses such a size.  This stream builds a few
# large-but-cheap inputs (vectorised: a hex brick / plate / column of 4 000 .. 140 000 nodes, conditions over random node subsets
# in arbitrary row order with an arbitrary NaN pattern holding EXACTLY the requested number of prescriptions) whose sections have
# row counts just below / at / above powers of two (2^12 .. 2^17, in particular 65536 and 131072) and judges them with THE SAME
# oracle as `check_object`, vectorised: snapshot of (.ids, .data) just before write() -> write -> the object still holds the
# snapshot -> read back -> solution type and prescription multiset per kind to the digits of the section's format.  No model
# correspondence here (the line protocol is not made for 200 000 rows; the theorems are size-independent) - the oracle suffices.
# The input is recorded as its generator parameters (`inp['big']`: shape, numpy seed, id style, rows per kind), from which
# `big_build` rebuilds it deterministically.

BIG_ID_STYLES = ['ascending', 'shuffled', 'sparse', 'large']


def big_build(spec):
    from femio import FEMData, FEMAttribute, FEMElementalAttribute
    rs = np.random.default_rng(spec['seed'])
    nx, ny, nz = spec['shape']
    n = nx * ny * nz
    style = spec['id_style']
    if style == 'ascending':
        ids = np.arange(1, n + 1, dtype=np.int64)
    elif style == 'shuffled':
        ids = rs.permutation(n).astype(np.int64) + 1
    elif style == 'sparse':
        ids = rs.permutation(3 * n)[:n].astype(np.int64) + 1
    else:
        ids = rs.permutation(n).astype(np.int64) + 2_000_000_000
    ii, jj, kk = np.meshgrid(np.arange(nx), np.arange(ny), np.arange(nz), indexing='ij')
    coords = np.stack([ii.ravel(), jj.ravel(), kk.ravel()], axis=1) * 0.5
    c = (ii * ny * nz + jj * nz + kk)[:-1, :-1, :-1].ravel()
    o = lambda a, b, d: c + a * ny * nz + b * nz + d      # noqa
    conn = np.stack([o(0, 0, 0), o(1, 0, 0), o(1, 1, 0), o(0, 1, 0), o(0, 0, 1), o(1, 0, 1), o(1, 1, 1), o(0, 1, 1)], axis=1)
    eids = rs.permutation(len(conn)).astype(np.int64) + 1
    nodes = FEMAttribute('NODE', ids=ids, data=coords, silent=True)
    el = FEMAttribute('hex', ids=eids, data=ids[conn], silent=True)
    fd = X.quiet(lambda: FEMData(nodes=nodes, elements=FEMElementalAttribute('ELEMENT', {'hex': el})))
    fd.settings['solution_type'] = spec['solution']
    for k, rows in spec['kinds']:
        if k in TABLES:
            m = min(n, int(rs.integers(-(-rows // 3), rows + 1)))        # ceil(rows / 3) <= m <= rows: 1 .. 3 values per row on average
            sub = ids[rs.permutation(n)[:m]]
            data = np.full(3 * m, np.nan)
            cells = rs.permutation(3 * m)[:rows]
            vals = rs.uniform(-1, 1, rows) * 10.0 ** rs.integers(-6, 7, rows)
            vals[rs.random(rows) < .05] = 0.0
            data[cells] = vals
            data = data.reshape(m, 3)
        else:
            sub = ids[rs.permutation(n)[:rows]]
            data = (rs.uniform(-1, 1, rows) * 10.0 ** rs.integers(-6, 7, rows)).reshape(rows, 1)
        if spec.get('construct', {}).get(k) == 'update_data':
            X.quiet(fd.constraints.update_data, sub.copy(), {k: data})
        else:
            fd.constraints[k] = FEMAttribute(k, ids=sub.copy(), data=data, silent=True)
    for k, frac in spec.get('poke', []):
        # one public in-place modification through the array `.data` returns: a random fraction of the PRESCRIBED cells gets a new
        # value (the number of prescriptions - the row count of the section - stays what the spec says)
        arr = fd.constraints[k].data
        flat = arr.reshape(-1)
        idx = np.flatnonzero(~np.isnan(flat))
        pick = idx[rs.random(len(idx)) < frac]
        flat[pick] = rs.uniform(-9, 9, len(pick))
        if not np.shares_memory(flat, arr):     # (never on this tree; keeps the generator honest if reshape copied)
            arr[...] = flat.reshape(arr.shape)
    return fd


def big_snapshot(fd):
    snap = {'solution': str(fd.settings.get('solution_type')), 'kinds': {}}
    for k in fd.constraints.keys():
        if k in TABLES + SCALARS:
            a = fd.constraints[k]
            ids = np.array(a.ids, dtype=np.int64)
            snap['kinds'][k] = (ids, np.array(a.data, dtype=float).reshape(len(ids), -1))
    return snap


def big_presc(ids, data):
    """the prescription multiset as three aligned arrays (node, dof, value), sorted by (node, dof, value)"""
    ids = np.asarray(ids, dtype=np.int64)
    data = np.asarray(data, dtype=float).reshape(len(ids), -1)
    r, c = np.nonzero(~np.isnan(data))
    node, dof, val = ids[r], c + 1, data[r, c]
    order = np.lexsort((val, dof, node))
    return node[order], dof[order], val[order]


def big_same(got, want, tol):
    if len(got[0]) != len(want[0]) or not (np.array_equal(got[0], want[0]) and np.array_equal(got[1], want[1])):
        return False
    return bool(np.all(np.abs(got[2] - want[2]) <= tol * np.abs(want[2])))


def big_head(p, m=6):
    return [(int(i), int(d), float(v)) for i, d, v in zip(p[0][:m], p[1][:m], p[2][:m])]


def big_malformed(cnt_file):
    """diagnostic for the replay file: data lines of the control file whose field count differs from the first data line of
    their section"""
    bad, want, sec = [], None, None
    for no, ln in enumerate(cnt_file.read_text().split('\n'), 1):
        if ln.startswith('!'):
            sec, want = ln, None
        elif ln.strip() and sec is not None and sec.split(',')[0].strip() in ('!BOUNDARY', '!SPRING', '!CLOAD', '!FIXTEMP', '!CFLUX'):
            nf = ln.count(',')
            want = nf if want is None else want
            if nf != want and len(bad) < 3:
                bad.append({'line': no, 'section': sec, 'text': ln[:120]})
    return bad


def big_evaluate(ctx, rep, spec):
    from femio import FEMData
    fd = big_build(spec)
    snap = big_snapshot(fd)
    want = {k: big_presc(*v) for k, v in snap['kinds'].items()}
    rows = {k: len(p[0]) for k, p in want.items()}
    d = ctx.tmp / 'big'
    if d.exists():
        shutil.rmtree(d)
    d.mkdir(parents=True)
    try:
        try:
            X.quiet(fd.write, 'fistr', d / 'mesh')
        except Exception as e:  # noqa
            rep.fail(f'big:write-raises:{type(e).__name__}', f'write("fistr") of conditions with {rows} rows raised {e!r}', repr(e))
            return rows
        after = big_snapshot(fd)
        if after['solution'] != snap['solution'] or list(after['kinds']) != list(snap['kinds']) or any(
                not (np.array_equal(after['kinds'][k][0], snap['kinds'][k][0])
                     and after['kinds'][k][1].tobytes() == snap['kinds'][k][1].tobytes()) for k in snap['kinds']):
            rep.fail('big:write-changed-conditions', 'write() changed the conditions the object holds', None)
        try:
            fd2 = X.quiet(FEMData.read_files, 'fistr', [str(d / 'mesh.msh'), str(d / 'mesh.cnt')])
        except Exception as e:  # noqa
            rep.fail(f'big:read-raises:{type(e).__name__}', f'reading back the written files (sections of {rows} rows) raised {e!r}',
                     {'exception': repr(e), 'malformed_lines': big_malformed(d / 'mesh.cnt')})
            return rows
        sol = str(fd2.settings.get('solution_type'))
        if sol != snap['solution']:
            rep.fail('big:solution', f'solution type {snap["solution"]} read back as {sol}', sol)
        for k in TABLES + SCALARS:
            w = want.get(k, (np.zeros(0, np.int64),) * 2 + (np.zeros(0),))
            if k in fd2.constraints:
                a = fd2.constraints[k]
                g = big_presc(a.ids, a.data)
            else:
                g = (np.zeros(0, np.int64),) * 2 + (np.zeros(0),)
            if not big_same(g, w, TOL[k]):
                j = 0
                m = min(len(g[0]), len(w[0]))
                neq = np.flatnonzero((g[0][:m] != w[0][:m]) | (g[1][:m] != w[1][:m]) | ~(np.abs(g[2][:m] - w[2][:m]) <= TOL[k] * np.abs(w[2][:m])))
                j = int(neq[0]) if len(neq) else m
                rep.fail('big:' + k, f'{k}: {len(w[0])} prescriptions at write(), {len(g[0])} read back; first difference at sorted '
                         f'position {j}: written {big_head([x[j:] for x in w], 3)} read {big_head([x[j:] for x in g], 3)}',
                         {'n_written': len(w[0]), 'n_read': len(g[0]), 'written': big_head([x[j:] for x in w]), 'read': big_head([x[j:] for x in g]),
                          'malformed_lines': big_malformed(d / 'mesh.cnt')})
    finally:
        shutil.rmtree(d, ignore_errors=True)
    return rows


def big_shape(rnd, n_min):
    """a brick / plate / column of hexes with at least n_min nodes (and not many more)"""
    kind = rnd.choice(['cube', 'plate', 'column'])
    if kind == 'cube':
        a = int(np.ceil(n_min ** (1 / 3)))
        shape = [a, a, a]
        while shape[0] * shape[1] * (shape[2] - 1) >= n_min:
            shape[2] -= 1
    elif kind == 'plate':
        a = int(np.ceil((n_min / 2) ** .5))
        shape = [2, a, -(-n_min // (2 * a))]
    else:
        shape = [2, 2, -(-n_min // 4)]
    rnd.shuffle(shape)
    return shape


def big_spec(rnd, main, others=()):
    """main = [(kind, rows) ...] the sections whose size is the point; others: smaller sections at lesser powers of two"""
    kinds = list(main) + list(others)
    need = max([-(-r // 3) if k in TABLES else r for k, r in kinds])
    n_min = need + rnd.randint(0, max(3, need // 50))
    rnd.shuffle(kinds)
    spec = {'shape': big_shape(rnd, n_min), 'seed': rnd.randrange(2 ** 32), 'id_style': rnd.choice(BIG_ID_STYLES),
            'solution': rnd.choice(['STATIC', 'HEAT']), 'kinds': [list(kr) for kr in kinds],
            'construct': {k: rnd.choice(['setitem', 'setitem', 'update_data']) for k, _ in kinds},
            'poke': [[k, rnd.choice([.001, .01, .3])] for k, _ in kinds if rnd.random() < .3]}
    return spec


def around(rnd, size):
    return size + rnd.choice([-1, 0, 1, 1, rnd.randint(2, 400), rnd.randint(2, 4000)])


def big_plan(ctx):
    """the specs of this run.  quick: two (a table section just above 2^16 rows on ~22 000 nodes; a scalar section above 2^16
    and a table section above 2^17 rows on ~66 000 nodes), each with smaller sections around lesser powers of two.  thorough:
    in addition every kind just below / at / above 65536 and the table kinds (and one scalar kind) around 131072"""
    rnd = ctx.rng
    B = 1 << 16
    small = lambda: rnd.choice([1 << 12, 1 << 13, 1 << 14, 1 << 15, 10000])     # noqa
    cf = lambda: rnd.choice(['cflux', 'pure_cflux'])                             # noqa
    t3 = rnd.sample(TABLES, 3)
    s2 = rnd.sample(['fixtemp', cf()], 2)
    plan = [big_spec(rnd, [(t3[0], B + rnd.choice([1, rnd.randint(2, 300), rnd.randint(2, 3000)]))],
                     [(t3[1], around(rnd, small())), (s2[0], around(rnd, small()))]),
            big_spec(rnd, [(s2[1], B + rnd.choice([1, rnd.randint(2, 300)])), (t3[1], 2 * B + rnd.choice([1, rnd.randint(2, 3000)]))],
                     [(t3[2], around(rnd, small()))])]
    if not ctx.quick:
        for j, size in enumerate([B - 1, B, B + 1, 2 * B - 1, 2 * B, 2 * B + 1, 3 * B + 1]):
            plan.append(big_spec(rnd, [(TABLES[j % 3], size)], [(TABLES[(j + 1) % 3], around(rnd, small())), (SCALARS[j % 3], around(rnd, small()))]))
        for j, size in enumerate([B - 1, B, B + 1]):
            plan.append(big_spec(rnd, [(SCALARS[j], size)], [(TABLES[j], around(rnd, rnd.choice([B, 2 * B])))]))
        plan.append(big_spec(rnd, [('fixtemp', 2 * B + 1), (cf(), 2 * B - 1)], [(rnd.choice(TABLES), around(rnd, 4 * B))]))
    return plan


def big_stream(ctx):
    for spec in big_plan(ctx):
        rep = Report()
        inp = {'big': spec}
        rows = {}
        try:
            rows = big_evaluate(ctx, rep, spec)
        finally:
            for sig, what, observed in rep.findings:
                ctx.fail(sig, what, inp, observed)
        nx, ny, nz = spec['shape']
        ctx.case(C.hashlib.sha1(C.json.dumps(inp, sort_keys=True).encode()).hexdigest(),
                 sample={'stream': 'size-boundary', 'n_nodes': nx * ny * nz, 'shape': spec['shape'], 'ids': spec['id_style'],
                         'rows_per_section': rows, 'solution': spec['solution']}, nontrivial=True)
        ctx.count('big:cases')
        ctx.count('big:ids:' + spec['id_style'])
        for k, r in rows.items():
            b = max(p for p in range(0, 20) if (1 << p) <= max(r, 1))
            ctx.count(f'big:{k}:rows in [2^{b}, 2^{b + 1})')
            if r > (1 << 16):
                ctx.count('big:sections of more than 65536 rows')
            if abs(r - (1 << b)) <= 1 or abs(r - (1 << (b + 1))) <= 1:
                ctx.count('big:sections with a row count within 1 of a power of two')


def run(ctx):
    rnd = ctx.rng
    n = ctx.n(250, 2500)
    if ctx.driver is None:
        n *= 2
    for name, obj in C.corpus_cases(PROP):
        r = replay(ctx, obj)
        if r.get('fails'):
            ctx.fail(obj.get('signature', 'corpus:' + name), 'corpus case fails: ' + name, obj.get('input'), r)
    for _ in range(n):
        case = gen_case(rnd)
        n_edits = rnd.choice([0, 0, 0, 1, 1, 2, 3, 4])
        extra = rnd.choice(['twice', 'fresh', 'fresh', 'rmw', 'rmw'] + [None] * 5)
        eval_case(ctx, case, n_edits=n_edits, extra=extra)
    outside_streams(ctx, ctx.n(8, 40))
    outside_group_formats(ctx, ctx.n(6, 30))
    big_stream(ctx)


def replay(ctx, obj):
    inp = obj['input']
    rep = Report()
    if 'big' in inp:        # size-boundary stream: the input is its generator parameters
        try:
            rows = big_evaluate(ctx, rep, inp['big'])
        except Exception as e:  # noqa
            return {'fails': True, 'raised': repr(e)}
        return {'fails': bool(rep.findings), 'rows_per_section': rows,
                'property_violations': [[sig, what, observed] for sig, what, observed in rep.findings]}
    try:
        res = evaluate(ctx, rep, inp, None)
    except Exception as e:  # noqa
        return {'fails': True, 'raised': repr(e)}
    out = {'fails': bool(rep.findings),
           'property_violations': [[sig, what] for sig, what, _ in rep.findings],
           'model_vs_implementation': [[what, impl, model] for what, impl, model in rep.disagreements],
           'state_of_the_object_at_write': {k: presc_of_case(res['final'], k)[:12] for k in TABLES + SCALARS},
           'outside_quantifier': res['outside']}
    if ctx.driver is not None and res['final'].get('decimal') and res['cnt'] is not None and res['outside'] is None \
            and not inp['case'].get('settings'):
        out['model_text_equals_written_text'] = model_write(ctx, res['final']) == res['cnt']
    return out
