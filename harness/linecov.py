"""Line coverage of femio's source by one check run (generator quality made measurable: a change on a line the
generated inputs never execute cannot be seen by any differential tie).

Uses sys.monitoring (Python >= 3.12): every LINE location fires once and is then disabled, so the overhead is
negligible.  Reported per run, into the evidence (`code_coverage`): for the line ranges the property is anchored in
(properties.jsonl: anchors.mechanism[].where / anchors.state[].where) the executable lines, how many were executed by
this run, and the line ranges that were not.  numba-compiled kernels execute outside the interpreter and show up as
"not executed" although they ran: they are listed separately (functions decorated with njit)."""
import ast
import json
import os
import re
import sys
from pathlib import Path

TOOL = 3      # sys.monitoring tool id (0-5); 3 is free (coverage.py uses 1/3 only when it is running, which it is not)


class LineCov:
    def __init__(self, repo):
        self.repo = str(Path(repo).resolve())
        self.prefix = self.repo + '/femio/'
        self.hit = {}          # filename -> set(lines)
        self.on = False

    def start(self):
        mon = getattr(sys, 'monitoring', None)
        if mon is None:
            return False
        try:
            mon.use_tool_id(TOOL, 'verif-linecov')
        except ValueError:
            return False
        E = mon.events

        def on_line(code, line):
            fn = code.co_filename
            if fn.startswith(self.prefix):
                self.hit.setdefault(fn, set()).add(line)
            return mon.DISABLE
        mon.register_callback(TOOL, E.LINE, on_line)
        mon.set_events(TOOL, E.LINE)
        self.on = True
        return True

    def stop(self):
        if not self.on:
            return
        mon = sys.monitoring
        mon.set_events(TOOL, 0)
        mon.register_callback(TOOL, mon.events.LINE, None)
        mon.free_tool_id(TOOL)
        self.on = False

    # ------------------------------------------------------------------ reporting
    @staticmethod
    def executable_lines(path):
        """lines that carry code (from the compiled code objects), docstring-only lines excluded; and the line spans of
        njit-decorated functions"""
        src = Path(path).read_text()
        lines = set()

        def walk(co):
            for _, _, ln in co.co_lines():
                if ln:
                    lines.add(ln)
            for c in co.co_consts:
                if hasattr(c, 'co_lines'):
                    walk(c)
        walk(compile(src, path, 'exec'))
        tree = ast.parse(src)
        njit = []
        doc = set()
        for node in ast.walk(tree):
            if isinstance(node, (ast.FunctionDef, ast.ClassDef, ast.Module)):
                b = node.body
                if b and isinstance(b[0], ast.Expr) and isinstance(getattr(b[0], 'value', None), ast.Constant) \
                        and isinstance(b[0].value.value, str):
                    doc.update(range(b[0].lineno, b[0].end_lineno + 1))
            if isinstance(node, ast.FunctionDef):
                for d in node.decorator_list:
                    txt = ast.unparse(d)
                    if 'njit' in txt or 'jit' in txt.split('(')[0]:
                        njit.append((node.lineno, node.end_lineno, node.name))
        # def / class / import / decorator lines execute at import time (before the run): not interesting
        skip = set()
        for node in ast.walk(tree):
            if isinstance(node, (ast.FunctionDef, ast.ClassDef)):
                first = min([node.lineno] + [d.lineno for d in node.decorator_list])
                skip.update(range(first, node.body[0].lineno))
            if isinstance(node, (ast.Import, ast.ImportFrom)):
                skip.update(range(node.lineno, node.end_lineno + 1))
        # module / class level assignments also run at import time
        for node in tree.body:
            if not isinstance(node, (ast.FunctionDef, ast.ClassDef)):
                skip.update(range(node.lineno, node.end_lineno + 1))
        for node in ast.walk(tree):
            if isinstance(node, ast.ClassDef):
                for s in node.body:
                    if not isinstance(s, (ast.FunctionDef, ast.ClassDef)):
                        skip.update(range(s.lineno, s.end_lineno + 1))
        return lines - doc - skip, njit

    def report(self, anchors):
        """anchors: {relative file: [(lo, hi), ...]} (empty list = whole file)"""
        out = {}
        tot_x = tot_h = 0
        for rel, ranges in sorted(anchors.items()):
            path = Path(self.repo) / rel
            if not path.exists():
                out[rel] = {'error': 'file not found'}
                continue
            try:
                ex, njit = self.executable_lines(str(path))
            except SyntaxError as e:
                out[rel] = {'error': repr(e)}
                continue
            if ranges:
                # line numbers in the anchors are those of the pinned commit: widen every range to the functions it
                # overlaps, so that small shifts (the fix: commits) do not matter
                spans = _function_spans(str(path))
                wide = list(ranges)
                for lo, hi in ranges:
                    wide += [(a, b) for a, b in spans if a <= hi and lo <= b]
                ex = {l for l in ex if any(lo <= l <= hi for lo, hi in wide)}
            in_njit = {l for l in ex if any(lo <= l <= hi for lo, hi, _ in njit)}
            if os.environ.get('NUMBA_DISABLE_JIT') == '1':      # diagnostic runs: the kernels run in the interpreter
                in_njit = set()
            ex -= in_njit
            hit = self.hit.get(str(path), set()) & ex
            missed = sorted(ex - hit)
            out[rel] = {'anchored_ranges': [f'{lo}-{hi}' for lo, hi in ranges] or ['whole file'],
                        'executable_lines': len(ex), 'executed': len(hit),
                        'not_executed': _ranges(missed),
                        'njit_functions_not_traceable': sorted({n for lo, hi, n in njit
                                                                 if any(lo <= l <= hi for l in in_njit)})}
            tot_x += len(ex)
            tot_h += len(hit)
        return {'executable_lines_in_anchors': tot_x, 'executed_by_this_run': tot_h,
                'ratio': round(tot_h / tot_x, 3) if tot_x else None, 'files': out}


def _function_spans(path):
    tree = ast.parse(Path(path).read_text())
    return [(n.lineno, n.end_lineno) for n in ast.walk(tree) if isinstance(n, ast.FunctionDef)]


def _ranges(ls):
    out, i = [], 0
    while i < len(ls):
        j = i
        while j + 1 < len(ls) and ls[j + 1] <= ls[j] + 1:
            j += 1
        out.append(str(ls[i]) if i == j else f'{ls[i]}-{ls[j]}')
        i = j + 1
    return out


WHERE = re.compile(r'([\w/]+\.py)\s*:\s*([0-9,\-\s]+)')


def anchors_of(prop, properties_file):
    """{file: [(lo, hi)]} from the property's anchors (files named without a line range count as whole files only when
    no mechanism entry narrows them)"""
    rec = None
    for line in open(properties_file):
        p = json.loads(line)
        if p['id'] == prop:
            rec = p
    if rec is None:
        return {}
    files = {f: [] for f in rec['anchors'].get('files', [])}
    ranged = {}
    last = None
    for ent in rec['anchors'].get('mechanism', []) + rec['anchors'].get('state', []):
        w = ent.get('where') or ''
        for part in re.split(r'[;]', w):
            for m in WHERE.finditer(part):
                name, spans = m.group(1), m.group(2)
                full = next((f for f in files if f == name or f.endswith('/' + name)), None)
                if full is None:
                    full = name if name.startswith('femio/') else 'femio/' + name
                for s in spans.split(','):
                    s = s.strip()
                    if not s:
                        continue
                    lo, _, hi = s.partition('-')
                    try:
                        ranged.setdefault(full, []).append((int(lo), int(hi or lo)))
                    except ValueError:
                        pass
    for f in files:
        if f not in ranged:
            ranged[f] = []
    return ranged
