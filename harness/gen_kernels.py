"""Symbolic-execution translator (tie S, DESIGN.md 2.5): the polynomial geometry kernels of
femio/geometry_processor.py of the CURRENT working tree -> lean/Femio/Gen/Kernels.lean.

The real public methods `calculate_element_volumes / _areas / _normals` are *executed* (the source text is never
parsed) on a one-element FEMData whose node coordinates are symbols x0 y0 z0 x1 ... (class `Sym`: exact polynomials
with `fractions.Fraction` coefficients, held in numpy object arrays).  The value that comes back is, per kernel, the
exact polynomial the code computes; it is multiplied by the fixed integer multiplier of the Lean model (6, 24, 16 ...,
see Model/Geom*.lean and `VolNF.den / AreaNF.den` in Model/GeomKernels.lean) and emitted as

    def kVolHexLinear {R : Type} [CommRing R] (x0 y0 z0 ... : R) : R := <expanded polynomial, integer coefficients>

`Femio/Props/KernelTie.lean` proves `kVolHexLinear x0 ... = hexLin6 <x0,y0,z0> ...` over every commutative ring by
`ring`: the kernel re-checks on every run that the hand-written model kernel IS what the code computes now.

What is replaced while tracing (this list is part of the trusted base; everything is restored afterwards):
  * `np` inside femio.geometry_processor -> `_NpProxy`, which forwards every attribute to numpy except
      np.linalg.det   3x3 determinant over the last two axes, expanded symbolically (hand specification of det:
                      a00 (a11 a22 - a12 a21) - a01 (a10 a22 - a12 a20) + a02 (a10 a21 - a11 a20))
      np.linalg.norm  returns the formal object  sum_k c_k |v_k|  (`Rad`; no square root is evaluated); supports
                      `* number`, `/ number`, `+ Rad`.  An area  sum_k c_k |v_k|  is emitted as the vectors
                      w_k = c_k * AreaNF.den * v_k  (area = sum |w_k| / den), each with a canonical sign and in a
                      canonical order (the sum depends only on the multiset {+-w_k})
      np.zeros / np.empty with a float dtype (or none)  -> object array of `Sym` zeros (so that `res += ...` works)
    np.cross, np.dot, np.stack, np.sum, np.mean, ndarray.mean, indexing, reshape ... are numpy's own code
    acting on object arrays (their arithmetic is `Sym.__add__/__sub__/__mul__/__truediv__`).
  * `functions` inside femio.geometry_processor -> proxy whose `normalize(v)` returns `v` (and counts the calls): the
    model returns the un-normalised normal `c`, the code `c / |c|`.
  * `fem_data.nodes._data` <- object array of symbols (so the real id -> index -> row lookup of
    `collect_node_positions_by_ids` is executed); if the attribute does not take it, `collect_node_positions_by_ids`
    is patched on the instance instead.
  * njit kernels (polyhedron) are run through `.py_func`.
  * float constants met in the arithmetic (`/ 6.`, `1. / 6.`, `* 0.5`) are read as the rational with the smallest
    denominator <= 4096 that rounds to the same double (|c - r| <= 2^-50 |c|); any other float as its exact binary value.
Not traced: the "gaussian" kernels of hex (volume) and quad (area): their abscissa is the float literal 0.5773502692
and the quad kernel takes `** .5` of a sum of squares; the P-tie remains their only tie.

A kernel that cannot be traced (an exception, a result that is not a polynomial ...) is recorded as `untraceable`
with the reason and keeps its last good polynomial from Gen/kernels.json (so that the library builds); this is not
an alarm by itself - the P-tie still covers the kernel.
"""
import contextlib
import io
import json
import time
import traceback
from fractions import Fraction

import numpy as np

from . import common as C

AX = 'xyz'


# ----------------------------------------------------------------------------------------- exact polynomials

def _num(c):
    """a number met in the arithmetic as an exact rational (None: not a number)"""
    if isinstance(c, (bool, np.bool_)):
        return None
    if isinstance(c, (int, np.integer)):
        return Fraction(int(c))
    if isinstance(c, Fraction):
        return c
    if isinstance(c, (float, np.floating)):
        c = float(c)
        if c != c or c in (float('inf'), float('-inf')):
            return None
        ex = Fraction(c)
        r = ex.limit_denominator(4096)
        if r == ex or abs(r - ex) <= abs(ex) / 2 ** 50:
            return r
        return ex
    return None


class Sym:
    """polynomial in the coordinate symbols: {monomial: coefficient}; a monomial is the sorted tuple of its variable
    indices with repetition (variable 3 i + a = axis a of node i)"""
    __slots__ = ('t',)
    __array_priority__ = 1000

    def __init__(self, t=None):
        self.t = t or {}

    @staticmethod
    def var(k):
        return Sym({(k,): Fraction(1)})

    @staticmethod
    def lift(c):
        if isinstance(c, Sym):
            return c
        q = _num(c)
        if q is None:
            return None
        return Sym({(): q} if q else {})

    def __add__(self, o):
        o = Sym.lift(o)
        if o is None:
            return NotImplemented
        t = dict(self.t)
        for m, c in o.t.items():
            v = t.get(m, 0) + c
            if v:
                t[m] = v
            else:
                t.pop(m, None)
        return Sym(t)
    __radd__ = __add__

    def __neg__(self):
        return Sym({m: -c for m, c in self.t.items()})

    def __pos__(self):
        return self

    def __sub__(self, o):
        o = Sym.lift(o)
        if o is None:
            return NotImplemented
        return self + (-o)

    def __rsub__(self, o):
        o = Sym.lift(o)
        if o is None:
            return NotImplemented
        return o + (-self)

    def __mul__(self, o):
        o = Sym.lift(o)
        if o is None:
            return NotImplemented
        t = {}
        for m1, c1 in self.t.items():
            for m2, c2 in o.t.items():
                m = tuple(sorted(m1 + m2))
                v = t.get(m, 0) + c1 * c2
                if v:
                    t[m] = v
                else:
                    t.pop(m, None)
        return Sym(t)
    __rmul__ = __mul__

    def __truediv__(self, o):
        q = _num(o)
        if q is None or q == 0:
            return NotImplemented
        return Sym({m: c / q for m, c in self.t.items()})

    def __pow__(self, k):
        if isinstance(k, (int, np.integer)) and 0 <= int(k) <= 6:
            r = Sym({(): Fraction(1)})
            for _ in range(int(k)):
                r = r * self
            return r
        return NotImplemented

    def __eq__(self, o):
        o = Sym.lift(o)
        return o is not None and self.t == o.t

    def __hash__(self):
        return hash(frozenset(self.t.items()))

    def __repr__(self):
        return 'Sym(' + render_poly(self.t, width=10 ** 9).strip() + ')'


class Rad:
    """formal  sum_k c_k |v_k|  (what np.linalg.norm returns while tracing): list of (c_k, (vx, vy, vz))"""
    __slots__ = ('terms',)
    __array_priority__ = 1000

    def __init__(self, terms):
        self.terms = terms

    def __mul__(self, o):
        q = _num(o)
        if q is None or q < 0:
            return NotImplemented
        return Rad([(c * q, v) for c, v in self.terms])
    __rmul__ = __mul__

    def __truediv__(self, o):
        q = _num(o)
        if q is None or q <= 0:
            return NotImplemented
        return Rad([(c / q, v) for c, v in self.terms])

    def __add__(self, o):
        if isinstance(o, Rad):
            return Rad(self.terms + o.terms)
        if _num(o) == 0:
            return self
        return NotImplemented
    __radd__ = __add__


def sym_array(rows):
    a = np.empty((len(rows), len(rows[0])), object)
    for i, r in enumerate(rows):
        for j, v in enumerate(r):
            a[i, j] = v
    return a


def sym_zeros(shape):
    a = np.empty(shape, object)
    for idx in np.ndindex(a.shape):
        a[idx] = Sym()
    return a


# ----------------------------------------------------------------------------------------- the numpy proxy

PATCHED = ['np.linalg.det (3x3, cofactor expansion over Sym)', 'np.linalg.norm (formal sum of norms, no sqrt evaluated)',
           'np.zeros / np.empty with a float dtype (object array of Sym zeros)',
           'functions.normalize (identity: the model returns the un-normalised normal)',
           'nodes._data (symbolic coordinates; fallback: collect_node_positions_by_ids on the instance)',
           'njit kernels through .py_func',
           'float constants read as the small-denominator rational that rounds to them (1. / 6. -> 1/6)']


def _is_float_dtype(dtype):
    if dtype is None:
        return True
    try:
        return np.issubdtype(np.dtype(dtype), np.floating)
    except TypeError:
        return False


def _det3(a):
    a = np.asarray(a)
    if a.dtype != object:
        return np.linalg.det(a)
    if a.shape[-2:] != (3, 3):
        raise TypeError(f'symbolic det of shape {a.shape}')
    out = np.empty(a.shape[:-2], object)
    for idx in np.ndindex(out.shape):
        m = a[idx]
        out[idx] = (m[0, 0] * (m[1, 1] * m[2, 2] - m[1, 2] * m[2, 1])
                    - m[0, 1] * (m[1, 0] * m[2, 2] - m[1, 2] * m[2, 0])
                    + m[0, 2] * (m[1, 0] * m[2, 1] - m[1, 1] * m[2, 0]))
    return out[()] if out.shape == () else out


def _norm(a, ord=None, axis=None, keepdims=False):
    a = np.asarray(a)
    if a.dtype != object:
        return np.linalg.norm(a, ord=ord, axis=axis, keepdims=keepdims)
    if ord not in (None, 2):
        raise TypeError('symbolic norm: ord')
    if a.ndim == 1 and axis in (None, 0, -1):
        if a.shape != (3,):
            raise TypeError(f'symbolic norm of shape {a.shape}')
        return Rad([(Fraction(1), tuple(a))])
    if a.ndim == 2 and axis in (1, -1) and a.shape[1] == 3:
        out = np.empty((a.shape[0], 1) if keepdims else (a.shape[0],), object)
        for i in range(a.shape[0]):
            out[(i, 0) if keepdims else i] = Rad([(Fraction(1), tuple(a[i]))])
        return out
    raise TypeError(f'symbolic norm of shape {a.shape} axis {axis}')


class _LinalgProxy:
    det = staticmethod(_det3)
    norm = staticmethod(_norm)

    def __getattr__(self, k):
        return getattr(np.linalg, k)


class _NpProxy:
    linalg = _LinalgProxy()

    @staticmethod
    def zeros(shape, dtype=None, *a, **k):
        if _is_float_dtype(dtype):
            return sym_zeros(shape)
        return np.zeros(shape, dtype, *a, **k)

    @staticmethod
    def empty(shape, dtype=None, *a, **k):
        if _is_float_dtype(dtype):
            return sym_zeros(shape)
        return np.empty(shape, dtype, *a, **k)

    def __getattr__(self, k):
        return getattr(np, k)


class _FunctionsProxy:
    def __init__(self, real):
        self._real = real
        self.normalize_calls = 0

    def normalize(self, array, *a, **k):
        self.normalize_calls += 1
        return array

    def __getattr__(self, k):
        return getattr(self._real, k)


@contextlib.contextmanager
def tracing(gp):
    """replace `np` / `functions` / the njit kernels inside femio.geometry_processor; restore afterwards"""
    saved = {'np': gp.np, 'functions': gp.functions}
    cls = gp.GeometryProcessorMixin
    saved_cls = {}
    fp = _FunctionsProxy(gp.functions)
    try:
        gp.np = _NpProxy()
        gp.functions = fp
        for name, obj in list(vars(cls).items()):
            f = obj.__func__ if isinstance(obj, staticmethod) else obj
            if hasattr(f, 'py_func'):
                saved_cls[name] = obj
                setattr(cls, name, staticmethod(f.py_func) if isinstance(obj, staticmethod) else f.py_func)
        for name, obj in list(vars(gp).items()):        # module-level njit functions
            if hasattr(obj, 'py_func') and callable(obj):
                saved[name] = obj
                setattr(gp, name, obj.py_func)
        yield fp
    finally:
        for name, obj in saved.items():
            setattr(gp, name, obj)
        for name, obj in saved_cls.items():
            setattr(cls, name, obj)
        for obj in vars(cls).values():          # lru_cached methods must not keep symbolic results
            if hasattr(obj, 'cache_clear'):
                obj.cache_clear()


# ----------------------------------------------------------------------------------------- the kernels

ALL3 = ['linear', 'gaussian', 'centroid']
# faces of the fixed polyhedra (node indices of the one element): a tetrahedron and a pyramid (quad + 4 triangles)
POLYHEDRA = {
    'Tet': (4, [[0, 2, 1], [0, 1, 3], [1, 2, 3], [2, 0, 3]]),
    'Pyr': (5, [[0, 3, 2, 1], [0, 1, 4], [1, 2, 4], [2, 3, 4], [3, 0, 4]]),
}
POLYGON_N = [3, 5]


def kernel_table():
    """[(name, api, element type, mode, arity, extra)]; name = Lean suffix (def kXxx / theorem KT_xxx)"""
    K = []
    for ty, n in [('tet', 4), ('tet2', 10), ('pyr', 5), ('prism', 6), ('hexprism', 12)]:
        for mode in ALL3:
            K.append((f'vol_{ty}_{mode}', 'volume', ty, mode, n, None))
    for mode in ['linear', 'centroid']:
        K.append((f'vol_hex_{mode}', 'volume', 'hex', mode, 8, None))
    for name, (n, faces) in POLYHEDRA.items():
        for mode in ALL3:
            K.append((f'vol_poly{name}_{mode}', 'volume', 'polyhedron', mode, n, faces))
    for mode in ALL3:
        K.append((f'area_tri_{mode}', 'area', 'tri', mode, 3, None))
    for mode in ['linear', 'centroid']:
        K.append((f'area_quad_{mode}', 'area', 'quad', mode, 4, None))
    for n in POLYGON_N:
        for mode in ALL3:
            K.append((f'area_polygon{n}_{mode}', 'area', 'polygon', mode, n, None))
    for mode in ALL3:
        K.append((f'normal_tri_{mode}', 'normal', 'tri', mode, 3, None))
    for mode in ALL3:
        K.append((f'normal_quad_{mode}', 'normal', 'quad', mode, 4, None))
    for n in POLYGON_N:
        for mode in ALL3:
            K.append((f'normal_polygon{n}_{mode}', 'normal', 'polygon', mode, n, None))
    return K


def multiplier(api, ty, mode, n, faces):
    """the model's fixed multiplier: [traced value] * multiplier = [model kernel]  (Model/Geom*.lean, GeomKernels.lean):
    volumes: VolNF.den (polyhedron "centroid": 6 * lcm of the face sizes); normals: scale of the un-normalised vector.
    Areas are scaled by (traced coefficient of the norm) * AreaNF.den instead (see `trace_all`); for the unchanged tree
    that product is the value returned here."""
    if api == 'volume':
        if ty == 'polyhedron':
            if mode == 'centroid':      # 6 V times the lcm of the face sizes (polyC6 has 1/k per face)
                L = 1
                for f in faces:
                    L = L * len(f) // np.gcd(L, len(f))
                return 6 * int(L)
            return 6
        return 24 if (mode == 'centroid' and ty in ('hex', 'pyr', 'prism')) else 6
    cen = (mode == 'centroid')
    if ty == 'tri':
        return 1
    if ty == 'quad':
        return 16 if cen else 1
    if ty == 'polygon':
        if api == 'area':           # transcribed as written: mode == "centroid" -> fan kernel, others -> centroid kernel
            return 1 if cen else n * n
        return n * n if cen else n - 2      # normals: centroid kernel / np.mean of the n - 2 fan crosses
    raise KeyError((api, ty, mode))


def lean_name(name):
    parts = name.split('_')
    return 'k' + ''.join(p[:1].upper() + p[1:] for p in parts)


def build_fem(ty, n, faces):
    """a real FEMData with ONE element of the type; node ids are not 0..n-1 and not in storage order, so that the real
    id -> index lookup is part of what is executed"""
    from femio import FEMData, FEMAttribute, FEMElementalAttribute
    ids = [10 * (i + 1) + 3 for i in range(n)]
    order = list(range(n))[::-1]                        # storage order: reversed
    node_ids = np.array([ids[i] for i in order])
    nodes = FEMAttribute('NODE', ids=node_ids, data=np.zeros((n, 3)), silent=True)
    el = {ty: FEMAttribute(ty, ids=np.array([7]), data=np.array([ids]), silent=True)}
    with contextlib.redirect_stdout(io.StringIO()):
        fd = FEMData(nodes=nodes, elements=FEMElementalAttribute('ELEMENT', el))
    symbols = sym_array([[Sym.var(3 * i + a) for a in range(3)] for i in order])
    fd.nodes._data = symbols
    got = fd.nodes.data
    if not (isinstance(got, np.ndarray) and got.dtype == object and got.shape == (n, 3) and got[0, 0] == symbols[0, 0]):
        # the attribute does not hand out what was put in: patch the accessor of the coordinates on the instance
        pos = {ids[i]: [Sym.var(3 * i + a) for a in range(3)] for i in range(n)}
        fd.collect_node_positions_by_ids = lambda node_ids: sym_array([pos[int(i)] for i in np.ravel(node_ids)])
    if faces is not None:       # polyhedron: [n_faces, k1, storage indices ..., k2, ...]
        st = {i: k for k, i in enumerate(order)}
        fl = [len(faces)]
        for f in faces:
            fl += [len(f)] + [st[i] for i in f]
        face_data = np.empty(1, object)
        face_data[0] = fl
        face = FEMElementalAttribute('face', {'polyhedron': FEMAttribute(
            'face', ids=np.array([7]), data=face_data, silent=True)})
        with contextlib.redirect_stdout(io.StringIO()):
            fd.elemental_data.update({'face': face})
    return fd


def trace_one(api, ty, mode, n, faces):
    """run the public method of the real code on symbols; returns the list of component polynomials:
    volume -> [poly]; normal -> [x, y, z]; area -> [x, y, z] per norm term, each scaled by its coefficient"""
    fd = build_fem(ty, n, faces)
    if api == 'volume':
        out = fd.calculate_element_volumes(mode=mode, raise_negative_volume=False, return_abs_volume=False, update=False)
    elif api == 'area':
        out = fd.calculate_element_areas(mode=mode, raise_negative_area=False, return_abs_area=False, update=False)
    else:
        out = fd.calculate_element_normals(mode=mode, update=False)
    out = np.asarray(out, dtype=object)
    if api == 'normal':
        if out.shape != (1, 3):
            raise TypeError(f'result shape {out.shape}')
        vals = list(out[0])
        if not all(isinstance(v, Sym) for v in vals):
            raise TypeError('result is not polynomial')
        return [(Fraction(1), vals)]
    if out.size != 1:
        raise TypeError(f'result shape {out.shape}')
    v = out.ravel()[0]
    if api == 'volume':
        v = Sym.lift(v)
        if v is None:
            raise TypeError('result is not polynomial')
        return [(Fraction(1), [v])]
    if not isinstance(v, Rad) or not all(isinstance(c, Sym) for _, vec in v.terms for c in vec):
        raise TypeError('result is not a sum of norms of polynomial vectors')
    return [(c, list(vec)) for c, vec in v.terms]


def trace_all():
    """returns (polys: name -> {'arity', 'comps': [[(monomial, num, den)]], 'labels'}, info)"""
    polys, untraceable, traced = {}, {}, []
    normalize_calls = 0
    try:
        import femio  # noqa: F401
        from femio import geometry_processor as gp
        cm = tracing(gp)
        fp = cm.__enter__()
    except Exception as e:      # the module no longer has the shape the tracer expects: nothing can be traced
        why = f'tracer could not be installed: {type(e).__name__}: {str(e)[:160]}'
        return {}, {'traced': [], 'untraceable': {k[0]: why for k in kernel_table()}, 'normalize_calls': 0}
    try:
        for name, api, ty, mode, n, faces in kernel_table():
            try:
                with contextlib.redirect_stdout(io.StringIO()):
                    terms = trace_one(api, ty, mode, n, faces)
                mult = multiplier(api, ty, mode, n, faces)
                den = area_den(ty, mode, n) if api == 'area' else 1
                comps, labels = [], []
                if api == 'area':
                    terms = canonical_norm_terms([[p * (c * den) for p in vec] for c, vec in terms])
                else:
                    terms = [(c, [p * mult for p in vec]) for c, vec in terms]
                for k, (c, vec) in enumerate(terms):
                    for a, q in enumerate(vec):
                        comps.append(q)
                        labels.append(('' if len(terms) == 1 else f'V{k}') + ('' if len(vec) == 1 else AX[a].upper()))
                bad = sorted({m for q in comps for m in q.t if any(v >= 3 * n for v in m)})
                if bad:
                    raise TypeError('symbols outside the element')
                polys[name] = {'arity': n, 'labels': labels,
                               'comps': [sorted((list(m), c.numerator, c.denominator) for m, c in q.t.items()) for q in comps]}
                traced.append(name)
            except Exception as e:
                tb = traceback.extract_tb(e.__traceback__)
                where = next((f'{f.filename.split("/")[-1]}:{f.lineno}' for f in reversed(tb) if 'femio' in f.filename), '')
                untraceable[name] = f'{type(e).__name__}: {str(e)[:160]} {where}'.strip()
        normalize_calls = fp.normalize_calls
    finally:
        cm.__exit__(None, None, None)
    return polys, {'traced': traced, 'untraceable': untraceable, 'normalize_calls': normalize_calls}


def canonical_norm_terms(vecs):
    """a sum of norms  sum_k |w_k|  depends only on the multiset {+-w_k}: each vector gets the sign that makes the leading
    coefficient of its first non-zero component positive, the vectors are sorted (so `areas2 + areas1` or a cross product
    taken in the other order traces to the same text); zero vectors are dropped"""
    out = []
    for vec in vecs:
        lead = next((sorted(q.t.items())[0][1] for q in vec if q.t), None)
        if lead is None:
            continue
        if lead < 0:
            vec = [-q for q in vec]
        out.append(vec)
    out.sort(key=lambda vec: [sorted(q.t.items()) for q in vec])
    return [(Fraction(1), vec) for vec in out]


def area_den(ty, mode, n):
    """AreaNF.den of the model (Model/GeomKernels.lean: `area`)"""
    if ty == 'tri':
        return 2
    if ty == 'quad':
        return 32 if mode == 'centroid' else 2
    if ty == 'polygon':
        return 2 if mode == 'centroid' else 2 * n * n
    raise KeyError(ty)


# ----------------------------------------------------------------------------------------- rendering

def var_name(k):
    return f'{AX[k % 3]}{k // 3}'


def render_poly(t, width=100, indent='    '):
    """deterministic text of a polynomial with integer coefficients (monomials in lexicographic order)"""
    if not t:
        return indent + '0'
    items = sorted(t.items())
    toks = []
    for i, (m, c) in enumerate(items):
        c = int(c) if Fraction(c).denominator == 1 else c
        mono = ' * '.join(var_name(v) for v in m)
        a = abs(c)
        body = mono if (a == 1 and mono) else (f'{a} * {mono}' if mono else f'{a}')
        toks.append(('- ' if c < 0 else '+ ') + body if i else ('-' if c < 0 else '') + body)
    lines, cur = [], indent
    for tk in toks:
        if len(cur) + len(tk) + 1 > width and cur.strip():
            lines.append(cur.rstrip())
            cur = indent + '  '
        cur += tk + ' '
    lines.append(cur.rstrip())
    return '\n'.join(lines)


def render(polys, order):
    out = ['import Mathlib.Algebra.Ring.Defs',
           "/-! GENERATED from the working tree of the femio repository by harness/gen_kernels.py on every run (symbolic",
           "    execution of the real geometry_processor.py) - do not edit.  One polynomial per kernel / component, already",
           "    multiplied by the model's fixed multiplier; `kernelScales` lists, per kernel, the positive integer by which the",
           "    polynomial had to be multiplied further to clear denominators (1 everywhere = integer coefficients). -/",
           'set_option linter.unusedVariables false', 'namespace Femio.Gen', '']
    scales = []
    for name in order:
        p = polys[name]
        n = p['arity']
        args = ' '.join(var_name(k) for k in range(3 * n))
        if n > 8:       # keep lines short
            args = '\n    '.join(' '.join(var_name(k) for k in range(3 * i, min(3 * i + 18, 3 * n))) for i in range(0, n, 6))
        L = 1
        for comp in p['comps']:
            for _, _, d in comp:
                L = L * d // int(np.gcd(L, d))
        scales.append((name, L))
        for lab, comp in zip(p['labels'], p['comps']):
            t = {tuple(m): Fraction(a, d) * L for m, a, d in comp}
            out.append(f'def {lean_name(name)}{lab} {{R : Type}} [CommRing R] ({args} : R) : R :=')
            out.append(render_poly(t))
        out.append('')
    out.append('/-- (kernel, extra factor that was needed to make its coefficients integers) -/')
    out.append('def kernelScales : List (String × Nat) := [')
    out.append(',\n'.join(f'  ("{n}", {s})' for n, s in scales) + ']')
    out += ['', 'end Femio.Gen', '']
    return '\n'.join(out)


def generate():
    """returns (changed, info).  info: traced / untraceable (name -> reason) / stale (untraceable kernels emitted from the
    last good polynomial) / non_integer (kernels whose scaled polynomial still has non-integer coefficients) / patched"""
    t0 = time.time()
    polys, info = trace_all()
    order = [k[0] for k in kernel_table()]
    gen = C.LEAN / 'Femio' / 'Gen'
    cache = gen / 'kernels.json'
    last = json.loads(cache.read_text()) if cache.exists() else {}
    stale = []
    for name in order:
        if name not in polys:
            if name not in last:
                raise RuntimeError(f'kernel {name} could not be traced ({info["untraceable"].get(name)}) and no last good '
                                   f'polynomial exists in {cache}')
            polys[name] = last[name]
            stale.append(name)
    txt = render(polys, order)
    f = gen / 'Kernels.lean'
    gen.mkdir(parents=True, exist_ok=True)
    changed = (not f.exists()) or f.read_text() != txt
    with C.build_lock():
        if changed:
            f.write_text(txt)
        js = json.dumps({k: polys[k] for k in order}, indent=0, sort_keys=True)
        if not cache.exists() or cache.read_text() != js:
            cache.write_text(js)
    non_int = sorted(n for n in order if n not in stale
                     and any(d != 1 for comp in polys[n]['comps'] for _, _, d in comp))
    info.update(stale=stale, non_integer=non_int, patched=PATCHED, changed=changed, kernels=order,
                monomials={n: sum(len(c) for c in polys[n]['comps']) for n in order},
                not_traced_by_design=['volume:hex:gaussian', 'area:quad:gaussian'], trace_s=round(time.time() - t0, 2))
    return changed, info


if __name__ == '__main__':
    ch, inf = generate()
    print('changed' if ch else 'unchanged', {k: v for k, v in inf.items() if k not in ('kernels', 'monomials', 'patched', 'traced')})
    print('traced', len(inf['traced']), 'of', len(inf['kernels']))
