"""C15 - spatial gradient operators are exact on affine fields (DESIGN.md section 4, C15).

Tie P/D: for every generated (mesh, mode, n_hop, kernel, volume weighting, moment matrix) the three
sparse matrices returned by the real `calculate_spatial_gradient_adjacency_matrices` are compared,
entry by entry, with the rows the Lean model (`Femio.Gradient.opRow`, executed over exact rationals by
the driver) computes from the mesh (own incidence -> adjacency -> n-hop neighbours, own centroids) and
the real weight matrix (kernel x volume, captured from the real call: `exp` is not modelled).  The
convenience functions are compared with the model's `applyRow` / `spatialGradients`.
Oracle (independent of the model): constants -> 0 for every variant; moment-corrected gradient of a
random affine field = its slope at every vertex whose neighbourhood spans space (exact rank test on the
generator's rational coordinates); convenience function = explicit matrices applied by hand.  Tolerances are
derived from the conditioning of the problem, computed by the harness itself (own geometry + the weights the real
call used): C 2^-52 cond(M_i) rowsum_i max|f| with C = 1000 (see ASSUMPTIONS).

Every mesh is evaluated in two phases.  (1) Each option combination on its own freshly built object: oracle + model.
(2) ALL option combinations of the mesh - with value-only changes of single keywords (moment_matrix, consider_volume,
use_effective_volume, alpha, kernel, n_hop, order1_only, normals, mode), exact repeats, "A, B, A" returns and three
spellings of the call (every option explicit / defaults omitted / n_hop and kernel positional) in between - one after
another on ONE live object that carries user data, nothing cleared or rebuilt in between; after every call the three
clauses on the live object, the result compared with the same call on a freshly built equal object (computed in phase 1
or beforehand, so that the history is not disturbed) and with the exact model, the data array and the object's user data
compared with their snapshots.

Stream `order1` (second-order meshes differentiated on their first-order vertices, `order1_only=True`): tet2 (and hex2
without volume weighting: femio has no hex2 volume) meshes whose corner and mid-edge nodes are interleaved in storage.
The graph vertices are the corner nodes in storage order (own computation from the connectivity, not femio's filter);
fields are given on ALL nodes, as the convenience function expects them; the explicit matrices are applied by hand to
the corner rows.  The model is fed the first-order sub-problem (corner nodes, corner connectivity).
Dimension `graded` of the main stream (round 4, class J): every second mesh has cell widths differing by 3 .. 1000 WITHIN the mesh
(geometric progressions towards a corner / an inner layer along all or some axes, thin layers, jitter proportional to the local
cell size, sheared); on those the moment-corrected volume-weighted operator of both modes is evaluated in addition (weights differ
by ratio^3, moment determinants by ratio^9 between the coarse and the fine region; `C15_row_weight_scale`: the operator row of a
vertex does not depend on the common factor of its weights, so no threshold on the SIZE of det M_i is sound).  Exactness is
asserted at EVERY vertex with the tolerance derived from the harness's own cond(M_i).
Dimension `data array` (class F): the field is handed to the convenience functions as int8..int64 / uint8..uint64 / bool / float16 /
float32 / byte-swapped arrays, C / Fortran ordered, transposed, strided, reversed, read-only, of shape (n, k), (n, 1), (n,); the
field IS what the array holds (converted to binary64) and the explicit matrices applied to it by hand are the reference; affine
fields are made integer-valued beforehand so that they survive the cast (`C15_integer_affine_field`).  Dimension `mesh storage`:
the arrays the object is built from (ids / connectivity int32, uint32, uint64; coordinates Fortran-ordered, strided, byte-swapped,
integer-typed when integer-valued).
Stream `translated`: meshes 1e3 .. 1e7 element sizes away from the origin (what an exact-rational model cannot see:
formulas in absolute positions are equal over Q and cancel in binary64), with the metamorphic relation operator(translated
mesh) = operator(mesh before the translation) (`C15_translation_invariant`).
Stream `kernel-scale` (round 6): the ABSOLUTE length unit of the mesh together with the kernel options as the caller passes them
(mostly the default alpha = 1): regular bricks in a length unit in which the nearest neighbours have kernel weights e^-E, E = 110,
250, 400, 600 (1e-48 .. 1e-261; millimetre coordinates with 250 mm elements and kernel='exp': 1e-109).  The stream `scaled` divides
alpha by the scale, so its weights never change.  The operator does not depend on the common factor of the weights of a vertex
(`C15_row_weight_scale`); the determinant of its moment matrix does (`C15_det_underflow_counterexample`).  Oracle + live sequences.
Held results (round 6, class D): in every history on one object (live sequences, stream same-object) every array RETURNED by an
earlier call (the convenience function's array; data / row / col of the explicit matrices) is kept together with a bit-exact
snapshot and compared after every later call (`Held`; `C15_held_results_stable`, `C15_work_array_counterexample`).
"""
import itertools
import math
from fractions import Fraction as F

import numpy as np

from . import common as C
from . import meshgen as MG

PROP = 'C15'
LEAN_MODULES = ['Femio.Props.C15']
THEOREMS = ['C15_const_zero', 'C15_affine_exact', 'C15_convenience', 'det3_eq_det', 'C15_translation_invariant',
            'C15_moment_expanded', 'C15_row_weight_scale', 'C15_integer_affine_field', 'C15_det_underflow_counterexample',
            'C15_held_results_stable', 'C15_work_array_counterexample']
PARTIAL = ['the weights w_ij (distance kernel exp / gauss x effective or mean volume) are inputs of the model, read back from '
           'the real call; the theorems hold for every weight function, so nothing about exp is needed',
           'floating point (np.linalg.inv, sqrt, cancellation) is runtime: the theorems are identities over a field; the exact '
           'model and the real matrices agree within the stated condition-number-scaled tolerance; guards (distinct vertices, '
           'non-zero weight sums) are evaluated per case.  In particular C15_translation_invariant / C15_moment_expanded say '
           'that formulas in absolute positions are EQUAL to the modelled ones over Q: their loss of precision far from the '
           'origin is seen by the oracle (stream translated) only, never by the exact model',
           'history independence (a call does not depend on earlier calls on the same object) is not a theorem: the model is a '
           'pure function; it is checked on the real code by the live sequences (comparison with freshly built objects)',
           'dtype / memory layout of the arrays handed in are not modelled (the model computes over a field): C15_integer_affine_field '
           'says that over Q an integer-typed output array loses nothing on integer-valued affine fields (why the exact model is blind '
           'to it there); the conversion of the result to the dtype of the input is seen by the oracle only (dimension data array)',
           'graded meshes: C15_row_weight_scale (operator rows are invariant under a common factor of the weights of a vertex, det M_i '
           'is not) is an identity over a field; a numerical threshold on det M_i relative to other vertices is seen by the oracle only. '
           'In the quick tier the exact model is skipped on graded meshes with more than 800 and on translated meshes with more than '
           '1500 neighbour pairs (long rationals, 1-2 ms per pair); the oracle runs on all of them',
           'size of the weights (stream kernel-scale): over Q nothing depends on it (C15_row_weight_scale); C15_det_underflow_counterexample '
           'exhibits a vertex whose operator row is unchanged by weights of 1e-109 while det M_i drops below 1e-308 - what a closed form '
           'adj / det does with that in binary64 is seen by the oracle only; the exact model is not run on this stream',
           'results returned by earlier calls: C15_held_results_stable / C15_work_array_counterexample are statements about a model of '
           'result ownership (a fresh array per call vs one work array), not about femio\'s code; the tie to the code is the oracle '
           '(bit-exact snapshots of every returned array, compared after every later call on the same object)']
RULE = ('conforming tet / hex bricks (1..2 or 1..3 cells per direction, optional voids) under a random rational affine '
        'map (sheared / graded) with optional per-node jitter, arbitrary node / element ids in ascending / descending / '
        'shuffled / looks-sorted storage order; 4 option combinations per mesh drawn without replacement from mode (nodal, '
        'elemental) x n_hop (1,2,3) x kernel (none, exp, gauss with random alpha) x moment_matrix, with random consider_volume '
        'x use_effective_volume; fields (one set per mesh): constants of random magnitude, random affine fields, random fields '
        '(convenience clause). Phase 1: every combination on a freshly built object (oracle + model). Phase 2 (sequence): the '
        'same combinations in shuffled order on ONE live object carrying user data, interleaved with 6 (quick) / 8 extra calls: '
        'the previous call with the VALUE of one keyword changed (moment_matrix, consider_volume, use_effective_volume, alpha, '
        'kernel, n_hop, order1_only (legal no-op on first-order meshes), normals (None / False / True (nodal) / user array), '
        'mode), often followed by the call before it again (A, B, A), exact repeats of the previous or of an earlier call; every '
        'call spelled with all options explicit / defaults omitted / n_hop and kernel positional, convenience function before or '
        'after the explicit matrices; after every call: the three clauses on the live object, convenience result = same call on a '
        'freshly built equal object = exact model, data array and user data (ids, coordinates, connectivity, a nodal and an '
        'elemental variable) unchanged. With the normals option only constants -> 0, convenience = matrices and equality with a '
        'fresh object are asserted. '
        'Dimension graded (main stream): every second mesh is a brick of 2..3 (thorough: ..4) cells per direction (tets: one '
        'direction may have a single cell) whose cell widths form geometric progressions with largest / smallest = 3, 10, 30, 100, 300, '
        '1000 (every ratio in every run): three times out of four along all three axes (down / up / fine in the middle), otherwise '
        'per-axis patterns incl. uniform and thin (all cells anisotropic by the ratio); jitter up to 1/8 of the smallest adjacent cell '
        'width, random rational affine map, ids / storage orders as everywhere; coordinates dyadic (exact in binary64). On a graded '
        'mesh 4 further option combinations: moment matrix + volume weighting for nodal / elemental x (1 hop: oracle + model + '
        'sequence; 2 or 3 hops: oracle only). Affine exactness asserted at every vertex whose neighbourhood spans space (exact rank). '
        'Dimension data array (every stream): with probability 0.6 the field is handed to the convenience function as dtype (int8, '
        'int16, int32, int64, uint8, uint16, uint32, uint64, bool, float16, float32, >f8, >f4, >i4, float64) x layout (C, Fortran, '
        'transposed view, every second column / row of a larger array, negative stride, read-only) x shape ((n, k), (n, 1), (n,)); '
        'values are rounded / saturated into the dtype BEFORE the call, so the array holds the field exactly and the reference is '
        'the explicit matrices applied by hand to its binary64 conversion; constants stay constants; affine fields are replaced by '
        'integer-valued ones (slope = small integers x common denominator of the exact vertex positions, offset centring the range) '
        'and count as affine only if the cast is lossless; the live sequences change the array kind between calls as one more '
        '"keyword"; the array and the memory it views are compared bit for bit after the call. A 1-D result may be (n, 3) or (n, 3, 1). '
        'Dimension mesh storage (main stream, 40 % of the meshes): ids / connectivity as int32 / uint32 / uint64, coordinates '
        'Fortran-ordered / strided / byte-swapped / integer-typed (only when integer-valued). '
        'A case is non-trivial when the graph has at least '
        'one vertex with >= 3 neighbours; distinct = distinct (mesh, options) resp. (mesh, sequence of calls). Vertices whose '
        'neighbourhood does not span space (exact rank < 3) are outside the exactness clause and are counted in a separate stream. '
        'Stream order1: the same tet / hex bricks promoted to tet2 / hex2 (straight mid-edge nodes, own ids, node table '
        'shuffled so that corner and mid-edge nodes are interleaved; non-trivial only when they are), nodal mode with '
        'order1_only=True, fields defined on all nodes; tet2 with effective-volume weighting or none, hex2 without '
        'volume weighting. '
        'Stream scaled: the same meshes with every coordinate multiplied by 1/1024, 500, 2000 (cell size in coordinate units; '
        'kernel alpha scaled along), all tolerances relative. '
        'Stream translated: 6 (quick) / 9 meshes in a length unit 1, 1/3, 3/10, 7/5 (non-dyadic: coordinates are rounded) '
        'translated by 1e3, 1e4, 1e5, 1e6, 1e7 element sizes (every magnitude in every run; isotropic, anisotropic like projected '
        'map coordinates, along one axis; integer or with a fractional part; once per run the literal UTM offset (431250, 3912500, '
        '128) with metre-size elements); every mode x n_hop x kernel with the moment matrix (and half of them without); fields: '
        'constant, affine with values of the size of the coordinates, affine centred at the mesh (evaluated over the rationals); '
        'plus the metamorphic relation operator(translated) = operator(before the translation). '
        'Streams order1 / scaled / translated run phase 2 as well (2-3 extra calls). '
        'Stream kernel-scale: 4 (quick) / 12 regular bricks (cubes or their Kuhn split, optional voids, exact rotation (none, two '
        'rational rotations), optional jitter of at most 1 / (8 E) of the cell size, ids / storage orders as everywhere) given in the '
        'length unit for which the DEFAULT alpha = 1 gives the nearest neighbours of the lead graph (hex: nodal / elemental, tet: nodal; '
        'kernel exp / gauss) the weight e^-E, E = 110, 250, 400, 600 (every E in every run; cell sizes 15 .. 600 coordinate units); 3 '
        '(quick) / 4 option combinations per mesh: the lead with alpha = 1, the others (any mode, kernel exp / gauss, n_hop 1-3, with '
        '/ without moment matrix and volume weighting) with alpha (3 significant digits) chosen for another E of the list on their own '
        'graph; oracle on fresh objects + live sequence (changes of kernel / alpha / mode there draw another E). Rows whose largest '
        'weight is below 1e-290 are outside; when the real call raises, the case is outside iff some vertex has a largest weight '
        'below 1e-290 or a moment matrix (own geometry x the weights the real call had computed) with cond >= 1e6. '
        'Held results (every live sequence and the stream same-object): the arrays returned by ALL earlier calls on the object '
        '(convenience function; data / row / col of the three matrices) are kept as the caller keeps them, with bit-exact snapshots, '
        'and compared after every later call; a held array that differs from its snapshot by more than the tolerance of the clause '
        'convenience = matrices (1e-12 row scale x field scale) is a failure, changed bits within it an observation. '
        'Stream same-object: operator built (explicit matrices, convenience function or both), node positions of the SAME '
        'object replaced through the public setter (orientation-preserving rational affine map, no direction fixed), '
        'operator built again without clearing any cache; the property is evaluated against the new positions.')
ASSUMPTIONS = [
    'floating point, oracle: |computed gradient - true gradient| <= C 2^-52 cond(M_i) (rowsum_i(|G|) (max|f| + [elemental] '
    '|a|_1 max|x|) + cond(M_i) max|a|) with C = 1000 (the last term: left residual of the explicit LU inverse femio uses, '
    'relevant only when kernel weights of very different magnitude make M_i nearly singular; observed on the unchanged tree: '
    'cond 7e10, error 1.7e3 |a|), where cond(M_i) is the condition number of the moment matrix computed by the HARNESS from its '
    'own exact geometry and the weights the real call used (1 without moment matrix), rowsum_i the absolute row sum of the '
    'operator, max|f| the magnitude of the field (for a mesh at distance |x| from the origin with vertex spacing h this is '
    'C 2^-52 (|x|/h) |g| cond(M): the rounding of the field values themselves); the elemental term accounts for femio computing '
    'the element centres in binary64. Calibration: on the unchanged tree the largest observed error is 1.9 (constants) / 5.7 '
    '(affine) in units of 2^-52 cond rowsum scale over 12 seeds of a dedicated sweep (offsets 0, 1e3, 1e5, 1e7 element sizes) '
    'and is recorded by every run in the evidence (calibration_max_error_over_eps_cond_rowsum_scale); C = 1000 leaves two orders '
    'of magnitude. The earlier tolerance (1e-9 instead of C 2^-52 = 2.2e-13) was 4500 times looser and, multiplied by |x|/h, '
    'useless far from the origin',
    'floating point, translation relation: |G(translated) - G(before)|_row <= C 2^-52 (kappa_i + cond(M_i)) cond(M_i) max|G|_row with '
    'kappa_i = max|x| / min_j |x_j - x_i| (the rounding of the translated coordinates and of the element centres relative to '
    'the vertex spacing); largest observed on the unchanged tree: 16 units (gauss kernel), recorded per run '
    '(calibration_max_translation_difference_over_eps_kappa_cond). Not asserted (observation only) when the weights contain '
    'volumes of hexahedra: femio computes those with a float32 accumulator from absolute positions (relative error ~2^-24 |x|/h, '
    'C11 "within the float range the method\'s precision supports"); for the same reason hexahedra are volume-weighted only up '
    'to 1e5 element sizes from the origin (beyond, the float32 kernel returns zero / negative volumes and femio raises). '
    'Constants -> 0 and affine exactness hold for ANY positive weights and are asserted there with the binary64 tolerance',
    'floating point, correspondence: the real matrices are compared with the exact rational model within (1e-9 + C 2^-52 (kappa_i '
    '+ cond(M_i))) cond(M_i) * row scale (np.linalg.inv / sqrt / exp accuracy is runtime, not modelled)',
    'the distance kernel values (exp, gauss) are read back from the real call and are inputs of the model',
    'normals / normal_weight are outside the quantifier: exercised in the live sequences only (values None, False, True for the '
    'nodal mode, user-supplied arrays; normals=True in elemental mode raises on every mesh in the unchanged tree and is not '
    'drawn); with them only constants -> 0, convenience = matrices and history independence are asserted, an exception is '
    'never a failure',
    'every vertex belongs to an element, volumes and kernel values are positive, vertices are distinct '
    '(guards reported by the driver for every case)',
    'data array: an integer / bool / float16 / float32 / byte-swapped array IS the field (its values converted to binary64); the '
    'expected result of the convenience functions is the explicit matrices applied by hand to that binary64 field (scipy promotes '
    'every one of these dtypes to binary64), within 1e-12 row scale x field scale as for binary64 arrays. A 1-D array (n,) is not '
    'what the docstring asks for ((n, n_feature)): its result may be (n, 3) or (n, 3, 1), an exception on it is an observation and '
    'the column is then handed in as (n, 1). Not drawn: longdouble (scipy computes in extended precision: 1e-14 differences), '
    'complex, object arrays',
    'mesh storage: not drawn: float32 coordinate arrays (femio averages the element centres in float32: accuracy 1e-7 of the '
    "caller's own storage type, not asserted against the binary64 tolerance) and byte-swapped id arrays (pandas raises "
    '"Big-endian buffer not supported" inside ids2indices)',
    'kernel-scale: the property is stated for every mesh and every kernel, hence for every length unit; it is asserted where binary64 '
    'can represent the problem: vertices whose largest weight is >= 1e-290 and whose moment matrix (own geometry x the real weights) has '
    'a finite condition number; tolerances as everywhere (conditioning-derived, relative). An exception of the real call counts as a '
    'failure only if every vertex has a largest weight >= 1e-290 and cond(M_i) < 1e6 (otherwise the weights of some vertex have '
    'underflowed: labelled stream). On the unchanged tree the largest observed error of the stream is within the same calibration '
    'constant as the other streams',
    'held results: an array returned by a convenience function / a matrix returned by calculate_spatial_gradient_adjacency_matrices '
    'is the gradient (operator) for the field (options) of ITS call; the caller may keep it while making further calls. If a later '
    'call changes it beyond the tolerance of the clause convenience = matrices it no longer equals the true gradient / the explicit '
    'matrices applied by hand to its field: failure (earlier-result-modified)',
    'live sequences: a call that changes the data array it is given or the user data of the object (ids, coordinates, '
    'connectivity, user variables) changes the field / the mesh the three clauses are stated for, and is reported',
]
TRUSTED = ['C15: capture of volume_adj / kernel matrix by wrapping calculate_data_adjs / calculate_distance_kernel_adj '
           'on the instance (removed again after every call)']

KERNELS = [None, 'exp', 'gauss']

# second-order types handled by the order1 stream: first-order type, number of corner nodes
FIRST_ORDER = {'tet2': ('tet', 4), 'hex2': ('hex', 8)}
HEX_EDGES = [(0, 1), (1, 2), (2, 3), (3, 0), (4, 5), (5, 6), (6, 7), (7, 4), (0, 4), (1, 5), (2, 6), (3, 7)]


def promote_hex2(rnd, m):
    """replace every hex by a hex2 with straight mid-edge nodes (new ids, shared per edge); node table shuffled"""
    pos = dict(m['nodes'])
    nxt = max(pos) + 1
    mid = {}
    rows = []
    for e, c in m['blocks']['hex']:
        extra = []
        for a, b in HEX_EDGES:
            k = frozenset((c[a], c[b]))
            if k not in mid:
                mid[k] = nxt + rnd.randint(0, 3)
                nxt = mid[k] + 1
                pos[mid[k]] = tuple((x + y) / 2 for x, y in zip(pos[c[a]], pos[c[b]]))
            extra.append(mid[k])
        rows.append((e, list(c) + extra))
    new_nodes = list(m['nodes']) + [(i, pos[i]) for i in mid.values()]
    rnd.shuffle(new_nodes)
    out = dict(m)
    out.update(nodes=new_nodes, blocks={'hex2': rows}, kind='hex2', order='shuf')
    return out


def corner_ids(m):
    return {n for t, b in m['blocks'].items() for _, c in b for n in c[:FIRST_ORDER.get(t, (t, len(c)))[1]]}


def graph_mesh(m, opt):
    """the mesh whose graph the operator lives on: the mesh itself, or (order1) its first-order sub-problem =
    corner nodes in storage order + corner connectivity"""
    if not opt.get('order1'):
        return m
    cs = corner_ids(m)
    out = dict(m)
    out.update(nodes=[(i, p) for i, p in m['nodes'] if i in cs],
               blocks={FIRST_ORDER.get(t, (t, None))[0]: [(e, list(c[:FIRST_ORDER.get(t, (t, len(c)))[1]])) for e, c in b]
                       for t, b in m['blocks'].items()})
    return out


def carriers(m, opt):
    """(float positions of every row the convenience function expects data for, bool mask of the graph vertices)"""
    if opt['mode'] != 'nodal' or not opt.get('order1'):
        P = np.array([[float(x) for x in p] for p in positions_exact(m, opt['mode'])])
        return P, np.ones(len(P), bool)
    cs = corner_ids(m)
    return (np.array([[float(x) for x in p] for _, p in m['nodes']]), np.array([i in cs for i, _ in m['nodes']]))


def nhop(fd, opt):
    kw = {'order1_only': True} if opt.get('order1') else {}
    return MG.quiet(fd.calculate_n_hop_adj, mode=opt['mode'], n_hop=opt['n_hop'], include_self_loop=False, **kw)


# ------------------------------------------------------------------ real side

def real_matrices(fd, opt, n_vertices=None):
    """run the real function; returns (grad_adjs, W: dict (i,j)->Fraction, n) with the weight matrix captured"""
    cap = {'d': []}
    ok_ = fd.calculate_distance_kernel_adj
    od_ = fd.calculate_data_adjs

    def wk(kernel, distance_adj, **kw):
        r = ok_(kernel, distance_adj, **kw)
        cap['k'] = r
        return r

    def wd(adj, data):
        r = od_(adj, data)
        cap['d'].append((data.shape, r))
        return r
    fd.calculate_distance_kernel_adj = wk
    fd.calculate_data_adjs = wd
    real_matrices.last_cap = cap          # (what was captured stays available when the call raises: _captured_weights)
    try:
        g = matrices_call(fd, opt, n_vertices)
    finally:
        del fd.calculate_distance_kernel_adj
        del fd.calculate_data_adjs
    n = g[0].shape[0]
    W = _captured_weights(fd, opt, cap)
    real_matrices.last_pairs = cap['pairs']
    return g, W, n


def _captured_weights(fd, opt, cap):
    """the weights w_ij (kernel x volume) of the real call, as exact rationals, from what the wrappers captured"""
    adj = nhop(fd, opt).tocoo()
    vol = [r for s, r in cap['d'] if len(s) == 2 and s[1] == 1]
    if opt['consider_volume'] and vol:
        v = vol[-1][0].tocoo()
        V = {(int(i), int(j)): F(float(x)) for i, j, x in zip(v.row, v.col, v.data)}
    else:
        V = {(int(i), int(j)): F(float(x)) for i, j, x in zip(adj.row, adj.col, adj.data.astype(float))}
    if opt['kernel'] is not None and 'k' in cap:
        k = cap['k'].tocoo()
        W = {}
        for i, j, x in zip(k.row, k.col, k.data):
            key = (int(i), int(j))
            if key in V:
                W[key] = F(float(x)) * V[key]
    else:
        W = V
    cap['pairs'] = {(int(i), int(j)) for i, j, x in zip(adj.row, adj.col, adj.data) if x != 0 and i != j}
    return W


DEFAULTS = {'n_hop': 1, 'kernel': None, 'moment_matrix': False, 'consider_volume': True, 'use_effective_volume': True,
            'alpha': 1.0, 'order1_only': False, 'normals': None}


def normals_arg(opt, n):
    """the value passed as `normals`: None / False / True, or ('array', seed) = user-supplied (n, 3) unit vectors, a third of
    them zero (as for interior vertices)"""
    v = opt.get('normals')
    if isinstance(v, (list, tuple)):
        rng = np.random.default_rng(v[1])
        a = rng.normal(size=(n, 3))
        a /= np.linalg.norm(a, axis=1)[:, None]
        a[rng.random(n) < 1 / 3] = 0.
        return a
    return v


def semantic_normals(opt):
    """does the `normals` option take part in the operator (femio: only with the moment matrix, and not for None / False)"""
    v = opt.get('normals')
    return bool(opt['moment'] and v is not None and v is not False)


def call_kwargs(opt, n=None):
    """keyword arguments of the real call.  opt['style']: 'explicit' (default: every option is passed), 'minimal' (options
    equal to their documented default are omitted), 'positional' (as explicit; n_hop and kernel are passed positionally by
    conv_call / matrices_call)"""
    kw = dict(mode=opt['mode'], n_hop=opt['n_hop'], kernel=opt['kernel'], moment_matrix=opt['moment'],
              consider_volume=opt['consider_volume'])
    if opt['mode'] == 'nodal':
        kw['use_effective_volume'] = opt['effective']
    if opt['kernel'] is not None:
        kw['alpha'] = opt['alpha']
    if opt.get('order1'):
        kw['order1_only'] = True
    elif 'o1kw' in opt and opt['mode'] == 'nodal':       # first-order mesh: the keyword is legal and changes nothing
        kw['order1_only'] = bool(opt['o1kw'])
    if 'normals' in opt:
        kw['normals'] = normals_arg(opt, n)
    if opt.get('style') == 'minimal':
        kw = {k: v for k, v in kw.items() if k == 'mode' or isinstance(v, np.ndarray) or v != DEFAULTS[k]
              or type(v) is not type(DEFAULTS[k])}
    return kw


def conv_call(fd, opt, data, n=None):
    kw = call_kwargs(opt, n)
    mode = kw.pop('mode')
    f = fd.calculate_nodal_spatial_gradients if mode == 'nodal' else fd.calculate_elemental_spatial_gradients
    if opt.get('style') == 'positional':
        return MG.quiet(f, data, kw.pop('n_hop'), kw.pop('kernel'), **kw)
    return MG.quiet(f, data, **kw)


def matrices_call(fd, opt, n=None):
    kw = call_kwargs(opt, n)
    if opt.get('style') == 'positional':
        return MG.quiet(fd.calculate_spatial_gradient_adjacency_matrices, kw.pop('mode'), kw.pop('n_hop'), kw.pop('kernel'), **kw)
    return MG.quiet(fd.calculate_spatial_gradient_adjacency_matrices, **kw)


def semkey(opt):
    """identity of the operator an option dict asks for (spelling of the call, field seed etc. removed)"""
    nv = opt.get('normals')
    return (opt['mode'], opt['n_hop'], opt['kernel'], bool(opt['moment']), bool(opt['consider_volume']),
            bool(opt['effective']) if opt['mode'] == 'nodal' and opt['consider_volume'] else None,
            opt['alpha'] if opt['kernel'] is not None else None, bool(opt.get('order1')),
            (True if nv is True else tuple(nv)) if semantic_normals(opt) else None, opt.get('scale'),
            tuple(sorted(opt['data_as'].items())) if opt.get('data_as') else None,
            tuple(sorted(opt['storage'].items())) if opt.get('storage') else None)


def dense3(g):
    return np.stack([x.toarray() for x in g], axis=0)      # (3, n, n); duplicates summed


def positions_exact(m, mode):
    """exact vertex positions of the graph (generator's rationals); elemental: centroids in block storage order"""
    if mode == 'nodal':
        return [p for _, p in m['nodes']]
    pos = dict(m['nodes'])
    (t, rows), = m['blocks'].items()
    return [tuple(sum(pos[n][k] for n in c) / len(c) for k in range(3)) for _, c in rows]


def rank3(vs):
    """exact rank (Fractions) of a list of 3-vectors is 3"""
    rows = [list(v) for v in vs]
    r = 0
    for col in range(3):
        piv = next((k for k in range(r, len(rows)) if rows[k][col] != 0), None)
        if piv is None:
            continue
        rows[r], rows[piv] = rows[piv], rows[r]
        for k in range(r + 1, len(rows)):
            if rows[k][col] != 0:
                f = rows[k][col] / rows[r][col]
                rows[k] = [a - f * b for a, b in zip(rows[k], rows[r])]
        r += 1
    return r == 3


_SPAN = {}


def spanning_flags(fd, m, opt):
    """per vertex: do the difference vectors to the real n-hop neighbours span space (exact).  Fast path: when the Gram
    matrix sum_j d_ij d_ij^T of the float differences (positions relative to their exact mean) has lambda_min > 1e-9
    lambda_max the exact rank is 3 (the float error of the Gram matrix is ~1e-15 lambda_max); otherwise the rank is decided
    over the rationals.  Cached per (mesh, mode, real adjacency pattern)."""
    adj = nhop(fd, opt).tocsr()
    key = (id(m['nodes']), id(m['blocks']), opt['mode'], bool(opt.get('order1')), adj.shape,
           hash(adj.indptr.tobytes()), hash(adj.indices.tobytes()), hash((adj.data != 0).tobytes()))
    hit = _SPAN.get(key)
    if hit is not None and hit[0] is m['nodes'] and hit[1] is m['blocks']:
        return list(hit[2]), adj
    Pc = geometry(m, opt)[0]
    n = adj.shape[0]
    out = None
    if len(Pc) == n:
        A = (adj.toarray() != 0)
        np.fill_diagonal(A, False)
        D = Pc[None, :, :] - Pc[:, None, :]
        gram = np.einsum('ij,ija,ijb->iab', A.astype(float), D, D)
        with np.errstate(all='ignore'):
            ev = np.linalg.eigvalsh(gram)
        sure = (ev[:, 0] > 1e-9 * ev[:, 2]) & (ev[:, 2] > 0)
        out = [True if sure[i] else None for i in range(n)]
    P = None
    res = []
    for i in range(n):
        if out is not None and out[i]:
            res.append(True)
            continue
        if P is None:
            P = positions_exact(graph_mesh(m, opt), opt['mode'])
        js = [int(j) for j, x in zip(adj.indices[adj.indptr[i]:adj.indptr[i + 1]], adj.data[adj.indptr[i]:adj.indptr[i + 1]])
              if x != 0 and j != i]
        res.append(len(js) >= 3 and rank3([tuple(a - b for a, b in zip(P[j], P[i])) for j in js]))
    if len(_SPAN) > 256:
        _SPAN.clear()
    _SPAN[key] = (m['nodes'], m['blocks'], res)
    return list(res), adj


def min_spread(fd, m, opt, adj):
    """min over vertices of sigma_min / sigma_max of the difference vectors to the neighbours (float; 0 = coplanar)"""
    P = np.array([[float(x) for x in p] for p in positions_exact(graph_mesh(m, opt), opt['mode'])])
    adj = adj.tocsr()
    worst = 1.0
    for i in range(adj.shape[0]):
        js = [int(j) for j, x in zip(adj.indices[adj.indptr[i]:adj.indptr[i + 1]], adj.data[adj.indptr[i]:adj.indptr[i + 1]])
              if x != 0 and j != i]
        if len(js) < 3:
            return 0.0
        sv = np.linalg.svd(P[js] - P[i], compute_uv=False)
        worst = min(worst, float(sv[2] / sv[0]) if sv[0] > 0 else 0.0)
    return worst


# how the MESH is stored in the arrays the object is built from (round-4 class F): dtype of the id arrays and of the
# connectivity, dtype / memory layout of the coordinate array.  The mesh is the same mesh; only exact representations are drawn
ID_DTYPES = ['int32', 'uint32', 'uint64', 'int64']          # (byte-swapped ids: pandas raises 'Big-endian buffer not supported' in ids2indices - not drawn)
COORD_LAYOUTS = ['C', 'F', 'cols', 'rows']


def gen_storage(rnd, m):
    """None (as before: int64 ids, C-ordered binary64 coordinates) or a JSON-able dict; integer coordinate arrays only
    when every coordinate is an integer"""
    if rnd.random() < .6:
        return None
    big = max(max(i for i, _ in m['nodes']), max(e for b in m['blocks'].values() for e, _ in b))
    idt = rnd.choice([d for d in ID_DTYPES if big < 2 ** 31 or d not in ('int32',)])
    xs = [x for _, p in m['nodes'] for x in p]
    cdt = ['float64', 'float64', '>f8']
    if all(x.denominator == 1 for x in xs):
        cdt += ['int64', 'int32', 'int16']
    # (float32 coordinate arrays are not drawn: femio then averages the element centres in float32, so the elemental operator
    # has float32 accuracy (1e-7) even when every coordinate is exactly representable - the precision of the caller's own
    # storage type, not asserted against the binary64 tolerance)
    return {'ids': idt, 'connectivity': rnd.choice([idt, 'int64']), 'coordinates': rnd.choice(cdt), 'layout': rnd.choice(COORD_LAYOUTS)}


def build_stored(m, st):
    from femio import FEMData, FEMAttribute, FEMElementalAttribute
    X = np.array([[float(v) for v in p] for _, p in m['nodes']]).astype(st['coordinates'])
    n = len(X)
    if st['layout'] == 'F':
        X = np.asfortranarray(X)
    elif st['layout'] == 'cols':
        w = np.full((n, 6), 77, dtype=X.dtype)
        w[:, ::2] = X
        X = w[:, ::2]
    elif st['layout'] == 'rows':
        w = np.full((2 * n, 3), 77, dtype=X.dtype)
        w[::2] = X
        X = w[::2]
    nodes = FEMAttribute('NODE', ids=np.array([i for i, _ in m['nodes']]).astype(st['ids']), data=X, silent=True)
    el = {t: FEMAttribute(t, ids=np.array([e for e, _ in b]).astype(st['ids']),
                          data=np.array([c for _, c in b]).astype(st['connectivity']), silent=True)
          for t, b in m['blocks'].items()}
    return MG.quiet(lambda: FEMData(nodes=nodes, elements=FEMElementalAttribute('ELEMENT', MG.insertion_order(el))))


def fresh(m, storage=None):
    fd = build_stored(m, storage) if storage else MG.to_femio(m)
    for name in ('calculate_n_hop_adj', 'calculate_incidence_matrix', 'calculate_adjacency_matrix_node',
                 'calculate_adjacency_matrix_element'):
        f = getattr(type(fd), name, None)
        if f is not None and hasattr(f, 'cache_clear'):
            f.cache_clear()
    return fd


# ------------------------------------------------------------------ conditioning of the problem (own computation)

EPS = 2.0 ** -52
MODEL_MAX_PAIRS = 6000
MODEL_MAX_PAIRS_GRADED = 800
MODEL_MAX_PAIRS_TRANSLATED = 1500
CTOL = 1e3            # the modest constant C of the conditioning-derived tolerances (calibration: ASSUMPTIONS)
_GEO = {}


def geometry(m, opt):
    """(float positions of the graph vertices relative to their exact mean, max |coordinate| of the mesh, exact mean);
    the harness's own geometry, from the generator's exact rationals"""
    key = (id(m['nodes']), id(m['blocks']), opt['mode'], bool(opt.get('order1')))
    hit = _GEO.get(key)
    if hit is not None and hit[0] is m['nodes'] and hit[1] is m['blocks']:
        return hit[2]
    Pex = positions_exact(graph_mesh(m, opt), opt['mode'])
    c0 = tuple(sum(p[k] for p in Pex) / len(Pex) for k in range(3))
    Pc = np.array([[float(p[k] - c0[k]) for k in range(3)] for p in Pex])
    xmax = max(abs(float(x)) for _, p in m['nodes'] for x in p)
    if len(_GEO) > 64:
        _GEO.clear()
    _GEO[key] = (m['nodes'], m['blocks'], (Pc, xmax, c0))
    return _GEO[key][2]


def conditioning(m, opt, W, n):
    """per graph vertex, from the harness's own geometry and the weights w_ij the real call used (any positive weights
    satisfy the property): cond_i = condition number of the moment matrix M_i = sum_j w_ij d_ij d_ij^T / |d_ij|^2 (1 without
    the moment matrix; inf when M_i is singular in binary64), kappa_i = max|x| / min_j |d_ij| = distance of the mesh from
    the origin in units of the local vertex spacing"""
    Pc, xmax, _ = geometry(m, opt)
    if len(Pc) != n:
        return np.ones(n), np.ones(n)
    Wd = np.zeros((n, n))
    for (i, j), v in W.items():
        if i != j and i < n and j < n:
            Wd[i, j] = float(v)
    D = Pc[None, :, :] - Pc[:, None, :]
    d2 = (D ** 2).sum(axis=2)
    pair = (Wd != 0) & (d2 > 0)
    with np.errstate(all='ignore'):
        hmin = np.sqrt(np.where(pair, d2, np.inf).min(axis=1))
        kappa = np.where(np.isfinite(hmin) & (hmin > 0), max(xmax, 1e-300) / np.where(hmin > 0, hmin, 1.), 1.)
        cond = np.ones(n)
        if opt['moment']:
            sw = np.where(pair, Wd / np.where(d2 > 0, d2, 1.), 0.)
            M = np.einsum('ij,ija,ijb->iab', sw, D, D)
            cond = np.array([np.linalg.cond(x) if np.isfinite(x).all() else np.inf for x in M])
            cond = np.where(np.isnan(cond), np.inf, np.maximum(cond, 1.))
    return cond, np.maximum(kappa, 1.)


TINY_FLOOR = 1e-290          # below: (nearly) subnormal weights - outside what binary64 supports (stream kernel-scale)


def row_wmax(W, n):
    """per vertex the largest weight w_ij the real call used"""
    out = np.zeros(n)
    for (i, j), v in W.items():
        if i != j and i < n and j < n:
            out[i] = max(out[i], abs(float(v)))
    return out


def well_weighted(fd, m, opt, n):
    """after the real call raised (stream kernel-scale): True / False = every vertex has a largest weight >= TINY_FLOOR and a
    moment matrix (own geometry x the weights the real call had computed before it raised) with cond < 1e6 / not so;
    None = the call raised before it computed the kernel weights (nothing to do with their size)"""
    cap = getattr(real_matrices, 'last_cap', None)
    if not cap or (opt['kernel'] is not None and 'k' not in cap):
        return None
    try:
        W = _captured_weights(fd, opt, cap)
        cond, _ = conditioning(m, opt, W, n)
        return bool(np.isfinite(cond).all() and cond.max() < 1e6 and (row_wmax(W, n) >= TINY_FLOOR).all())
    except Exception:
        return None


def carriers_exact(m, opt):
    """exact positions of every row the convenience function expects data for"""
    return [p for _, p in m['nodes']] if opt['mode'] == 'nodal' else positions_exact(m, 'elemental')


def field_matrix(m, opt, fields, P_all):
    """one column per field (constants, affine fields in binary64 from the float positions, 'centred' affine fields
    a.(x - c) + b evaluated exactly over the rationals and then rounded, random fields) + two random columns (fseed)"""
    n_all = len(P_all)
    cols = []
    for fld in fields:
        if fld['kind'] == 'const':
            c = np.full(n_all, fld['c'])
        elif fld['kind'] == 'affine' and fld.get('centred'):
            c0 = geometry(m, opt)[2]
            a = [F(float(x)) for x in fld['a']]
            c = np.array([float(sum(a[k] * (p[k] - c0[k]) for k in range(3)) + F(float(fld['b']))) for p in carriers_exact(m, opt)])
        elif fld['kind'] == 'affine':
            c = P_all @ np.array(fld['a']) + fld['b']
        else:
            c = np.random.default_rng(fld['seed']).normal(size=n_all) * 10
        cols.append(c)
    extra = np.random.default_rng(opt.get('fseed', 0)).normal(size=(n_all, 2)) * 10
    return np.column_stack(cols + [extra[:, 0], extra[:, 1]])


def hex_volume_weights(m, opt):
    """the weights contain volumes of hexahedra: femio computes those with a float32 accumulator from absolute positions
    (C11: 'within the float range the method's precision supports'), so they are not translation invariant in binary64"""
    return bool(opt['consider_volume']) and any(t.startswith('hex') for t in m['blocks'])


# ------------------------------------------------------------------ the field as the ARRAY the caller hands in (round-4 class F)

# dtype of the array given to the convenience functions.  The field IS what the array holds: its values converted to binary64
# are the field the three clauses are stated for; "the explicit matrices applied by hand" (scipy promotes every one of these
# dtypes to binary64) is the reference for the convenience functions.  '>' = byte-swapped (non-native) storage.
DATA_DTYPES = ['int8', 'int16', 'int32', 'int64', 'uint8', 'uint16', 'uint32', 'uint64', 'bool', 'float16', 'float32',
               '>f8', '>f4', '>i4', 'float64']
# memory layout: C-ordered / Fortran-ordered / transposed view of a C array / every second column resp. row of a wider
# (taller) array whose other entries are garbage / negative row stride / read-only
DATA_LAYOUTS = ['C', 'F', 'T', 'cols', 'rows', 'reversed', 'readonly']
# shape: all columns (n, k) / one column (n, 1) / one column as a 1-D array (n,): the docstring says (n, n_feature), a
# scalar field as a 1-D array is what users write; accepted results: (n, 3) or (n, 3, 1); an exception there is an
# observation, never a failure (then the column is handed in as (n, 1))
DATA_SHAPES = ['nk', 'nk', 'n1', '1d']


def gen_data_as(rnd, p_default=.4):
    """how the field is handed to the convenience function: None = as before (binary64, C-ordered, (n, k)), else a
    JSON-able dict dtype x layout x shape (+ which column for the one-column shapes)"""
    if rnd.random() < p_default:
        return None
    shape = rnd.choice(DATA_SHAPES)
    return {'dtype': rnd.choice(DATA_DTYPES), 'layout': rnd.choice(DATA_LAYOUTS if shape != '1d' else ['C', 'rows', 'reversed', 'readonly']),
            'shape': shape, 'column': rnd.choice([0, 1, 1, 1, 2, 3])}


def _lcm_den(ps):
    """common denominator of exact positions (stops growing beyond 2^60: no integer-valued field is attempted then)"""
    d = 1
    for p in ps:
        for x in p:
            q = F(x).denominator
            d = d * q // math.gcd(d, q)
            if d >= 2 ** 60:
                return d
    return d


def conv_any(fd, opt, data, nv, notes):
    """the convenience function on `data`; a 1-D array (a scalar field as users write it; the docstring asks for (n, k)) may
    come back as (n, 3) or (n, 3, 1); an exception on it is an observation and the column is handed in as (n, 1) instead"""
    if data.ndim != 1:
        return conv_call(fd, opt, data, nv)
    try:
        r = conv_call(fd, opt, data, nv)
    except Exception as e:
        notes['one_dimensional_data_raised'] = type(e).__name__
        return conv_call(fd, opt, data[:, None], nv)
    return r[:, :, None] if getattr(r, 'ndim', 0) == 2 else r


def _cast(values, dtype):
    """the values as an array of `dtype` (round to nearest, saturating: well defined for every dtype)"""
    dt = np.dtype(dtype)
    if dt.kind == 'b':
        return values != 0
    if dt.kind in 'iu':
        info = np.iinfo(dt)
        lo, hi = max(info.min, -2 ** 62), min(info.max, 2 ** 62)
        return np.clip(np.rint(values), lo, hi).astype(dt)
    if dt.kind == 'f' and dt.itemsize == 2:
        return np.clip(values, -60000., 60000.).astype(dt)
    return values.astype(dt)


def present(m, opt, fields, values):
    """(fields', pristine, data, guard): `data` = the array handed to the convenience function according to opt['data_as'],
    `pristine` = the field it holds, as binary64 (the field the clauses are stated for and the explicit matrices are applied
    to by hand), fields' = what is known about every column of `pristine`: a constant stays a constant under every cast; an
    affine field handed in as an integer / narrow float array is replaced beforehand by an INTEGER-VALUED affine field
    (slope = small integers x the common denominator of the exact vertex positions, offset centring the values in the
    range of the dtype; evaluated over the rationals), and stays 'affine' only if the cast is lossless - otherwise the
    column is an arbitrary field (clause convenience = matrices only).  `guard` = (array owning the memory, its bytes)"""
    spec = opt.get('data_as')
    if not spec:
        return fields, values, values.copy(), None
    dt = np.dtype(spec['dtype'])
    fields = [dict(f) for f in fields]          # (the columns beyond them are arbitrary fields: clause convenience = matrices)
    values = values.copy()
    n_named = len(fields)
    if spec['shape'] != 'nk':
        c = spec['column'] % n_named
        fields, values = [fields[c]], values[:, [c]]
    narrow = not (dt.kind == 'f' and dt.itemsize >= 8)
    if narrow and dt.kind != 'b':
        Pex = carriers_exact(m, opt)
        D = _lcm_den(Pex)
        for k, fld in enumerate(fields):
            if fld['kind'] != 'affine' or D >= 2 ** 40:
                continue
            ks = [int(round(x)) for x in fld['a']]
            if not any(ks):
                ks = [1, -2, 3]
            v = [sum(D * kk * x for kk, x in zip(ks, p)) for p in Pex]            # exact integers
            lo, hi = min(v), max(v)
            b = -lo if dt.kind == 'u' else -((lo + hi) // 2)
            if max(abs(lo + b), abs(hi + b)) < 2 ** 52:
                fields[k] = {'kind': 'affine', 'a': [float(D * kk) for kk in ks], 'b': float(b), 'integer_valued': True}
                values[:, k] = [float(x + b) for x in v]
    arr = _cast(values, dt)
    pristine = arr.astype(np.float64)
    for k, fld in enumerate(fields):
        same = np.array_equal(pristine[:, k], values[:, k])
        if fld['kind'] == 'const':
            fields[k] = {'kind': 'const', 'c': float(pristine[0, k])}
        elif fld['kind'] == 'affine' and not same:
            fields[k] = {'kind': 'random', 'was': 'affine field not representable in ' + spec['dtype']}
    lay = spec['layout']
    n, k = arr.shape
    rng = np.random.default_rng(n * 31 + k)
    if spec['shape'] == '1d':
        arr = arr[:, 0]
    owner = None
    if lay == 'F':
        arr = np.asfortranarray(arr)
    elif lay == 'T' and arr.ndim == 2:
        owner = np.ascontiguousarray(arr.T)
        arr = owner.T
    elif lay == 'cols' and arr.ndim == 2:
        owner = _cast(rng.normal(size=(n, 2 * k)) * 50, dt)
        owner[:, ::2] = arr
        arr = owner[:, ::2]
    elif lay in ('rows', 'cols'):
        owner = _cast(rng.normal(size=(2 * n,) + arr.shape[1:]) * 50, dt)
        owner[::2] = arr
        arr = owner[::2]
    elif lay == 'reversed':
        owner = arr[::-1].copy()
        arr = owner[::-1]
    else:
        arr = arr.copy()
    if lay == 'readonly':
        arr.flags.writeable = False
    owner = arr if owner is None else owner
    return fields, pristine, arr, (owner, owner.tobytes(), arr.dtype, arr.shape, arr.strides)


# ------------------------------------------------------------------ oracle (real API only)

def _evaluate(ctx, m, opt, fields, fd=None, settle=False, origin=None):
    """the property stated on the real implementation, evaluated on `fd` (default: a freshly built object); returns
    (failures = list of (signature, what, observed), info (JSON-able), out (arrays for the callers)).
    `settle` (stream same-object, volume weighting only): femio keeps the element volumes it has stored (elemental_data
    'volume', C19 family) when node positions are replaced, and refreshes them as a side effect of some later calls, so the
    first volume-weighted operator after the update may be built with other (still positive) weights than the next one.
    Constants -> 0 and affine exactness hold for every positive weight function and are asserted on every call; the clause
    convenience = explicit matrices compares two successive calls and is therefore evaluated on matrices rebuilt
    immediately before the convenience call (the difference of the first call is counted as an observation, not asserted).
    `origin` (stream translated): the same mesh before the translation; the operator of `m` must equal the operator of
    `origin` (gradients are translation invariant) within the conditioning of the problem."""
    fails, out = [], {}
    fd = fd or fresh(m, opt.get('storage'))
    span, adj = spanning_flags(fd, m, opt)
    P_all, sel = carriers(m, opt)        # rows the convenience function takes data for; which of them are graph vertices
    P = P_all[sel]
    n_all, nv = len(P_all), int(sel.sum())
    # the field as the array the caller hands in (dtype / layout / shape: opt['data_as']); `pristine` = the field it holds
    fields, pristine, data, guard = present(m, opt, fields, field_matrix(m, opt, fields, P_all))
    out['fields'] = fields
    nf = len(fields)
    conv = None
    notes = {}
    try:
        if opt.get('conv_first'):
            conv = conv_any(fd, opt, data, nv, notes)
        g, W, n = real_matrices(fd, opt, nv)
    except Exception as e:
        if semantic_normals(opt):      # the normals option is outside the quantifier: an exception there is not a failure
            return fails, {'singular': True, 'raised': type(e).__name__, 'normals': True}, out
        if not all(span):      # some neighbourhood does not span space: outside the quantifier
            return fails, {'singular': True, 'raised': type(e).__name__}, out
        if min_spread(fd, m, opt, adj) < 1e-2:
            # the neighbourhoods span space exactly (rank 3 over the rationals) but only just: the difference vectors
            # of some vertex are within 1 % of a plane (e.g. the centroids of a single jittered layer of cells), so
            # the float moment matrix is numerically singular.  Not "a mesh whose vertex neighbourhoods span space"
            # in any robust sense: separate labelled stream, never a failure.
            return fails, {'singular': True, 'raised': type(e).__name__, 'near_degenerate': True}, out
        if opt.get('tiny') and well_weighted(fd, m, opt, len(span)) is False:
            # stream kernel-scale: the kernel weights of some vertex have underflowed (largest weight below 1e-290) or leave its
            # moment matrix ill-conditioned (cond >= 1e6; own geometry x the weights the real call computed): binary64 cannot
            # represent the problem any more.  Separate labelled stream, never a failure.
            return fails, {'singular': True, 'raised': type(e).__name__, 'weights_underflow': True}, out
        fails.append((f'raises:{type(e).__name__}', f'operator construction raises {e!r} on a mesh whose neighbourhoods all span space', {}))
        return fails, {'singular': True, 'raised': type(e).__name__}, out
    G = dense3(g)
    n = G.shape[1]
    if n != len(P):
        fails.append((f'shape:{opt["mode"]}', f'operator has {n} rows for {len(P)} graph vertices', {'n': n, 'vertices': len(P)}))
        return fails, {'n': n, 'span_all': bool(all(span)), 'n_nonspanning': 0, 'max_cond': 1.0}, out
    cond, kappa = conditioning(m, opt, W, n)
    finite_rows = np.isfinite(G).all(axis=(0, 2))
    spanning = np.array(span, bool)
    inscope = finite_rows & np.isfinite(cond) & (spanning if opt['moment'] else True)
    if opt.get('tiny'):
        # rows whose largest weight is (nearly) subnormal are outside: the weights themselves have lost their bits
        wmax = row_wmax(W, n)
        inscope = inscope & (wmax >= TINY_FLOOR)
        out['wmax'] = wmax
    condf = np.where(np.isfinite(cond), cond, 1.)
    rowabs = np.abs(np.where(np.isfinite(G), G, 0)).sum(axis=2).max(axis=0)      # (n,)
    info = {'n': n, 'span_all': bool(all(span)), 'n_nonspanning': int(n - sum(span)), 'max_cond': float(condf[inscope].max()) if inscope.any() else 1.0,
            'max_kappa': float(kappa.max())}
    if opt.get('tiny'):
        with np.errstate(all='ignore'):
            info['tiny'] = {'smallest row-maximum of the weights': float(wmax.min()) if n else None,
                            'largest row-maximum of the weights': float(wmax.max()) if n else None,
                            'rows in scope': int(inscope.sum()), 'rows': int(n)}
    if opt['moment'] and (spanning & finite_rows & ~np.isfinite(cond)).any():
        info['rows_singular_in_binary64'] = int((spanning & finite_rows & ~np.isfinite(cond)).sum())
    # clause 1: constants -> 0 (every variant); vertices of a non-spanning neighbourhood carry inf/nan and are skipped
    if not opt['moment'] and not (finite_rows | ((wmax < TINY_FLOOR) if opt.get('tiny') else False)).all():
        fails.append((f'nonfinite:{opt["mode"]}', 'operator without moment matrix has non-finite entries',
                      {'rows': np.where(~finite_rows)[0].tolist()[:5]}))
    gc = g
    if settle:
        gc = matrices_call(fd, opt, nv)
        info['first_call_differs_from_next'] = not np.array_equal(G, dense3(gc), equal_nan=True)
    if conv is None:
        conv = conv_any(fd, opt, data, nv, notes)
    info.update(notes)
    if guard is not None:
        info['data_as'] = {'dtype': str(data.dtype), 'shape': list(data.shape), 'c_contiguous': bool(data.flags.c_contiguous),
                           'f_contiguous': bool(data.flags.f_contiguous), 'writeable': bool(data.flags.writeable),
                           'columns': [f['kind'] + ('(integer-valued)' if f.get('integer_valued') else '') for f in fields]}
    held = data.astype(np.float64).reshape(pristine.shape)
    if not np.array_equal(held, pristine, equal_nan=True) or (guard is not None and (
            guard[0].tobytes() != guard[1] or (data.dtype, data.shape, data.strides) != guard[2:])):
        fails.append((f'argument-modified:{opt["mode"]}', 'the convenience function changed the data array it was given', {}))
    byhand = np.stack([x.dot(pristine[sel]) for x in g], axis=1)            # (n, 3, columns), first-call matrices
    byhand_c = byhand if gc is g else np.stack([x.dot(pristine[sel]) for x in gc], axis=1)
    shape_ok = conv.shape == byhand.shape
    colscale = np.maximum(np.abs(pristine).max(axis=0), 1e-300)
    worst = 0.
    exact_claimed = opt['moment'] and not semantic_normals(opt)
    for k, fld in enumerate(fields):
        amax = 0.
        if fld['kind'] == 'const':
            want = np.zeros((n, 3))
            scale = colscale[k]
        elif fld['kind'] == 'affine' and exact_claimed:
            a = np.array(fld['a'])
            amax = float(np.abs(a).max())
            want = np.tile(a, (n, 1))
            # elemental: femio computes the element centres in binary64 from the node positions (rounding of the order of
            # ulp(max|x|)), which acts like a perturbation of the field by |a|_1 ulp(max|x|)
            scale = colscale[k] + (float(np.abs(a).sum()) * geometry(m, opt)[1] if opt['mode'] == 'elemental' else 0.)
        else:
            continue          # the uncorrected operator (and the Neumann-corrected one) is not claimed to be exact
        # second term: femio applies the explicitly inverted moment matrix from the left, X (M a) with X = fl(inv(M)); the
        # left residual X M - I of an LU inverse is of the order 2^-52 cond(M)^2 (visible when kernel weights differing by
        # many orders of magnitude make M nearly singular although the neighbourhood spans space)
        unit = EPS * condf * (np.maximum(rowabs, 1e-300) * scale + condf * amax)
        for name, got in (('matrices', byhand[:, :, k]),) + ((('convenience', conv[:, :, k]),) if shape_ok else ()):
            err = np.abs(got - want).max(axis=1)
            with np.errstate(all='ignore'):
                r = np.where(inscope, err / unit, 0.)
            worst = max(worst, float(np.nanmax(r)) if len(r) else 0.)
            bad = np.where(inscope & ~(err <= CTOL * unit))[0]
            if len(bad):
                i = int(bad[0])
                fails.append((f'{fld["kind"]}:{opt["mode"]}:{"moment" if opt["moment"] else "plain"}',
                              f'{fld["kind"]} field: gradient at vertex {i} is {got[i].tolist()} instead of {want[i].tolist()} ({name})',
                              {'vertex': i, 'got': got[i].tolist(), 'want': want[i].tolist(), 'tol': float(CTOL * unit[i]),
                               'cond': float(condf[i]), 'kappa': float(kappa[i]), 'n_bad': int(len(bad)), 'field': fld}))
                break
    info['max_error_in_units_of_eps_cond_rowsum_scale'] = worst
    # clause 3: convenience = explicit matrices by hand, any field (all columns)
    ok = shape_ok and np.all((np.abs(conv - byhand_c) <= 1e-12 * np.maximum(rowabs, 1e-300)[:, None, None] * colscale[None, None, :])
                             | ~np.isfinite(byhand_c))
    if not ok:
        fails.append((f'convenience:{opt["mode"]}', 'convenience function differs from the explicit matrices applied by hand',
                      {'shape_conv': list(conv.shape), 'shape_byhand': list(byhand.shape),
                       'maxdiff': float(np.nanmax(np.abs(conv - byhand_c))) if shape_ok else None}))
    # metamorphic relation (stream translated): the operator of the translated mesh = the operator of the mesh before it
    if origin is not None:
        try:
            fd0 = fresh(origin)
            span0, _ = spanning_flags(fd0, origin, opt)
            G0 = dense3(matrices_call(fd0, opt, nv))
        except Exception as e:
            info['origin_raised'] = type(e).__name__
            G0 = None
        if G0 is not None and G0.shape == G.shape:
            both = inscope & np.isfinite(G0).all(axis=(0, 2)) & (np.array(span0, bool) if opt['moment'] else True)
            gmax = np.maximum(np.abs(np.where(np.isfinite(G0), G0, 0)).max(axis=(0, 2)), 1e-300)
            with np.errstate(all='ignore'):
                dG = np.abs(G - G0).max(axis=(0, 2))
                unit = EPS * (kappa + condf) * condf * gmax         # (cond^2: both explicit inverses, see clause 2)
                r = np.where(both, dG / unit, 0.)
            info['translation_difference_in_units_of_eps_kappa_cond'] = float(np.nanmax(r)) if len(r) else 0.
            if hex_volume_weights(m, opt):
                info['translation_relation'] = 'observation only (hex volumes: float32 kernel)'
            else:
                bad = np.where(both & ~(dG <= CTOL * unit))[0]
                if len(bad):
                    i = int(bad[0])
                    j = int(np.nanargmax(np.abs(G - G0).max(axis=0)[i]))
                    fails.append((f'translation:{opt["mode"]}:{"moment" if opt["moment"] else "plain"}',
                                  f'the operator of the translated mesh differs from the operator of the same mesh before the translation '
                                  f'(row {i}, column {j}: {G[:, i, j].tolist()} vs {G0[:, i, j].tolist()})',
                                  {'row': i, 'col': j, 'translated': G[:, i, j].tolist(), 'origin': G0[:, i, j].tolist(),
                                   'tol': float(CTOL * unit[i]), 'kappa': float(kappa[i]), 'cond': float(condf[i]), 'n_bad': int(len(bad))}))
    out.update(G=G, g=g, W=W, n=n, conv=conv, shape_ok=shape_ok, pairs=real_matrices.last_pairs, cond=condf, kappa=kappa,
               inscope=inscope, rowabs=rowabs, data=pristine, sel=sel, span=span, colscale=colscale)
    return fails, info, out


def oracle(ctx, m, opt, fields, fd=None, record=True, settle=False, origin=None):
    fails, info, _ = _evaluate(ctx, m, opt, fields, fd=fd, settle=settle, origin=origin)
    return fails, info


# ------------------------------------------------------------------ correspondence

def model_case(ctx, m, opt, W, fields_cols):
    nodal = opt['mode'] == 'nodal'
    toks = ['c15.op', '1' if nodal else '0', str(opt['n_hop']), '1' if opt['moment'] else '0',
            MG.enc_mesh(graph_mesh(m, opt))]
    toks.append(str(len(W)))
    for (i, j), v in sorted(W.items()):
        toks += [str(i), str(j), C.enc_rat(v)]
    toks.append(str(len(fields_cols)))
    for col in fields_cols:
        toks.append(C.enc_list(col, C.enc_rat))
    r = ctx.driver.ask(' '.join(toks))
    if not r.startswith('ok '):
        return None, r
    t = C.Toks(r[3:])
    n = t.nat()
    distinct, sumw = t.nat(), t.nat()
    dets = t.lst(t.nat)
    S = 2.0 ** -120
    rows = {}
    for i in range(n):
        for _ in range(t.nat()):
            j = t.nat()
            v = (int(t.tok()) * S, int(t.tok()) * S, int(t.tok()) * S)
            rows[(i, j)] = tuple(a + b for a, b in zip(rows.get((i, j), (0, 0, 0)), v))
    nf = t.nat()
    grads = [[[int(t.tok()) * S for _ in range(3)] for _ in range(n)] for _ in range(nf)]
    assert t.done()
    return {'n': n, 'distinct': distinct, 'sumw': sumw, 'dets': dets, 'rows': rows, 'grads': grads}, r[:80]


def correspond(ctx, m, opt, fd, fields, caseinfo, pre=None):
    """model (exact rationals, Lean driver) vs the real matrices and the convenience function.  `pre` = arrays of an
    evaluation already made on this object (`_evaluate`), otherwise the calls are made here.  Returns what the live
    sequences compare later results with: {'grads': (n, 3, fields) model gradients, 'ok_rows', 'tol': (n, fields)}"""
    P_all, sel = carriers(m, opt)
    nv = int(sel.sum())
    nf = len(fields)
    if pre:
        g, W, n, pairs, span = pre['g'], pre['W'], pre['n'], pre['pairs'], pre['span']
        data = pre['data'][:, :nf]
        conv = pre['conv'][:, :, :nf] if pre['shape_ok'] else pre['conv']
    else:
        span, _ = spanning_flags(fd, m, opt)
        try:
            g, W, n = real_matrices(fd, opt, nv)
        except Exception:
            ctx.count('stream:real-raised')
            return None
        pairs = real_matrices.last_pairs
        data = field_matrix(m, opt, fields, P_all)[:, :nf]
        conv = None
    if nv != n:
        ctx.disagree('vertex count (operator rows vs graph vertices of the generated mesh)', caseinfo, n, nv)
        return None
    cols = [[float(x) for x in data[sel, k]] for k in range(nf)]
    mod, raw = model_case(ctx, m, opt, W, cols)
    if mod is None:
        ctx.disagree('model rejected the case', caseinfo, 'ok', raw)
        return None
    if mod['n'] != n:
        ctx.disagree('vertex count', caseinfo, n, mod['n'])
        return None
    if not mod['distinct'] or (not opt['moment'] and not mod['sumw']):
        ctx.count('stream:guard-false')
        ctx.notes.append(f'guard false (coincident vertices or zero weight sum) in {caseinfo}')
        return None
    # neighbour sets: model (own incidence -> adjacency -> n-hop) vs the real n-hop adjacency
    mp = {k for k in mod['rows'] if k[0] != k[1]}
    if mp != pairs:
        d = sorted(mp ^ pairs)
        ctx.disagree('n-hop neighbour sets', {**caseinfo, 'first_differing_pairs': d[:5], 'n_differing': len(d)},
                     len(pairs), len(mp))
        return None
    # the exact det test of the model must agree with the exact rank test of the harness (weights positive)
    if opt['moment'] and [bool(d) for d in mod['dets']] != span:
        ctx.disagree('det M_i != 0 (model) vs neighbourhood spans space (exact rank)', caseinfo, span, mod['dets'])
    G = dense3(g)
    cond, kappa = conditioning(m, opt, W, n)
    Mg = np.zeros_like(G)
    for (i, j), v in mod['rows'].items():
        Mg[:, i, j] = v
    ok_rows = (np.array([bool(d) for d in mod['dets']]) if opt['moment'] else np.ones(n, bool)) & np.isfinite(cond)
    cond = np.where(np.isfinite(cond), cond, 1.)
    # 1e-9 relative to the row scale (np.linalg.inv / sqrt / exp accuracy) + the conditioning of the differences: femio forms
    # x_j - x_i (elemental: after computing the element centres) in binary64, rounding of the order of ulp(max|x|) / |d_ij|
    # and the explicit inverse of an ill-conditioned moment matrix (error of the order 2^-52 cond^2 relative to the row scale)
    rel = (1e-9 + CTOL * EPS * (kappa + cond)) * cond
    scale = np.maximum(np.abs(Mg).max(axis=(0, 2)), 1e-300)
    tol = rel * scale
    with np.errstate(all='ignore'):
        err = np.abs(G - Mg).max(axis=(0, 2))
    bad = np.where(ok_rows & ~(err <= tol))[0]
    if len(bad):
        i = int(bad[0])
        j = int(np.nanargmax(np.abs(G - Mg).max(axis=0)[i]))
        ctx.disagree('grad_adjs entry', {**caseinfo, 'row': i, 'col': j, 'n_bad_rows': int(len(bad))},
                     G[:, i, j].tolist(), Mg[:, i, j].tolist())
        return None
    ctx.count('compared:matrix-rows', int(ok_rows.sum()))
    ctx.count('compared:matrix-entries', int((Mg != 0).any(axis=0)[ok_rows].sum()) * 3)
    # convenience function vs the model's applyRow
    if conv is None:
        conv = conv_call(fd, opt, data.copy(), nv)            # (n, 3, f)
    if conv.shape != (n, 3, nf):
        ctx.disagree('convenience function shape', caseinfo, list(conv.shape), [n, 3, nf])
        return None
    mgs = np.stack([np.array(mod['grads'][k]) for k in range(nf)], axis=2)       # (n, 3, f)
    rowabs = np.abs(Mg).sum(axis=2).max(axis=0)
    fs = np.maximum(np.abs(data[sel]).max(axis=0), 1e-300)                        # (f,)
    t2 = (rel * np.maximum(rowabs, 1e-300))[:, None] * fs[None, :]                # (n, f)
    for k, fld in enumerate(fields):
        with np.errstate(all='ignore'):
            e2 = np.abs(conv[:, :, k] - mgs[:, :, k]).max(axis=1)
        bad = np.where(ok_rows & ~(e2 <= t2[:, k]))[0]
        if len(bad):
            i = int(bad[0])
            ctx.disagree('convenience function value', {**caseinfo, 'vertex': i, 'field': fld},
                         conv[i, :, k].tolist(), mgs[i, :, k].tolist())
            return None
    ctx.count('compared:gradient-values', int(ok_rows.sum()) * nf)
    # literal evaluation of the model's convenience function on small cases
    # (a fact proved once and for all by C15_convenience: sampled, less often in the quick tier)
    if n <= 14 and ctx.rng.random() < (.2 if ctx.quick else .5):
        toks = ['c15.conv', '1' if opt['mode'] == 'nodal' else '0', str(opt['n_hop']), '1' if opt['moment'] else '0',
                MG.enc_mesh(graph_mesh(m, opt)), str(len(W))]
        for (i, j), v in sorted(W.items()):
            toks += [str(i), str(j), C.enc_rat(v)]
        toks.append(C.enc_list(cols[-1], C.enc_rat))
        r = ctx.driver.ask(' '.join(toks))
        vals = [int(x) * 2.0 ** -120 for x in r.split()[1:]]
        lit = np.array(vals).reshape(n, 3)
        if not np.allclose(lit[ok_rows], mgs[:, :, -1][ok_rows], rtol=1e-12, atol=1e-30):
            ctx.disagree('model: spatialGradients vs applyRow', caseinfo, lit.tolist(), mgs[:, :, -1].tolist())
        ctx.count('compared:literal-spatialGradients')
    return {'grads': mgs, 'ok_rows': ok_rows, 'tol': t2}


# ------------------------------------------------------------------ generation

def gen_mesh(ctx, kind, big):
    rnd = ctx.rng
    while True:
        m = MG.gen_geometric(rnd, kind=kind, max_cells=3 if big else 2, unref=False, voids=rnd.random() < .3)
        if len(m['blocks']) == 1 and len(m['nodes']) <= (64 if big else 36):
            return m


# --- graded meshes (round-4 class J): cell sizes differing by GRADE_RATIOS within ONE mesh.  "irregular and graded" is in
# the property's quantifier; gen_geometric's meshes are uniform grids under one affine map (every cell the same size).
GRADE_RATIOS = [3, 10, 30, 100, 300, 1000]
AXIS_PATTERNS = ['down', 'up', 'vee', 'uniform', 'thin']


def axis_widths(pattern, n, ratio):
    """exact widths (multiples of 2^-16) of the n cells along one axis: geometric progression from 1 down to 1 / ratio
    ('down'; 'up' = reversed), fine in the middle ('vee': boundary layer inside), all 1 ('uniform'), all 1 / ratio ('thin':
    every cell anisotropic by `ratio`)"""
    if pattern == 'vee' and n < 3:
        pattern = 'down'
    if n < 2 and pattern in ('down', 'up'):
        pattern = 'thin'
    if pattern == 'uniform':
        w = [1.] * n
    elif pattern == 'thin':
        w = [1. / ratio] * n
    elif pattern == 'vee':
        w = [float(ratio) ** -(1 - abs(2 * k / (n - 1) - 1)) for k in range(n)]
    else:
        w = [float(ratio) ** -(k / (n - 1)) for k in range(n)]
        if pattern == 'up':
            w.reverse()
    return [F(max(1, round(x * 65536)), 65536) for x in w]


def gen_graded(rnd, kind, ratio, max_cells=3, max_vertices=64):
    """conforming brick of hexahedra (kind 'hex') or of their Kuhn split into 6 tetrahedra each ('tet') whose cell widths
    vary by `ratio` within the mesh: three times out of four graded along all three axes towards a corner / an inner layer
    (cell VOLUMES then differ by ratio^3, moment-matrix determinants under volume weighting by ratio^9), otherwise every
    axis draws its own pattern (at least one graded: anisotropic cells, thin layers); optional jitter of every node by up
    to 1/8 of the smallest adjacent cell width along each axis, optional random rational affine map (sheared), arbitrary ids
    and storage orders exactly as gen_geometric.  Coordinates are dyadic rationals (exact in binary64)."""
    while True:
        dims = [rnd.randint(2, max_cells) for _ in range(3)]
        if kind == 'tet' and rnd.random() < .25:          # (a single layer of hexahedra has coplanar element centres)
            dims[rnd.randrange(3)] = 1
        nv = ((dims[0] + 1) * (dims[1] + 1) * (dims[2] + 1))
        if nv <= max_vertices:
            break
    if rnd.random() < .75:
        pats = [rnd.choice(['down', 'up', 'down', 'up', 'down', 'up', 'vee']) for _ in range(3)]
    else:
        while True:
            pats = [rnd.choice(AXIS_PATTERNS) for _ in range(3)]
            if any(p != 'uniform' for p in pats):
                break
    widths = [axis_widths(p, n, ratio) for p, n in zip(pats, dims)]
    coord = [[sum(w[:k], F(0)) for k in range(len(w) + 1)] for w in widths]
    local = [[min(w[max(k - 1, 0)], w[min(k, len(w) - 1)]) for k in range(len(w) + 1)] for w in widths]
    nx, ny, nz = dims

    def idx(x, y, z):
        return x + (nx + 1) * (y + (ny + 1) * z)
    jittered = rnd.random() < .6
    grid = {}
    for z in range(nz + 1):
        for y in range(ny + 1):
            for x in range(nx + 1):
                g = (x, y, z)
                grid[idx(x, y, z)] = tuple(coord[a][g[a]] + (F(rnd.randint(-2, 2), 16) * local[a][g[a]] if jittered else 0)
                                           for a in range(3))
    affine = rnd.random() < .5
    if affine:
        while True:
            A = [[F(rnd.randint(-4, 4), rnd.choice([1, 2, 4])) for _ in range(3)] for _ in range(3)]
            if MG.det3(*A) > 0:
                break
    else:
        A = [[F(int(r == c)) for c in range(3)] for r in range(3)]
    t = [F(rnd.randint(-8, 8), 2) for _ in range(3)]
    pts = {k: tuple(sum(A[r][c] * q[c] for c in range(3)) + t[r] for r in range(3)) for k, q in grid.items()}
    elems = []
    for z in range(nz):
        for y in range(ny):
            for x in range(nx):
                c = [idx(x, y, z), idx(x + 1, y, z), idx(x + 1, y + 1, z), idx(x, y + 1, z),
                     idx(x, y, z + 1), idx(x + 1, y, z + 1), idx(x + 1, y + 1, z + 1), idx(x, y + 1, z + 1)]
                elems += [('tet', [c[i] for i in tt]) for tt in MG.KUHN] if kind == 'tet' else [('hex', c)]
    assert all(MG.signed(ty, [pts[n] for n in c]) > 0 for ty, c in elems)       # det A > 0, jitter <= 1/8 cell: never flips
    used = sorted(pts)
    id_list, id_style = MG.random_ids(rnd, len(used))
    rnd.shuffle(id_list)
    ids = dict(zip(used, id_list))
    keys, order = MG.order_ids(rnd, used, ids)
    eid_list, _ = MG.random_ids(rnd, len(elems), rnd.choice(['dense', 'sparse', 'large']))
    rnd.shuffle(eid_list)
    rows = [(e, [ids[n] for n in c]) for (_, c), e in zip(elems, eid_list)]
    rnd.shuffle(rows)
    sizes = [float(w) for a in range(3) for w in widths[a]]
    return {'kind': kind, 'order': order, 'id_style': id_style, 'jittered': jittered, 'affine': affine, 'n_unref': 0,
            'nodes': [(ids[k], pts[k]) for k in keys], 'blocks': {kind: rows},
            'graded': {'ratio': ratio, 'axes': pats, 'cells': dims, 'largest / smallest cell width': max(sizes) / min(sizes)}}


def gen_fields(rnd):
    def r(scale):
        return float(F(rnd.randint(-64 * scale, 64 * scale), 64))
    return [{'kind': 'const', 'c': rnd.choice([1.0, -3.5, 1e6, 1e-6, 12345.678])},
            {'kind': 'affine', 'a': [r(4), r(4), r(4)], 'b': r(50)},
            {'kind': 'affine', 'a': [0.0, 0.0, rnd.choice([1.0, -2.0])], 'b': 0.0},
            {'kind': 'random', 'seed': rnd.randint(0, 10**6)}]


ALPHAS = [1.0, 0.5, 2.0, 0.125, 3.0]


def gen_opts(ctx, combos):
    rnd = ctx.rng
    for mode, n_hop, kernel, moment in combos:
        yield {'mode': mode, 'n_hop': n_hop, 'kernel': kernel, 'moment': moment,
               'consider_volume': rnd.random() < .5, 'effective': rnd.random() < .6,
               'alpha': rnd.choice(ALPHAS[:4]), 'fseed': rnd.randint(0, 10**6), 'data_as': gen_data_as(rnd)}


# absolute length scales of the stream `scaled` (cell size in coordinate units; the main stream has cell size ~1): the
# property is scale free (the gradient of a.x + b is a in every length unit), absolute tolerances in the code are not
SCALES = [F(1, 1024), F(500), F(2000)]


def scaled(m, s):
    """the same mesh in another length unit: every coordinate multiplied by the exact rational s"""
    out = dict(m)
    out['nodes'] = [(i, tuple(x * s for x in p)) for i, p in m['nodes']]
    return out


def scale_opt(opt, s):
    """the similar problem at scale s: exp(-alpha d) and exp(-alpha d^2 / 2) keep their values when alpha is divided by s
    resp. s^2, so the weights (up to the common factor s^3 of the volumes) and the condition numbers do not change"""
    out = dict(opt)
    out['scale'] = str(s)
    out['alpha_unit'], out['length'] = opt['alpha'], float(s)
    out['alpha'] = opt['alpha'] / float(s) ** (2 if opt['kernel'] == 'gauss' else 1)
    return out


def remap(rnd, m):
    """new node positions for the same mesh object: an orientation-preserving rational affine map that is not the
    identity in any direction (diagonal entries != 1), so that cells stay valid and neighbourhoods keep spanning space"""
    while True:
        B = [[F(rnd.choice([1, 3, 3, 6, 8]), 4) if r == c else F(rnd.randint(-1, 1), 4) for c in range(3)] for r in range(3)]
        if MG.det3(*B) > 0 and all(B[r][r] != 1 for r in range(3)):
            break
    t = [F(rnd.randint(-8, 8), 2) for _ in range(3)]
    out = dict(m)
    out['nodes'] = [(i, tuple(sum(B[r][c] * p[c] for c in range(3)) + t[r] for r in range(3))) for i, p in m['nodes']]
    return out


def set_positions(fd, m2):
    """replace the node positions of the SAME FEMData object through the public setter"""
    fd.nodes.data = np.array([[float(v) for v in p] for _, p in m2['nodes']])


# --- stream translated: the mesh far from the origin

OFFSET_MAGNITUDES = [1e3, 1e4, 1e5, 1e6, 1e7]          # in units of the element size
UNITS = [F(1), F(1, 3), F(3, 10), F(7, 5)]              # length unit of the mesh (non-dyadic: coordinates are not exact floats)


def element_size(m):
    pos = dict(m['nodes'])
    d = sorted(float(sum((a - b) ** 2 for a, b in zip(pos[c[0]], pos[c[1]]))) ** .5 for b_ in m['blocks'].values() for _, c in b_)
    return d[len(d) // 2]


def gen_offset(rnd, mag, h):
    """an offset of about mag element sizes: isotropic / anisotropic (projected map coordinates: two large horizontal
    components of different size and a small height) / one direction only; integer (exactly representable sums) or with
    a non-dyadic fractional part (translated coordinates are rounded)"""
    style = rnd.choice(['iso', 'aniso', 'aniso', 'axis'])
    L = mag * h
    if style == 'iso':
        t = [rnd.choice([-1, 1]) * L * rnd.uniform(.4, 1) for _ in range(3)]
    elif style == 'aniso':
        t = [L * rnd.uniform(.05, .2), rnd.choice([-1, 1]) * L * rnd.uniform(.5, 1), L * rnd.uniform(1e-5, 1e-3)]
        rnd.shuffle(t)
    else:
        t = [0., 0., 0.]
        t[rnd.randrange(3)] = rnd.choice([-1, 1]) * L * rnd.uniform(.5, 1)
    frac = rnd.random() < .5
    T = tuple(F(int(x)) + (F(rnd.randint(1, 2999), 3000) if frac and x else 0) for x in t)
    return T, style + ('+fraction' if frac else '+integer')


def translated(m, T, unit=F(1)):
    """the mesh in the length unit `unit`, translated by T, with every coordinate rounded to binary64: exactly the mesh femio
    is given (the rationals of the result ARE the float coordinates, so the exact model and the exact rank test apply)"""
    out = dict(m)
    out['nodes'] = [(i, tuple(F(float(x * unit + t)) for x, t in zip(p, T))) for i, p in m['nodes']]
    return out


# --- stream kernel-scale: the ABSOLUTE length unit of the mesh together with the kernel options (round 6).  The stream `scaled`
# divides alpha by the scale, so that the kernel weights never change; here alpha is what the caller passes (mostly the default
# 1.0) and the mesh is given in a length unit in which alpha d (exp) resp. alpha d^2 / 2 (gauss) of the NEAREST neighbours is
# E = 110 .. 600, i.e. the largest weights of a vertex are e^-E = 1e-48 .. 1e-261 (millimetre coordinates with 250 mm elements and
# kernel='exp': 1e-109).  The operator row of a vertex does not depend on the common factor of its weights
# (`C15_row_weight_scale`), det M_i is multiplied by its cube (below 1e-308 from weights of 1e-103 on: `C15_det_underflow_counterexample`).
TINY_EXPONENTS = [250, 400, 600, 110]
ROTATIONS = [[[F(1), F(0), F(0)], [F(0), F(1), F(0)], [F(0), F(0), F(1)]],
             [[F(2, 3), F(-1, 3), F(2, 3)], [F(2, 3), F(2, 3), F(-1, 3)], [F(-1, 3), F(2, 3), F(2, 3)]],
             [[F(2, 7), F(3, 7), F(6, 7)], [F(3, 7), F(-6, 7), F(2, 7)], [F(6, 7), F(2, 7), F(-3, 7)]]]          # exact rotations


def own_neighbours(m, mode):
    """the 1-hop graph by its definition (own computation): nodal = nodes sharing an element, elemental = elements sharing a node"""
    (t, rows), = m['blocks'].items()
    if mode == 'nodal':
        index = {i: k for k, (i, _) in enumerate(m['nodes'])}
        groups = [[index[x] for x in c] for _, c in rows]
        nb = [set() for _ in m['nodes']]
    else:
        by_node = {}
        for k, (_, c) in enumerate(rows):
            for x in c:
                by_node.setdefault(x, []).append(k)
        groups = list(by_node.values())
        nb = [set() for _ in rows]
    for ks in groups:
        for a in ks:
            nb[a].update(ks)
    for k, s_ in enumerate(nb):
        s_.discard(k)
    return nb


def nearest_distance(m, mode):
    """max over the graph vertices of the distance to their nearest 1-hop neighbour (None when a vertex has no neighbour)"""
    P = np.array([[float(x) for x in p] for p in positions_exact(m, mode)])
    nb = own_neighbours(m, mode)
    if not all(nb):
        return None
    return max(min(float(np.linalg.norm(P[j] - P[k])) for j in nb[k]) for k in range(len(nb)))


def sig3(x):
    return float(f'{x:.3g}')


def tiny_alpha(kernel, d, E):
    """alpha (3 significant digits) for which the kernel weight at distance d is about e^-E"""
    return sig3(E / d if kernel == 'exp' else 2 * E / d ** 2)


def gen_kernel_scale(rnd, kind, lead_mode, lead_kernel, E):
    """regular brick (cubes of one size, or their Kuhn split; optional voids) under an exact rotation, optionally with a jitter of
    at most 1 / (8 E) of the cell size (so that the weights of the equidistant nearest neighbours stay within e^(+-1/4) of each
    other and the moment matrices well conditioned), in the length unit for which the DEFAULT alpha = 1 gives the nearest
    neighbours of the lead graph the kernel weight e^-E; ids / storage orders as everywhere.  Returns (mesh, nearest distance per mode)"""
    while True:
        m = MG.gen_geometric(rnd, kind=kind, max_cells=3, jitter=False, voids=rnd.random() < .25, unref=False, affine=False)
        ext = [max(p[k] for _, p in m['nodes']) - min(p[k] for _, p in m['nodes']) for k in range(3)]
        if len(m['blocks']) == 1 and 18 <= len(m['nodes']) <= 64 and (lead_mode == 'nodal' or min(ext) >= 2) \
                and nearest_distance(m, 'elemental') is not None:
            break
    R = rnd.choice(ROTATIONS)
    jit = rnd.random() < .5
    d_unit = nearest_distance(m, lead_mode)
    h = E / d_unit if lead_kernel == 'exp' else (2 * E) ** .5 / d_unit
    s = F(sig3(h)).limit_denominator(1000)
    nodes = []
    for i, p in m['nodes']:
        q = tuple(x + (F(rnd.randint(-2, 2), 16 * E) if jit else 0) for x in p)
        nodes.append((i, tuple(F(float(s * sum(R[r][c] * q[c] for c in range(3)))) for r in range(3))))
    out = dict(m)
    out.update(nodes=nodes, jittered=jit, affine=R is not ROTATIONS[0])
    out['kernel_scale'] = {'cell size': float(s), 'rotated': R is not ROTATIONS[0], 'jitter': 'at most 1 / (8 E) of the cell size' if jit else 'none'}
    return out, {mode: nearest_distance(out, mode) for mode in ('nodal', 'elemental')}


# --- live sequences: every option combination of a mesh on ONE object

USER_NODAL, USER_ELEMENTAL = 'user_nodal_field', 'user_elemental_field'


def live_object(m, storage=None):
    """a freshly built object that carries user data (one nodal and one elemental variable)"""
    fd = fresh(m, storage)
    rng = np.random.default_rng(len(m['nodes']))
    MG.quiet(fd.nodal_data.update_data, fd.nodes.ids, {USER_NODAL: rng.normal(size=(len(fd.nodes.ids), 2))})
    MG.quiet(fd.elemental_data.update_data, fd.elements.ids, {USER_ELEMENTAL: rng.normal(size=(len(fd.elements.ids), 1))})
    return fd


def user_snapshot(fd):
    """the user's data on the object: ids, coordinates, connectivity, the two user variables"""
    snap = {'node ids': np.asarray(fd.nodes.ids).tobytes(), 'coordinates': np.asarray(fd.nodes.data).tobytes()}
    for t, e in fd.elements.items():
        snap[f'element ids ({t})'] = np.asarray(e.ids).tobytes()
        snap[f'connectivity ({t})'] = np.asarray(e.data).tobytes()
    snap['nodal variable'] = np.asarray(fd.nodal_data.get_attribute_data(USER_NODAL)).tobytes() if USER_NODAL in fd.nodal_data else None
    snap['elemental variable'] = (np.asarray(fd.elemental_data.get_attribute_data(USER_ELEMENTAL)).tobytes()
                                  if USER_ELEMENTAL in fd.elemental_data else None)
    return snap


class Held:
    """class D of the lessons: every array RETURNED by an earlier call on an object (the array of the convenience function; data /
    row / col of the three explicit matrices) is kept - the very object, as a caller keeps it - together with a bit-exact
    snapshot, and compared after every later call.  A held array that no longer equals its snapshot within the tolerance of the
    clause 'convenience = explicit matrices' (1e-12 row scale x field scale; index arrays: exactly) no longer holds the gradients
    that were returned for ITS field: failure.  Bits changed within that tolerance: counted as an observation only."""

    def __init__(self):
        self.items = []

    def add(self, step, arr, what, tol):
        if isinstance(arr, np.ndarray) and arr.size:
            self.items.append({'step': step, 'what': what, 'array': arr, 'bytes': arr.tobytes(), 'copy': arr.copy(), 'tol': tol})

    def add_out(self, step, out):
        """what one evaluated step (`_evaluate`) got back from femio"""
        if out.get('conv') is not None and out.get('shape_ok'):
            self.add(step, out['conv'], 'array returned by the convenience function',
                     1e-12 * np.maximum(out['rowabs'], 1e-300)[:, None, None] * out['colscale'][None, None, :])
        for axis, x in zip('xyz', out.get('g') or ()):
            for part in ('data', 'row', 'col'):
                a = getattr(x, part, None)
                if isinstance(a, np.ndarray) and a.size:
                    with np.errstate(all='ignore'):
                        big = float(np.nanmax(np.abs(np.where(np.isfinite(a), a, 0)))) if part == 'data' else 0.
                    self.add(step, a, f'.{part} of the explicit {axis} matrix', 1e-12 * big)

    def check(self, step, ctx=None):
        fails = []
        for it in self.items:
            a = it['array']
            if a.tobytes() == it['bytes']:
                continue
            with np.errstate(all='ignore'):
                same = (a == it['copy']) | (np.abs(a - it['copy']) <= it['tol'])
                if a.dtype.kind == 'f':
                    same = same | (np.isnan(a) & np.isnan(it['copy']))
            if np.all(same):
                if ctx is not None:
                    ctx.count('held results:bits changed within the tolerance (observation only)')
                continue
            with np.errstate(all='ignore'):
                d = float(np.nanmax(np.abs(a.astype(float) - it['copy'].astype(float))))
            fails.append((f'earlier-result-modified:{"convenience" if "convenience" in it["what"] else "matrices"}',
                          f'the {it["what"]} at step {it["step"]} - still held by the caller - was changed by the call of step {step}: '
                          f'it no longer holds the gradients that were returned', {'returned at step': it['step'], 'changed by step': step,
                                                                                  'maxdiff': d, 'entries changed': int((~same).sum())}))
            break
        return fails


def change_one(rnd, m, opt):
    """the same call with the VALUE of exactly one keyword changed (the names of the keywords that are passed stay the same
    whenever the keyword was passed before)"""
    second_order = bool(opt.get('order1'))
    out = dict(opt)
    unit_alpha = opt.get('alpha_unit', opt['alpha'])         # alpha in units of the mesh's length scale (stream scaled)
    keys = ['n_hop', 'kernel', 'moment', 'moment', 'consider_volume', 'consider_volume', 'data_as']
    if opt['kernel'] is not None:
        keys += ['alpha', 'alpha']
    if not second_order:
        keys += ['mode']
        if opt['mode'] == 'nodal':
            keys += ['effective', 'effective', 'o1kw', 'normals']
        elif opt['moment']:
            keys += ['normals']
    if any(t == 'hex2' for t in m['blocks']) or opt.get('no_volume'):
        keys = [k for k in keys if k != 'consider_volume']          # femio has no hex2 volume / see stream translated
    k = rnd.choice(keys)
    if k == 'n_hop':
        out['n_hop'] = rnd.choice([h for h in (1, 2, 3) if h != opt['n_hop']])
    elif k == 'kernel':
        out['kernel'] = rnd.choice([x for x in KERNELS if x != opt['kernel']])
    elif k == 'alpha':
        # (gauss: up to 2 only, so that exp(-alpha d^2 / 2) of the farthest 3-hop neighbours does not underflow more often)
        out['alpha_unit'] = rnd.choice([a for a in (ALPHAS[:4] if opt['kernel'] == 'gauss' else ALPHAS) if a != unit_alpha])
    elif k in ('moment', 'consider_volume', 'effective'):
        out[k] = not opt[k]
    elif k == 'o1kw':
        out['o1kw'] = not opt.get('o1kw', False)
    elif k == 'data_as':          # the same call with the field handed in as another kind of array (dtype / layout / shape)
        out['data_as'] = gen_data_as(rnd, 0. if not opt.get('data_as') else .2)
    elif k == 'mode':
        out['mode'] = 'elemental' if opt['mode'] == 'nodal' else 'nodal'
        out.pop('o1kw', None)
        if out.get('normals') is True:
            out['normals'] = None
    else:       # normals: None / False (no effect), True (nodal only: femio's elemental variant raises on every mesh), user array
        cur = opt.get('normals', 'absent')
        vals = [None, False, ['array', rnd.randint(0, 999)]] + ([True] if opt['mode'] == 'nodal' else [])
        out['normals'] = rnd.choice([v for v in vals if v != cur])
    if opt.get('tiny') and k in ('kernel', 'alpha', 'mode'):
        # stream kernel-scale: alpha in units of the nearest-neighbour distance of the graph in question: the weight of the
        # nearest neighbours is e^-E with another E of the list (1.0 = the default, whatever E it gives, when it keeps E <= 650)
        if out['kernel'] is not None:
            d = opt['tiny']['d'][out['mode']]
            E = rnd.choice([e for e in TINY_EXPONENTS if e != opt['tiny'].get('E')])
            e1 = d if out['kernel'] == 'exp' else d * d / 2
            out['alpha'] = 1.0 if 100 <= e1 <= 650 and rnd.random() < .5 else tiny_alpha(out['kernel'], d, E)
            out['tiny'] = {**opt['tiny'], 'E': round(out['alpha'] * e1)}
        out.pop('alpha_unit', None)
    elif k in ('kernel', 'alpha'):
        out['alpha'] = min(out.get('alpha_unit', unit_alpha), 2.0 if out['kernel'] == 'gauss' else 9.) \
            / opt.get('length', 1.) ** (2 if out['kernel'] == 'gauss' else 1)
    out['changed'] = k
    return out


def gen_steps(rnd, m, opts, n_extra):
    """the history of one live object: the option combinations of the mesh in shuffled order, each followed by value-only
    changes of single keywords and by exact repeats of earlier calls; the spelling of every call is drawn too"""
    base = [dict(o) for o in opts]
    rnd.shuffle(base)
    steps = []
    extra = [len(base) * k // max(n_extra, 1) for k in range(n_extra)]          # after which base option an extra step comes
    for b, o in enumerate(base):
        steps.append(o)
        for _ in range(extra.count(b)):
            r = rnd.random()
            if r < .2 and len(steps) > 1:
                s = dict(rnd.choice(steps[:-1]))
                s['changed'] = 'repeat of an earlier call'
            elif r < .3:
                s = dict(steps[-1])
                s['changed'] = 'repeat'
            else:
                s = change_one(rnd, m, steps[-1])
                if rnd.random() < .35:          # A, B, A: back to the value before
                    steps.append(s)
                    s = dict(steps[-2])
                    s['changed'] = 'back to the previous value'
            steps.append(s)
    for s in steps:
        s['style'] = rnd.choice(['explicit', 'explicit', 'explicit', 'minimal', 'positional'])
        s['conv_first'] = rnd.random() < .5
    return steps


def run_sequence(ctx, m, steps, fields, ref=None, count=True):
    """all steps on ONE live object, nothing cleared or rebuilt in between.  After every step: the three clauses of the
    property on the live object (`_evaluate`: explicit matrices by hand = clause 3 / (a)), the result of the convenience
    function compared (b) with the same call on a freshly built equal object and (c) with the exact model (`ref`, computed
    beforehand on fresh objects so that the history of the live object is not disturbed; computed on demand in replays),
    the data array and the user data of the object compared with their snapshots.  Returns (index of the failing step or
    None, failures, info of the last evaluated step)"""
    ref = {} if ref is None else ref
    live = live_object(m, steps[0].get('storage') if steps else None)
    snap0 = user_snapshot(live)
    info = {}
    nf = len(fields)
    held = Held()
    for k, opt in enumerate(steps):
        fails, info, out = _evaluate(ctx, m, opt, fields, fd=live)
        fails += held.check(k, ctx if count else None)
        if count and held.items:
            ctx.count('sequence:arrays returned by earlier calls compared bit for bit after a later call', len(held.items))
        held.add_out(k, out)
        changed = [name for name, v in user_snapshot(live).items() if v != snap0.get(name)]
        if changed:
            fails.append((f'user-data-modified:{changed[0].split(" (")[0]}', f'the call changed the {", ".join(changed)} of the object', {}))
        if count:
            ctx.count('sequence:steps')
            ch = opt.get('changed')
            ctx.count('sequence:step kind:' + ('option combination of the mesh' if ch is None else ch if ch.startswith(('repeat', 'back'))
                                               else 'value of one keyword changed: ' + ch))
            ctx.count('sequence:call spelled:' + opt.get('style', 'explicit'))
        if 'conv' in out and out['shape_ok']:
            key = semkey(opt)
            r = ref.get(key)
            if r is None:
                f2, i2, o2 = _evaluate(ctx, m, {**opt, 'conv_first': False}, fields)
                r = ref[key] = {'conv': o2.get('conv'), 'G': o2.get('G'), 'fresh_fails': bool(f2)}
            tol = 1e-12 * np.maximum(out['rowabs'], 1e-300)[:, None, None] * out['colscale'][None, None, :]
            if r.get('conv') is not None and r['conv'].shape == out['conv'].shape:
                with np.errstate(all='ignore'):
                    d = np.abs(out['conv'] - r['conv'])
                if not np.all((d <= tol) | ~np.isfinite(r['conv'])):
                    fails.append((f'differs-from-fresh-object:{opt["mode"]}', 'the convenience function returns something else than the same call on a '
                                  'freshly built equal object', {'maxdiff': float(np.nanmax(d))}))
                elif r.get('G') is not None and r['G'].shape == out['G'].shape and not np.all(
                        (np.abs(out['G'] - r['G']) <= 1e-12 * np.maximum(np.abs(r['G']).max(axis=(0, 2)), 1e-300)[None, :, None]) | ~np.isfinite(r['G'])):
                    fails.append((f'matrices-differ-from-fresh-object:{opt["mode"]}', 'the explicit matrices differ from those of a freshly built '
                                  'equal object', {'maxdiff': float(np.nanmax(np.abs(out['G'] - r['G'])))}))
                if count:
                    ctx.count('sequence:compared with a freshly built object')
            mo = r.get('model')
            if mo is not None and mo['grads'].shape[0] == out['conv'].shape[0] and mo['grads'].shape[2] <= out['conv'].shape[2]:
                with np.errstate(all='ignore'):
                    e = np.abs(out['conv'][:, :, :mo['grads'].shape[2]] - mo['grads']).max(axis=1)           # (n, f)
                bad = mo['ok_rows'][:, None] & ~(e <= mo['tol'])
                if bad.any():
                    i, f = (int(x[0]) for x in np.where(bad))
                    fails.append((f'differs-from-model:{opt["mode"]}', f'the convenience function on the live object differs from the exact model '
                                  f'(vertex {i}, field {f}: {out["conv"][i, :, f].tolist()} vs {mo["grads"][i, :, f].tolist()})', {}))
                if count:
                    ctx.count('sequence:compared with the exact model')
        if fails:
            return k, fails, info
    return None, [], info


def sequence_case(ctx, m, opts, fields, ref, n_extra, stream):
    steps = gen_steps(ctx.rng, m, opts, n_extra)
    k, fails, info = run_sequence(ctx, m, steps, fields, ref)
    ctx.case(('sequence', repr(MG.to_json(m)), repr([sorted((a, repr(b)) for a, b in s.items()) for s in steps])),
             sample={'history': 'sequence on one live object', 'stream': stream, 'mesh': MG.describe(m), 'steps': len(steps),
                     'first steps': steps[:3]}, nontrivial=len(steps) > 1)
    ctx.count(f'sequence:histories ({stream})')
    if fails:
        caseinfo = {'mesh': MG.to_json(m), 'steps': steps[:k + 1], 'fields': fields,
                    'history': f'steps 0..{k} evaluated one after another on ONE object (convenience function and explicit matrices); '
                               'the last step fails'}
        fresh_bad = ref.get(semkey(steps[k]), {}).get('fresh_fails')
        for sig, what, obs in fails:
            if fresh_bad and not sig.startswith(('differs', 'matrices-differ', 'user-data', 'argument', 'earlier-result')):
                continue            # the same option already fails on a fresh object: reported there with the simpler replay
            ctx.fail('sequence:' + sig, f'step {k} of a sequence of calls on one object ({steps[k].get("changed", "next option combination")}): ' + what,
                     caseinfo, obs)


def history_case(ctx, m, m2, opt0, opt, fields, record=True):
    """stream `same-object`: operator (opt0; explicit matrices and / or convenience function) -> node positions replaced through
    `fem_data.nodes.data = ...` -> operator (opt) again on the SAME object, no cache cleared in between.  The property is stated
    for the mesh as it is now: constants -> 0, affine exactness and convenience = matrices are evaluated by the ordinary oracle
    against the NEW positions (what a fresh object built from them gives), and the matrices are compared with the model computed
    from the new positions.  Weights are whatever the real call uses (femio keeps the stored element volumes of the old
    positions: the theorems and the oracle hold for every positive weight function, and the model takes the captured weights;
    see `settle` in _evaluate)."""
    fd = fresh(m)
    first = opt0.get('first', 'matrices')
    held = Held()          # what the first call(s) returned stays in the caller's hands (it belongs to the OLD positions)
    try:
        if first in ('matrices', 'both'):
            held.add_out(0, {'g': matrices_call(fd, opt0)})
        if first in ('convenience', 'both'):
            P0, _ = carriers(m, opt0)
            r0 = conv_call(fd, opt0, field_matrix(m, opt0, fields, P0))
            with np.errstate(all='ignore'):
                held.add(0, r0, 'array returned by the convenience function', 1e-12 * float(np.nanmax(np.abs(np.where(np.isfinite(r0), r0, 0)))))
    except Exception as e:      # singular first geometry: the history still continues on the same object
        ctx.count(f'stream:same-object:first call raised {type(e).__name__}')
    set_positions(fd, m2)
    fails, info = oracle(ctx, m2, opt, fields, fd=fd, settle=bool(opt['consider_volume']))
    fails += held.check(1, ctx if record else None)
    fails = [('same-object:' + sig, 'after `nodes.data = new positions` on the same object: ' + what, obs)
             for sig, what, obs in fails]
    if not record:
        return fails, info
    caseinfo = {'mesh': MG.to_json(m), 'mesh2': MG.to_json(m2), 'opt0': opt0, 'opt': opt, 'fields': fields,
                'history': 'operator(opt0) on mesh; nodes.data = positions of mesh2; operator(opt) on the same object'}
    short = {'history': 'same-object', 'mesh': MG.describe(m), 'opt0': opt0, 'opt': opt}
    ctx.case(('same-object', repr(MG.to_json(m)), repr(MG.to_json(m2)), repr(sorted(opt0.items())), repr(sorted(opt.items()))),
             sample={**short, 'info': info}, nontrivial=info.get('n', 0) >= 4)
    ctx.count('stream:same-object:cases')
    ctx.count(f'stream:same-object:mode:{opt["mode"]}')
    ctx.count(f'stream:same-object:first call through:{first}')
    ctx.count('stream:same-object:first call ' + ('same options' if semkey(opt0) == semkey(opt) else 'other options'))
    if info.get('singular'):
        ctx.count('stream:same-object:non-spanning (outside the quantifier)')
    if info.get('first_call_differs_from_next'):
        ctx.count('stream:same-object:observation only: first volume-weighted operator after the update differs from the next '
                  'one (stored element volumes of the old positions, C19 family; not asserted)')
    for sig, what, obs in fails:
        ctx.fail(sig, what, caseinfo, obs)
    if ctx.driver is not None and not info.get('singular'):
        correspond(ctx, m2, opt, fd, fields, {**short, 'after': 'nodes.data = new positions (same object)'} if not fails else caseinfo)
    return fails, info


def one_case(ctx, m, opt, fields, origin=None, model=True):
    """one option combination on a freshly built object: oracle + correspondence with the model; returns what later calls on
    a live object are compared with"""
    desc = MG.describe(m)
    caseinfo = {'mesh': MG.to_json(m), 'opt': opt, 'fields': fields}
    if origin is not None:
        caseinfo['origin'] = MG.to_json(origin)
    short = {'mesh': desc, 'opt': opt}
    fd = fresh(m, opt.get('storage'))
    fails, info, out = _evaluate(ctx, m, opt, fields, fd=fd, origin=origin)
    nontrivial = info.get('n', 0) >= 4
    if opt.get('order1'):
        # distinct from the first-order stream only when a mid-edge node is stored before some corner node
        _, sel = carriers(m, opt)
        inter = not sel[:int(sel.sum())].all()
        ctx.count('order1:storage:' + ('corner-and-mid-edge-nodes-interleaved' if inter else 'corner-nodes-first'))
        ctx.count(f'stream:order1:{m["kind"]}')
        nontrivial = nontrivial and inter
    ctx.case((repr(MG.to_json(m)), repr(sorted(opt.items()))), sample={**short, 'info': info}, nontrivial=nontrivial)
    ctx.count(f'mesh:{m["kind"]}')
    ctx.count(f'ids:{m["order"]}')
    ctx.count(f'mode:{opt["mode"]}')
    ctx.count(f'n_hop:{opt["n_hop"]}')
    ctx.count(f'kernel:{opt["kernel"]}')
    ctx.count(f'moment:{opt["moment"]}')
    ctx.count(f'consider_volume:{opt["consider_volume"]}')
    ctx.count('length scale (cell size in coordinate units):' + opt.get('scale', '1'))
    ctx.count('geometry:' + ('graded+' if m.get('graded') else '') + ('jittered' if m.get('jittered') else 'affine' if m.get('affine') else 'grid'))
    if m.get('graded'):
        short['graded'] = m['graded']
        ctx.count(f'graded:cases:moment={opt["moment"]}:consider_volume={opt["consider_volume"]}')
    st = opt.get('storage')
    ctx.count('mesh storage:' + (f'ids {st["ids"]}, connectivity {st["connectivity"]}, coordinates {st["coordinates"]} {st["layout"]}'
                                 if st else 'int64 ids, binary64 C-ordered coordinates (default)'))
    da = opt.get('data_as')
    ctx.count('data array:dtype:' + (da['dtype'] if da else 'float64 (default)'))
    ctx.count('data array:layout:' + (da['layout'] if da else 'C (default)'))
    ctx.count('data array:shape:' + ({'nk': '(n, k)', 'n1': '(n, 1)', '1d': '(n,)'}[da['shape']] if da else '(n, k) (default)'))
    if info.get('one_dimensional_data_raised'):
        ctx.count('stream:1-D data array raised ' + info['one_dimensional_data_raised'] + ' (observation only; handed in as (n, 1))')
    for c in (info.get('data_as') or {}).get('columns', []):
        ctx.count('data array:non-default dtype, column:' + c)
    w = info.get('max_error_in_units_of_eps_cond_rowsum_scale')
    if w is not None:
        ctx.extra['calibration_max_error_over_eps_cond_rowsum_scale'] = max(
            w, ctx.extra.get('calibration_max_error_over_eps_cond_rowsum_scale', 0.))
    w = info.get('translation_difference_in_units_of_eps_kappa_cond')
    if w is not None and 'translation_relation' not in info:
        ctx.extra['calibration_max_translation_difference_over_eps_kappa_cond'] = max(
            w, ctx.extra.get('calibration_max_translation_difference_over_eps_kappa_cond', 0.))
    if info.get('singular'):
        ctx.count(f'stream:{"near-degenerate" if info.get("near_degenerate") else "non-spanning"}(real raised {info.get("raised")}; outside the quantifier)')
    elif opt['moment']:
        ctx.count('stream:all-vertices-spanning' if info['span_all'] else 'stream:some-vertices-non-spanning')
    for sig, what, obs in fails:
        ctx.fail(sig, what, caseinfo, obs)
    ref = {'conv': out.get('conv'), 'G': out.get('G'), 'fresh_fails': bool(fails)}
    if opt.get('tiny'):
        ctx.count('stream:kernel-scale:' + ('weights underflowed / moment matrix ill-conditioned (real raised; outside the quantifier)'
                                            if info.get('weights_underflow') else 'evaluated'))
        t = info.get('tiny')
        if t and t['rows']:
            ctx.count('stream:kernel-scale:rows in scope', t['rows in scope'])
            ctx.count('stream:kernel-scale:rows outside (weights (nearly) subnormal, cond not finite, neighbourhood not spanning)', t['rows'] - t['rows in scope'])
            if t['smallest row-maximum of the weights'] and t['smallest row-maximum of the weights'] > 0:
                ctx.count(f'stream:kernel-scale:largest weight of the worst vertex ~1e{round(math.log10(t["smallest row-maximum of the weights"]) / 50) * 50} (nearest 1e50)')
    if not model and opt.get('tiny'):
        ctx.count('stream:oracle only (kernel-scale: the exact model is invariant under the size of the weights)')
    elif not model:
        ctx.count('stream:oracle only (further option combinations on graded meshes)')
    elif ctx.quick and len(out.get('W', ())) > (MODEL_MAX_PAIRS_GRADED if m.get('graded') else MODEL_MAX_PAIRS_TRANSLATED
                                                if origin is not None else MODEL_MAX_PAIRS):
        # exact rational arithmetic on (nearly) complete graphs of > 100 vertices takes the driver 5 .. 20 s per case (graded
        # and translated meshes: weights, distances and offsets of very different magnitude make the rationals long, 1 - 2 ms
        # per neighbour pair; both are oracle streams - the exact model is blind to what they look for, see PARTIAL)
        ctx.count('stream:model skipped in the quick tier (more than ' + (
            f'{MODEL_MAX_PAIRS_GRADED} neighbour pairs on a graded mesh' if m.get('graded') else
            f'{MODEL_MAX_PAIRS_TRANSLATED} neighbour pairs on a translated mesh' if origin is not None else
            f'{MODEL_MAX_PAIRS} neighbour pairs') + '; oracle only)')
    elif ctx.driver is not None and not info.get('singular') and 'conv' in out:
        ref['model'] = correspond(ctx, m, opt, fd, out.get('fields', fields), short if not fails else caseinfo, pre=out)
    return ref


def mesh_cases(ctx, m, opts, fields, n_extra, stream, origin=None, oracle_only=(), model=True):
    """all option combinations drawn for one mesh: first each on its own freshly built object (oracle, model), then all of
    them - with value-only changes and repeats in between - one after another on ONE live object.  `oracle_only`: further
    option combinations evaluated on their own freshly built object by the oracle alone (no model, not in the sequence)"""
    fseed = ctx.rng.randint(0, 10**6)
    ref = {}
    for opt in opts:
        opt['fseed'] = fseed          # the same data for every call on this mesh, so that results are comparable
        ref[semkey(opt)] = one_case(ctx, m, opt, fields, origin=origin, model=model)
    for opt in oracle_only:
        opt['fseed'] = fseed
        one_case(ctx, m, opt, fields, origin=origin, model=False)
    sequence_case(ctx, m, opts, fields, ref, n_extra, stream)


def run(ctx):
    rnd = ctx.rng
    combos = list(itertools.product(['nodal', 'elemental'], [1, 2, 3], KERNELS, [True, False]))   # 36
    reps = ctx.n(3, 12)
    per_mesh = 4
    n_meshes = 0
    ratios = GRADE_RATIOS[:]
    rnd.shuffle(ratios)
    n_graded = 0
    for rep in range(reps):
        rnd.shuffle(combos)
        # one mesh per 4 option combinations, kinds alternate; every second mesh is GRADED (cell widths differing by 3 .. 1000
        # within the mesh, every ratio in every run), the others are uniform grids under one affine map as before
        for k in range(0, len(combos), per_mesh):
            opts = list(gen_opts(ctx, combos[k:k + per_mesh]))
            kind = ['tet', 'hex'][(k // per_mesh + rep) % 2]
            big = (not ctx.quick and rnd.random() < .4) or (kind == 'hex' and any(o['mode'] == 'elemental' for o in opts))
            if (k // per_mesh + rep // 2) % 2 == 1:
                ratio = ratios[n_graded % len(ratios)]
                n_graded += 1
                m = gen_graded(rnd, kind, ratio, 3 if ctx.quick or rnd.random() < .6 else 4,
                               ((36 if kind == 'tet' else 48) if ctx.quick else 125))
                # on a graded mesh additionally the moment-corrected operator of both modes with volume weighting (weights
                # then differ by ratio^3 between the coarse and the fine region), short hop counts favoured (more hops
                # reach the coarse cells from everywhere on meshes of this size)
                more = []
                for mode, n_hop in [('nodal', 1), ('elemental', 1), ('nodal', rnd.choice([2, 3])), ('elemental', rnd.choice([2, 3]))]:
                    o = next(gen_opts(ctx, [(mode, n_hop, rnd.choice(KERNELS), True)]))
                    o['consider_volume'] = True
                    if semkey(o) not in {semkey(x) for x in opts + more}:
                        (opts if n_hop == 1 else more).append(o)
                ctx.count(f'graded:largest / smallest cell width ~{ratio}')
                ctx.count('graded:axes:' + ','.join(sorted(m['graded']['axes'])))
                ctx.count(f'graded:{kind}')
            else:
                m = gen_mesh(ctx, kind, big)
                more = []
            n_meshes += 1
            st = gen_storage(rnd, m)
            for o in opts + more:
                o['storage'] = st
            mesh_cases(ctx, m, opts, gen_fields(rnd), ctx.n(4, 6) if m.get('graded') else ctx.n(6, 8), 'main', oracle_only=more)
    # stream order1: second-order meshes differentiated on their first-order vertices (order1_only=True); drawn after
    # the main stream so that the main stream's cases do not depend on it
    o1 = list(itertools.product([1, 2, 3], KERNELS, [True, True, False]))        # 27, moment-corrected twice as often
    for rep in range(ctx.n(1, 3)):
        rnd.shuffle(o1)
        sel = o1[:ctx.n(15, 27)]
        for k in range(0, len(sel), 3):
            if (k // 3 + rep) % 3 == 2:
                m = promote_hex2(rnd, gen_mesh(ctx, 'hex', False))
            else:
                m = last_tet2 = MG.promote_tet2(rnd, gen_mesh(ctx, 'tet', False))
            n_meshes += 1
            # tet2: effective-volume weighting or none (see the probe below); hex2: femio has no hex2 volume
            opts = [{'mode': 'nodal', 'n_hop': n_hop, 'kernel': kernel, 'moment': moment, 'order1': True,
                     'consider_volume': m['kind'] == 'tet2' and rnd.random() < .5, 'effective': True,
                     'alpha': rnd.choice(ALPHAS[:4]), 'data_as': gen_data_as(rnd)} for n_hop, kernel, moment in sel[k:k + 3]]
            mesh_cases(ctx, m, opts, gen_fields(rnd), ctx.n(3, 4), 'order1')
    # stream scaled: the same kind of meshes in other length units (cell size 1/1024, 500, 2000 coordinate units; the
    # kernel parameter scaled along so that the problem is similar); inside the quantifier (the property is scale free),
    # tolerances are relative to the row scale of the operator and the magnitude of the field as everywhere else.
    # moment-corrected and volume-weighted variants are favoured (volumes carry the cube of the scale)
    sc = list(itertools.product(['nodal', 'elemental'], [1, 2, 3], KERNELS, [True, True, False]))
    for s in SCALES:
        for rep in range(ctx.n(3, 6)):
            kind = ['tet', 'hex'][(rep + SCALES.index(s)) % 2]
            m = scaled(gen_mesh(ctx, kind, kind == 'hex' or rnd.random() < .3), s)
            n_meshes += 1
            rnd.shuffle(sc)
            opts = []
            for opt in list(gen_opts(ctx, sc[:ctx.n(5, 8)])):
                opt['consider_volume'] = rnd.random() < .7
                opts.append(scale_opt(opt, s))
                ctx.count('stream:scaled:cases')
            fields = gen_fields(rnd)
            fields[1]['b'] *= float(s)
            mesh_cases(ctx, m, opts, fields, ctx.n(2, 3), 'scaled')
    # stream translated: the mesh far from the origin (offsets 1e3 .. 1e7 element sizes; isotropic, anisotropic as in projected
    # map coordinates, along one axis; integer or with a fractional part; mesh in a non-dyadic length unit so that coordinates
    # are genuinely rounded).  Inside the quantifier: the property holds for every mesh and gradients are translation
    # invariant; an exact-rational model cannot see absolute-position formulas (they are equal over Q), the oracle can.
    # Every mode x hop count x kernel appears with the moment matrix over the stream; fields: constants, an affine field with
    # values of the size of the coordinates, an affine field centred at the mesh (values of the size of the mesh)
    tr = list(itertools.product(['nodal', 'elemental'], [1, 2, 3], KERNELS, [True, True, False]))        # 54
    rnd.shuffle(tr)
    tr.sort(key=lambda c: not c[3])                                     # the 36 moment-corrected ones first
    tr = tr[:ctx.n(36, 54)]
    rnd.shuffle(tr)
    per = 6
    shift = rnd.randrange(len(OFFSET_MAGNITUDES))
    for k in range(0, len(tr), per):
        kind = ['tet', 'hex'][(k // per) % 2]
        base = gen_mesh(ctx, kind, kind == 'hex')
        unit = rnd.choice(UNITS)
        mag = OFFSET_MAGNITUDES[(k // per + shift) % len(OFFSET_MAGNITUDES)]          # meshes 1..5: every magnitude once
        if k == 0:          # once per run the literal example: UTM coordinates, metre-size elements
            T, style = (F(431250), F(3912500), F(128)), 'utm'
            unit = F(1) / max(F(1), F(round(element_size(base))))
        else:
            T, style = gen_offset(rnd, mag, element_size(base) * float(unit))
        m0, m = translated(base, (0, 0, 0), unit), translated(base, T, unit)
        n_meshes += 1
        opts = list(gen_opts(ctx, tr[k:k + per]))
        kap = max(abs(float(x)) for x in T) / (element_size(base) * float(unit))
        for opt in opts:
            opt['scale'] = f'translated x{10 ** round(np.log10(max(kap, 1))):.0e}'
            opt['consider_volume'] = rnd.random() < .6
            if kind == 'hex' and kap > 2e5:
                opt['no_volume'] = True
            if opt.get('no_volume') and opt['consider_volume']:
                # hex volumes come from femio's float32 centroid kernel on absolute positions: beyond ~1e5 element sizes it
                # cannot resolve the cell any more (zero / negative volumes; C11: 'within the float range the method's
                # precision supports'), so volume weighting of hexahedra is exercised up to 1e5 element sizes only
                opt['consider_volume'] = False
                ctx.count('stream:translated:hex volume weighting switched off beyond 1e5 element sizes (float32 volume kernel, C11 scope)')
            ctx.count('stream:translated:cases')
            ctx.count(f'stream:translated:offset in element sizes ~1e{round(np.log10(max(kap, 1)))}')
        ctx.count(f'stream:translated:offset style:{style}')
        a = gen_fields(rnd)
        fields = [a[0], a[1], {**a[1], 'centred': True, 'b': a[1]['b'] / 8}, {**a[2], 'centred': True}, a[3]]
        mesh_cases(ctx, m, opts, fields, ctx.n(2, 3), 'translated', origin=m0)
    # observation stream (never reported through fail): volume-weighted operator of a hex mesh 1e7 element sizes from the origin
    # (femio's float32 hex volume kernel cannot resolve the cells there: zero / negative / NaN volumes; C11 precision scope)
    try:
        hb = gen_mesh(ctx, 'hex', True)
        L = 1e7 * element_size(hb)
        MG.quiet(fresh(translated(hb, (F(int(L)), F(int(.7 * L)), F(int(.4 * L))))).calculate_spatial_gradient_adjacency_matrices,
                 mode='nodal', moment_matrix=True, consider_volume=True)
        ctx.count('stream:translated:hex volume weighting at 1e7 element sizes(observation only):ok')
    except Exception as e:
        ctx.count(f'stream:translated:hex volume weighting at 1e7 element sizes(observation only):real raised {type(e).__name__}')
    # stream same-object: history on ONE object (operator, positions replaced through the public setter, operator again)
    hs = list(itertools.product(['elemental', 'elemental', 'nodal'], [1, 2, 3], KERNELS, [True, True, False]))
    rnd.shuffle(hs)
    hs.sort(key=lambda c: not (c[0] == 'elemental' and c[3]))       # every run starts with elemental + moment matrix
    hs = hs[:4] + rnd.sample(hs[4:], len(hs) - 4)
    for k, opt in enumerate(list(gen_opts(ctx, hs[:ctx.n(15, 45)]))):
        if k % 3 == 0:
            kind = ['tet', 'hex'][(k // 3) % 2]
            while True:
                m = gen_mesh(ctx, kind, kind == 'hex')
                if len(m['nodes']) >= 18:        # at least 2 x 2 x 1 cells: enough elements for spanning neighbourhoods
                    break
            m2 = remap(rnd, m)
            n_meshes += 1
        opt0 = dict(opt) if rnd.random() < .5 else {**next(gen_opts(ctx, [rnd.choice(hs)])), 'mode': opt['mode']}
        opt0['first'] = ['matrices', 'convenience', 'both'][k % 3]
        history_case(ctx, m, m2, opt0, opt, gen_fields(rnd))
    # observation stream (never reported through fail): order1_only with mean-volume weighting on a second-order mesh
    try:
        MG.quiet(fresh(last_tet2).calculate_spatial_gradient_adjacency_matrices, mode='nodal', order1_only=True,
                 consider_volume=True, use_effective_volume=False)
        ctx.count('stream:order1-mean-volume(observation only):ok')
    except Exception as e:
        ctx.count(f'stream:order1-mean-volume(observation only):real raised {type(e).__name__}')
    # stream kernel-scale (round 6): the absolute length unit of the mesh x the kernel options as the caller passes them (mostly the
    # DEFAULT alpha): nearest-neighbour kernel weights e^-E, E = 110, 250, 400, 600 (every E in every run as the lead of a mesh);
    # further option combinations on the same mesh with alpha chosen for another E of the list.  Inside the quantifier ('any
    # distance kernel', 'every mesh'): millimetre coordinates with 250 mm elements and kernel='exp' give weights of 1e-109.
    # Oracle only (over Q nothing depends on the size of the weights: C15_row_weight_scale), with the live sequences.
    exps = TINY_EXPONENTS[:]
    rnd.shuffle(exps)
    for k in range(ctx.n(4, 12)):
        E = exps[k % len(exps)]
        kind = ['hex', 'tet', 'hex'][k % 3]
        lead_mode = 'nodal' if kind == 'tet' else ['nodal', 'elemental'][(k // 2) % 2]
        lead_kernel = ['exp', 'gauss'][(k + k // 4) % 2]
        m, dist = gen_kernel_scale(rnd, kind, lead_mode, lead_kernel, E)
        n_meshes += 1
        opts = []
        for j in range(ctx.n(3, 4)):
            mode = lead_mode if j == 0 else rnd.choice(['nodal', 'nodal', 'elemental'] if kind == 'tet' else ['nodal', 'elemental'])
            kernel = lead_kernel if j == 0 else rnd.choice(['exp', 'gauss'])
            Ej = E if j == 0 else rnd.choice([e for e in TINY_EXPONENTS if e != E])
            o = next(gen_opts(ctx, [(mode, rnd.choice([1, 1, 2, 3]), kernel, j < 2 or rnd.random() < .5)]))
            o['alpha'] = 1.0 if j == 0 else tiny_alpha(kernel, dist[mode], Ej)
            o['consider_volume'] = rnd.random() < .4
            o['scale'] = 'kernel-scale'
            o['tiny'] = {'d': dist, 'E': round(o['alpha'] * (dist[mode] if kernel == 'exp' else dist[mode] ** 2 / 2))}
            if semkey(o) not in {semkey(x) for x in opts}:
                opts.append(o)
            ctx.count(f'stream:kernel-scale:cases:kernel={kernel}:alpha={"default" if o["alpha"] == 1.0 else "chosen"}:-ln(nearest weight)~{Ej}')
        ctx.count(f'stream:kernel-scale:meshes:{kind}:lead {lead_mode} {lead_kernel} E={E}')
        fields = gen_fields(rnd)
        fields[1]['b'] *= m['kernel_scale']['cell size']
        mesh_cases(ctx, m, opts, fields, ctx.n(2, 3), 'kernel-scale', model=False)
    ctx.extra['meshes'] = n_meshes


def replay(ctx, obj):
    case = obj['input']
    m = MG.from_json(case['mesh'])
    if 'mesh2' in case:       # stream same-object: re-run the history
        fails, info = history_case(ctx, m, MG.from_json(case['mesh2']), case['opt0'], case['opt'], case['fields'], record=False)
    elif 'steps' in case:     # sequence of calls on one live object: re-run it (references on fresh objects computed on demand)
        k, fails, info = run_sequence(ctx, m, case['steps'], case['fields'], None, count=False)
        fails = [('sequence:' + s, f'step {k}: ' + w, o) for s, w, o in fails]
    else:
        fails, info = oracle(ctx, m, case['opt'], case['fields'],
                             origin=MG.from_json(case['origin']) if 'origin' in case else None)
    return {'fails': bool(fails), 'failures': [{'signature': s, 'what': w, 'observed': o} for s, w, o in fails],
            'info': info}
