"""C15 - spatial gradient operators are exact on affine fields (DESIGN.md section 4, C15).

Tie P/D: for every generated (mesh, mode, n_hop, kernel, volume weighting, moment matrix) the three
sparse matrices returned by the real `calculate_spatial_gradient_adjacency_matrices` are compared,
entry by entry, with the rows the Lean model (`Femio.Gradient.opRow`, executed over exact rationals by
the driver) computes from the mesh (own incidence -> adjacency -> n-hop neighbours, own centroids) and
the real weight matrix (kernel x volume, captured from the real call: `exp` is not modelled).  The
convenience functions are compared with the model's `applyRow` / `spatialGradients`.
Oracle (independent of the model): constants -> 0 for every variant; moment-corrected gradient of a
random affine field = its slope at every vertex whose neighbourhood spans space (exact rank test on the
generator's rational coordinates); convenience function = explicit matrices applied by hand.

Stream `order1` (second-order meshes differentiated on their first-order vertices, `order1_only=True`): tet2 (and hex2
without volume weighting: femio has no hex2 volume) meshes whose corner and mid-edge nodes are interleaved in storage.
The graph vertices are the corner nodes in storage order (own computation from the connectivity, not femio's filter);
fields are given on ALL nodes, as the convenience function expects them; the explicit matrices are applied by hand to
the corner rows.  The model is fed the first-order sub-problem (corner nodes, corner connectivity).
"""
import itertools
from fractions import Fraction as F

import numpy as np

from . import common as C
from . import meshgen as MG

PROP = 'C15'
LEAN_MODULES = ['Femio.Props.C15']
THEOREMS = ['C15_const_zero', 'C15_affine_exact', 'C15_convenience', 'det3_eq_det']
PARTIAL = ['the weights w_ij (distance kernel exp / gauss x effective or mean volume) are inputs of the model, read back from '
           'the real call; the theorems hold for every weight function, so nothing about exp is needed',
           'floating point (np.linalg.inv, sqrt) is runtime: the exact model and the real matrices agree within the stated '
           'condition-number-scaled tolerance; guards (distinct vertices, non-zero weight sums) are evaluated per case']
RULE = ('conforming tet / hex bricks (1..2 or 1..3 cells per direction, optional voids) under a random rational affine '
        'map (sheared / graded) with optional per-node jitter, arbitrary node / element ids in ascending / descending / '
        'shuffled storage order; crossed with mode (nodal, elemental) x n_hop (1,2,3) x kernel (none, exp, gauss with '
        'random alpha) x consider_volume x use_effective_volume x moment_matrix; fields: constants of random magnitude, '
        'random affine fields, random fields (convenience clause). A case is non-trivial when the graph has at least '
        'one vertex with >= 3 neighbours; distinct = distinct (mesh, options). Vertices whose neighbourhood does not '
        'span space (exact rank < 3) are outside the exactness clause and are counted in a separate stream. '
        'Stream order1: the same tet / hex bricks promoted to tet2 / hex2 (straight mid-edge nodes, own ids, node table '
        'shuffled so that corner and mid-edge nodes are interleaved; non-trivial only when they are), nodal mode with '
        'order1_only=True, fields defined on all nodes; tet2 with effective-volume weighting or none, hex2 without '
        'volume weighting. '
        'Stream scaled: the same meshes with every coordinate multiplied by 1/1024, 500, 2000 (cell size in coordinate units; '
        'kernel alpha scaled along), all tolerances relative. Stream same-object: operator built, node positions of the SAME '
        'object replaced through the public setter (orientation-preserving rational affine map, no direction fixed), '
        'operator built again without clearing any cache; the property is evaluated against the new positions.')
ASSUMPTIONS = [
    'floating point: the real matrices are compared with the exact rational model within 1e-9 * max(1, cond(M)) * '
    'scale (np.linalg.inv / sqrt / exp accuracy is runtime, not modelled)',
    'the distance kernel values (exp, gauss) are read back from the real call and are inputs of the model',
    'normals / normal_weight options are outside the property and not exercised',
    'every vertex belongs to an element, volumes and kernel values are positive, vertices are distinct '
    '(guards reported by the driver for every case)',
]
TRUSTED = ['C15: capture of volume_adj / kernel matrix by wrapping calculate_data_adjs / calculate_distance_kernel_adj '
           'on the instance']

KERNELS = [None, 'exp', 'gauss']

# second-order types handled by the order1 stream: first-order type, number of corner nodes
FIRST_ORDER = {'tet2': ('tet', 4), 'hex2': ('hex', 8)}
HEX_EDGES = [(0, 1), (1, 2), (2, 3), (3, 0), (4, 5), (5, 6), (6, 7), (7, 4), (0, 4), (1, 5), (2, 6), (3, 7)]


def promote_hex2(rnd, m):
    """replace every hex by a hex2 with straight mid-edge nodes (new ids, shared per edge); node table shuffled"""
    pos = dict(m['nodes'])
    nxt = max(pos) + 1
    mid = {}
    rows = []
    for e, c in m['blocks']['hex']:
        extra = []
        for a, b in HEX_EDGES:
            k = frozenset((c[a], c[b]))
            if k not in mid:
                mid[k] = nxt + rnd.randint(0, 3)
                nxt = mid[k] + 1
                pos[mid[k]] = tuple((x + y) / 2 for x, y in zip(pos[c[a]], pos[c[b]]))
            extra.append(mid[k])
        rows.append((e, list(c) + extra))
    new_nodes = list(m['nodes']) + [(i, pos[i]) for i in mid.values()]
    rnd.shuffle(new_nodes)
    out = dict(m)
    out.update(nodes=new_nodes, blocks={'hex2': rows}, kind='hex2', order='shuf')
    return out


def corner_ids(m):
    return {n for t, b in m['blocks'].items() for _, c in b for n in c[:FIRST_ORDER.get(t, (t, len(c)))[1]]}


def graph_mesh(m, opt):
    """the mesh whose graph the operator lives on: the mesh itself, or (order1) its first-order sub-problem =
    corner nodes in storage order + corner connectivity"""
    if not opt.get('order1'):
        return m
    cs = corner_ids(m)
    out = dict(m)
    out.update(nodes=[(i, p) for i, p in m['nodes'] if i in cs],
               blocks={FIRST_ORDER.get(t, (t, None))[0]: [(e, list(c[:FIRST_ORDER.get(t, (t, len(c)))[1]])) for e, c in b]
                       for t, b in m['blocks'].items()})
    return out


def carriers(m, opt):
    """(float positions of every row the convenience function expects data for, bool mask of the graph vertices)"""
    if opt['mode'] != 'nodal' or not opt.get('order1'):
        P = np.array([[float(x) for x in p] for p in positions_exact(m, opt['mode'])])
        return P, np.ones(len(P), bool)
    cs = corner_ids(m)
    return (np.array([[float(x) for x in p] for _, p in m['nodes']]), np.array([i in cs for i, _ in m['nodes']]))


def nhop(fd, opt):
    kw = {'order1_only': True} if opt.get('order1') else {}
    return MG.quiet(fd.calculate_n_hop_adj, mode=opt['mode'], n_hop=opt['n_hop'], include_self_loop=False, **kw)


# ------------------------------------------------------------------ real side

def real_matrices(fd, opt):
    """run the real function; returns (grad_adjs, W: dict (i,j)->Fraction, n) with the weight matrix captured"""
    cap = {'d': []}
    ok_ = fd.calculate_distance_kernel_adj
    od_ = fd.calculate_data_adjs

    def wk(kernel, distance_adj, **kw):
        r = ok_(kernel, distance_adj, **kw)
        cap['k'] = r
        return r

    def wd(adj, data):
        r = od_(adj, data)
        cap['d'].append((data.shape, r))
        return r
    fd.calculate_distance_kernel_adj = wk
    fd.calculate_data_adjs = wd
    try:
        g = MG.quiet(fd.calculate_spatial_gradient_adjacency_matrices, **call_kwargs(opt))
    finally:
        del fd.calculate_distance_kernel_adj
        del fd.calculate_data_adjs
    n = g[0].shape[0]
    adj = nhop(fd, opt).tocoo()
    vol = [r for s, r in cap['d'] if len(s) == 2 and s[1] == 1]
    if opt['consider_volume'] and vol:
        v = vol[-1][0].tocoo()
        V = {(int(i), int(j)): F(float(x)) for i, j, x in zip(v.row, v.col, v.data)}
    else:
        V = {(int(i), int(j)): F(float(x)) for i, j, x in zip(adj.row, adj.col, adj.data.astype(float))}
    if opt['kernel'] is not None and 'k' in cap:
        k = cap['k'].tocoo()
        W = {}
        for i, j, x in zip(k.row, k.col, k.data):
            key = (int(i), int(j))
            if key in V:
                W[key] = F(float(x)) * V[key]
    else:
        W = V
    cap['pairs'] = {(int(i), int(j)) for i, j, x in zip(adj.row, adj.col, adj.data) if x != 0 and i != j}
    real_matrices.last_pairs = cap['pairs']
    return g, W, n


def call_kwargs(opt):
    kw = dict(mode=opt['mode'], n_hop=opt['n_hop'], kernel=opt['kernel'], moment_matrix=opt['moment'],
              consider_volume=opt['consider_volume'])
    if opt['mode'] == 'nodal':
        kw['use_effective_volume'] = opt['effective']
    if opt['kernel'] is not None:
        kw['alpha'] = opt['alpha']
    if opt.get('order1'):
        kw['order1_only'] = True
    return kw


def conv_call(fd, opt, data):
    kw = call_kwargs(opt)
    mode = kw.pop('mode')
    f = fd.calculate_nodal_spatial_gradients if mode == 'nodal' else fd.calculate_elemental_spatial_gradients
    return MG.quiet(f, data, **kw)


def dense3(g):
    return np.stack([x.toarray() for x in g], axis=0)      # (3, n, n); duplicates summed


def positions_exact(m, mode):
    """exact vertex positions of the graph (generator's rationals); elemental: centroids in block storage order"""
    if mode == 'nodal':
        return [p for _, p in m['nodes']]
    pos = dict(m['nodes'])
    (t, rows), = m['blocks'].items()
    return [tuple(sum(pos[n][k] for n in c) / len(c) for k in range(3)) for _, c in rows]


def rank3(vs):
    """exact rank (Fractions) of a list of 3-vectors is 3"""
    rows = [list(v) for v in vs]
    r = 0
    for col in range(3):
        piv = next((k for k in range(r, len(rows)) if rows[k][col] != 0), None)
        if piv is None:
            continue
        rows[r], rows[piv] = rows[piv], rows[r]
        for k in range(r + 1, len(rows)):
            if rows[k][col] != 0:
                f = rows[k][col] / rows[r][col]
                rows[k] = [a - f * b for a, b in zip(rows[k], rows[r])]
        r += 1
    return r == 3


def spanning_flags(fd, m, opt):
    """per vertex: do the difference vectors to the real n-hop neighbours span space (exact)"""
    adj = nhop(fd, opt).tocsr()
    P = positions_exact(graph_mesh(m, opt), opt['mode'])
    out = []
    for i in range(adj.shape[0]):
        js = [int(j) for j, x in zip(adj.indices[adj.indptr[i]:adj.indptr[i + 1]], adj.data[adj.indptr[i]:adj.indptr[i + 1]])
              if x != 0 and j != i]
        out.append(rank3([tuple(a - b for a, b in zip(P[j], P[i])) for j in js]))
    return out, adj


def min_spread(fd, m, opt, adj):
    """min over vertices of sigma_min / sigma_max of the difference vectors to the neighbours (float; 0 = coplanar)"""
    P = np.array([[float(x) for x in p] for p in positions_exact(graph_mesh(m, opt), opt['mode'])])
    adj = adj.tocsr()
    worst = 1.0
    for i in range(adj.shape[0]):
        js = [int(j) for j, x in zip(adj.indices[adj.indptr[i]:adj.indptr[i + 1]], adj.data[adj.indptr[i]:adj.indptr[i + 1]])
              if x != 0 and j != i]
        if len(js) < 3:
            return 0.0
        sv = np.linalg.svd(P[js] - P[i], compute_uv=False)
        worst = min(worst, float(sv[2] / sv[0]) if sv[0] > 0 else 0.0)
    return worst


def fresh(m):
    fd = MG.to_femio(m)
    for name in ('calculate_n_hop_adj', 'calculate_incidence_matrix', 'calculate_adjacency_matrix_node',
                 'calculate_adjacency_matrix_element'):
        f = getattr(type(fd), name, None)
        if f is not None and hasattr(f, 'cache_clear'):
            f.cache_clear()
    return fd


# ------------------------------------------------------------------ oracle (real API only)

def oracle(ctx, m, opt, fields, fd=None, record=True, settle=False):
    """the property stated on the real implementation; returns list of (signature, what, observed).
    `settle` (stream same-object, volume weighting only): femio keeps the element volumes it has stored (elemental_data
    'volume', C19 family) when node positions are replaced, and refreshes them as a side effect of some later calls, so the
    first volume-weighted operator after the update may be built with other (still positive) weights than the next one.
    Constants -> 0 and affine exactness hold for every positive weight function and are asserted on every call; the clause
    convenience = explicit matrices compares two successive calls and is therefore evaluated on matrices rebuilt
    immediately before the convenience call (the difference of the first call is counted as an observation, not asserted)."""
    fails = []
    fd = fd or fresh(m)
    span, adj = spanning_flags(fd, m, opt)
    try:
        g = MG.quiet(fd.calculate_spatial_gradient_adjacency_matrices, **call_kwargs(opt))
    except Exception as e:
        if not all(span):      # some neighbourhood does not span space: outside the quantifier
            return fails, {'singular': True, 'raised': type(e).__name__}
        if min_spread(fd, m, opt, adj) < 1e-2:
            # the neighbourhoods span space exactly (rank 3 over the rationals) but only just: the difference vectors
            # of some vertex are within 1 % of a plane (e.g. the centroids of a single jittered layer of cells), so
            # the float moment matrix is numerically singular.  Not "a mesh whose vertex neighbourhoods span space"
            # in any robust sense: separate labelled stream, never a failure.
            return fails, {'singular': True, 'raised': type(e).__name__, 'near_degenerate': True}
        fails.append((f'raises:{type(e).__name__}', f'operator construction raises {e!r} on a mesh whose neighbourhoods all span space', {}))
        return fails, {'singular': True, 'raised': type(e).__name__}
    G = dense3(g)
    n = G.shape[1]
    P_all, sel = carriers(m, opt)        # rows the convenience function takes data for; which of them are graph vertices
    P = P_all[sel]
    n_all = len(P_all)
    if n != len(P):
        fails.append((f'shape:{opt["mode"]}', f'operator has {n} rows for {len(P)} graph vertices', {'n': n, 'vertices': len(P)}))
        return fails, {'n': n, 'span_all': bool(all(span)), 'n_nonspanning': 0, 'max_cond': 1.0}
    finite_rows = np.isfinite(G).all(axis=(0, 2))
    inscope = np.array([(s or not opt['moment']) for s in span]) & finite_rows
    if not opt['moment']:
        inscope = finite_rows
    rowabs = np.abs(np.where(np.isfinite(G), G, 0)).sum(axis=2).max(axis=0)      # (n,)
    cond = np.ones(n)
    if opt['moment']:
        inv = (fd.nodal_data if opt['mode'] == 'nodal' else fd.elemental_data).get_attribute_data('inversed_moment_tensors')
        with np.errstate(all='ignore'):
            cond = np.array([np.linalg.cond(x) if np.isfinite(x).all() else np.inf for x in inv])
        cond = np.where(np.isfinite(cond), np.maximum(cond, 1.), 1.)
    info = {'n': n, 'span_all': bool(all(span)), 'n_nonspanning': int(n - sum(span)), 'max_cond': float(cond.max())}
    # clause 1: constants -> 0 (every variant); vertices of a non-spanning neighbourhood carry inf/nan and are skipped
    if not opt['moment'] and not finite_rows.all():
        fails.append((f'nonfinite:{opt["mode"]}', 'operator without moment matrix has non-finite entries',
                      {'rows': np.where(~finite_rows)[0].tolist()[:5]}))
    for fld in fields:
        if fld['kind'] == 'const':
            data = np.full((n_all, 1), fld['c'])
            scale = abs(fld['c'])
            want = np.zeros((n, 3))
        elif fld['kind'] == 'affine':
            a = np.array(fld['a'])
            data = (P_all @ a + fld['b'])[:, None]
            scale = float(np.abs(data).max())
            want = np.tile(a, (n, 1))
        else:
            continue
        byhand = np.stack([x.dot(data[sel]) for x in g], axis=1)[:, :, 0]
        conv = conv_call(fd, opt, data)[:, :, 0]
        if conv.shape != byhand.shape:
            break          # reported by the convenience clause below
        tol = 1e-9 * cond * np.maximum(rowabs, 1e-300) * max(scale, 1e-300)
        if fld['kind'] == 'affine' and not opt['moment']:
            continue          # the uncorrected operator is not claimed to be exact
        for name, got in (('matrices', byhand), ('convenience', conv)):
            err = np.abs(got - want).max(axis=1)
            bad = np.where(inscope & ~(err <= tol))[0]
            if len(bad):
                i = int(bad[0])
                fails.append((f'{fld["kind"]}:{opt["mode"]}:{"moment" if opt["moment"] else "plain"}',
                              f'{fld["kind"]} field: gradient at vertex {i} is {got[i].tolist()} instead of {want[i].tolist()} ({name})',
                              {'vertex': i, 'got': got[i].tolist(), 'want': want[i].tolist(), 'tol': float(tol[i]),
                               'n_bad': int(len(bad)), 'field': fld}))
                break
    # clause 3: convenience = explicit matrices by hand, any field
    if settle:
        g2 = MG.quiet(fd.calculate_spatial_gradient_adjacency_matrices, **call_kwargs(opt))
        info['first_call_differs_from_next'] = not np.array_equal(G, dense3(g2), equal_nan=True)
        g = g2
    rng = np.random.default_rng(opt.get('fseed', 0))
    data = rng.normal(size=(n_all, 2)) * 10
    byhand = np.stack([x.dot(data[sel]) for x in g], axis=1)
    conv = conv_call(fd, opt, data)
    ok = conv.shape == byhand.shape and np.all((np.abs(conv - byhand) <= 1e-12 * (1 + np.abs(byhand))) | ~np.isfinite(byhand))
    if not ok:
        fails.append((f'convenience:{opt["mode"]}', 'convenience function differs from the explicit matrices applied by hand',
                      {'shape_conv': list(conv.shape), 'shape_byhand': list(byhand.shape),
                       'maxdiff': float(np.nanmax(np.abs(conv - byhand))) if conv.shape == byhand.shape else None}))
    return fails, info


# ------------------------------------------------------------------ correspondence

def model_case(ctx, m, opt, fd, g, W, fields_cols):
    nodal = opt['mode'] == 'nodal'
    toks = ['c15.op', '1' if nodal else '0', str(opt['n_hop']), '1' if opt['moment'] else '0',
            MG.enc_mesh(graph_mesh(m, opt))]
    toks.append(str(len(W)))
    for (i, j), v in sorted(W.items()):
        toks += [str(i), str(j), C.enc_rat(v)]
    toks.append(str(len(fields_cols)))
    for col in fields_cols:
        toks.append(C.enc_list(col, C.enc_rat))
    r = ctx.driver.ask(' '.join(toks))
    if not r.startswith('ok '):
        return None, r
    t = C.Toks(r[3:])
    n = t.nat()
    distinct, sumw = t.nat(), t.nat()
    dets = t.lst(t.nat)
    S = 2.0 ** -120
    rows = {}
    for i in range(n):
        for _ in range(t.nat()):
            j = t.nat()
            v = (int(t.tok()) * S, int(t.tok()) * S, int(t.tok()) * S)
            rows[(i, j)] = tuple(a + b for a, b in zip(rows.get((i, j), (0, 0, 0)), v))
    nf = t.nat()
    grads = [[[int(t.tok()) * S for _ in range(3)] for _ in range(n)] for _ in range(nf)]
    assert t.done()
    return {'n': n, 'distinct': distinct, 'sumw': sumw, 'dets': dets, 'rows': rows, 'grads': grads}, r[:80]


def correspond(ctx, m, opt, fd, fields, caseinfo):
    span, _ = spanning_flags(fd, m, opt)
    try:
        g, W, n = real_matrices(fd, opt)
    except Exception:
        ctx.count('stream:real-raised')
        return
    P_all, sel = carriers(m, opt)
    if int(sel.sum()) != n:
        ctx.disagree('vertex count (operator rows vs graph vertices of the generated mesh)', caseinfo, n, int(sel.sum()))
        return
    cols, colsf, cols_all = [], [], []
    for fld in fields:
        if fld['kind'] == 'const':
            c = np.full(len(P_all), fld['c'])
        elif fld['kind'] == 'affine':
            c = P_all @ np.array(fld['a']) + fld['b']
        else:
            c = np.random.default_rng(fld['seed']).normal(size=len(P_all)) * 10
        cols_all.append(c)                             # what the convenience function is given (all rows)
        cols.append([float(x) for x in c[sel]])        # what the model is given (graph vertices)
        colsf.append(c[sel])
    mod, raw = model_case(ctx, m, opt, fd, g, W, cols)
    if mod is None:
        ctx.disagree('model rejected the case', caseinfo, 'ok', raw)
        return
    if mod['n'] != n:
        ctx.disagree('vertex count', caseinfo, n, mod['n'])
        return
    if not mod['distinct'] or (not opt['moment'] and not mod['sumw']):
        ctx.count('stream:guard-false')
        ctx.notes.append(f'guard false (coincident vertices or zero weight sum) in {caseinfo}')
        return
    # neighbour sets: model (own incidence -> adjacency -> n-hop) vs the real n-hop adjacency
    mp = {k for k in mod['rows'] if k[0] != k[1]}
    if mp != real_matrices.last_pairs:
        d = sorted(mp ^ real_matrices.last_pairs)
        ctx.disagree('n-hop neighbour sets', {**caseinfo, 'first_differing_pairs': d[:5], 'n_differing': len(d)},
                     len(real_matrices.last_pairs), len(mp))
        return
    # the exact det test of the model must agree with the exact rank test of the harness (weights positive)
    if opt['moment'] and [bool(d) for d in mod['dets']] != span:
        ctx.disagree('det M_i != 0 (model) vs neighbourhood spans space (exact rank)', caseinfo, span, mod['dets'])
    G = dense3(g)
    cond = np.ones(n)
    if opt['moment']:
        inv = (fd.nodal_data if opt['mode'] == 'nodal' else fd.elemental_data).get_attribute_data('inversed_moment_tensors')
        with np.errstate(all='ignore'):
            cond = np.array([np.linalg.cond(x) if np.isfinite(x).all() else 1. for x in inv])
        cond = np.where(np.isfinite(cond), np.maximum(cond, 1.), 1.)
    Mg = np.zeros_like(G)
    for (i, j), v in mod['rows'].items():
        Mg[:, i, j] = v
    ok_rows = np.array([bool(d) for d in mod['dets']]) if opt['moment'] else np.ones(n, bool)
    scale = np.maximum(np.abs(Mg).max(axis=(0, 2)), 1e-300)
    tol = 1e-9 * cond * scale
    with np.errstate(all='ignore'):
        err = np.abs(G - Mg).max(axis=(0, 2))
    bad = np.where(ok_rows & ~(err <= tol))[0]
    if len(bad):
        i = int(bad[0])
        j = int(np.nanargmax(np.abs(G - Mg).max(axis=0)[i]))
        ctx.disagree('grad_adjs entry', {**caseinfo, 'row': i, 'col': j, 'n_bad_rows': int(len(bad))},
                     G[:, i, j].tolist(), Mg[:, i, j].tolist())
        return
    ctx.count('compared:matrix-rows', int(ok_rows.sum()))
    ctx.count('compared:matrix-entries', int((Mg != 0).any(axis=0)[ok_rows].sum()) * 3)
    # convenience function vs the model's applyRow
    data = np.stack(cols_all, axis=1)
    conv = conv_call(fd, opt, data)            # (n, 3, f)
    if conv.shape != (n, 3, len(fields)):
        ctx.disagree('convenience function shape', caseinfo, list(conv.shape), [n, 3, len(fields)])
        return
    for k, fld in enumerate(fields):
        mg = np.array(mod['grads'][k])
        fs = max(float(np.abs(colsf[k]).max()), 1e-300)
        rowabs = np.abs(Mg).sum(axis=2).max(axis=0)
        t2 = 1e-9 * cond * np.maximum(rowabs, 1e-300) * fs
        with np.errstate(all='ignore'):
            e2 = np.abs(conv[:, :, k] - mg).max(axis=1)
        bad = np.where(ok_rows & ~(e2 <= t2))[0]
        if len(bad):
            i = int(bad[0])
            ctx.disagree('convenience function value', {**caseinfo, 'vertex': i, 'field': fld},
                         conv[i, :, k].tolist(), mg[i].tolist())
            return
    ctx.count('compared:gradient-values', int(ok_rows.sum()) * len(fields))
    # literal evaluation of the model's convenience function on small cases
    if n <= 14 and ctx.rng.random() < .5:
        toks = ['c15.conv', '1' if opt['mode'] == 'nodal' else '0', str(opt['n_hop']), '1' if opt['moment'] else '0',
                MG.enc_mesh(graph_mesh(m, opt)), str(len(W))]
        for (i, j), v in sorted(W.items()):
            toks += [str(i), str(j), C.enc_rat(v)]
        toks.append(C.enc_list(cols[-1], C.enc_rat))
        r = ctx.driver.ask(' '.join(toks))
        vals = [int(x) * 2.0 ** -120 for x in r.split()[1:]]
        lit = np.array(vals).reshape(n, 3)
        if not np.allclose(lit[ok_rows], np.array(mod['grads'][-1])[ok_rows], rtol=1e-12, atol=1e-30):
            ctx.disagree('model: spatialGradients vs applyRow', caseinfo, lit.tolist(), mod['grads'][-1])
        ctx.count('compared:literal-spatialGradients')


# ------------------------------------------------------------------ generation

def gen_mesh(ctx, kind, big):
    rnd = ctx.rng
    while True:
        m = MG.gen_geometric(rnd, kind=kind, max_cells=3 if big else 2, unref=False, voids=rnd.random() < .3)
        if len(m['blocks']) == 1 and len(m['nodes']) <= (64 if big else 36):
            return m


def gen_fields(rnd):
    def r(scale):
        return float(F(rnd.randint(-64 * scale, 64 * scale), 64))
    return [{'kind': 'const', 'c': rnd.choice([1.0, -3.5, 1e6, 1e-6, 12345.678])},
            {'kind': 'affine', 'a': [r(4), r(4), r(4)], 'b': r(50)},
            {'kind': 'affine', 'a': [0.0, 0.0, rnd.choice([1.0, -2.0])], 'b': 0.0},
            {'kind': 'random', 'seed': rnd.randint(0, 10**6)}]


def gen_opts(ctx, combos):
    rnd = ctx.rng
    for mode, n_hop, kernel, moment in combos:
        yield {'mode': mode, 'n_hop': n_hop, 'kernel': kernel, 'moment': moment,
               'consider_volume': rnd.random() < .5, 'effective': rnd.random() < .6,
               'alpha': rnd.choice([1.0, 0.5, 2.0, 0.125]), 'fseed': rnd.randint(0, 10**6)}


# absolute length scales of the stream `scaled` (cell size in coordinate units; the main stream has cell size ~1): the
# property is scale free (the gradient of a.x + b is a in every length unit), absolute tolerances in the code are not
SCALES = [F(1, 1024), F(500), F(2000)]


def scaled(m, s):
    """the same mesh in another length unit: every coordinate multiplied by the exact rational s"""
    out = dict(m)
    out['nodes'] = [(i, tuple(x * s for x in p)) for i, p in m['nodes']]
    return out


def scale_opt(opt, s):
    """the similar problem at scale s: exp(-alpha d) and exp(-alpha d^2 / 2) keep their values when alpha is divided by s
    resp. s^2, so the weights (up to the common factor s^3 of the volumes) and the condition numbers do not change"""
    out = dict(opt)
    out['scale'] = str(s)
    out['alpha'] = opt['alpha'] / float(s) ** (2 if opt['kernel'] == 'gauss' else 1)
    return out


def remap(rnd, m):
    """new node positions for the same mesh object: an orientation-preserving rational affine map that is not the
    identity in any direction (diagonal entries != 1), so that cells stay valid and neighbourhoods keep spanning space"""
    while True:
        B = [[F(rnd.choice([1, 3, 3, 6, 8]), 4) if r == c else F(rnd.randint(-1, 1), 4) for c in range(3)] for r in range(3)]
        if MG.det3(*B) > 0 and all(B[r][r] != 1 for r in range(3)):
            break
    t = [F(rnd.randint(-8, 8), 2) for _ in range(3)]
    out = dict(m)
    out['nodes'] = [(i, tuple(sum(B[r][c] * p[c] for c in range(3)) + t[r] for r in range(3))) for i, p in m['nodes']]
    return out


def set_positions(fd, m2):
    """replace the node positions of the SAME FEMData object through the public setter"""
    fd.nodes.data = np.array([[float(v) for v in p] for _, p in m2['nodes']])


def history_case(ctx, m, m2, opt0, opt, fields, record=True):
    """stream `same-object`: operator (opt0) -> node positions replaced through `fem_data.nodes.data = …` -> operator (opt)
    again on the SAME object, no cache cleared in between.  The property is stated for the mesh as it is now: constants
    -> 0, affine exactness and convenience = matrices are evaluated by the ordinary oracle against the NEW positions (what
    a fresh object built from them gives), and the matrices are compared with the model computed from the new positions.
    Weights are whatever the real call uses (femio keeps the stored element volumes of the old positions: the theorems and
    the oracle hold for every positive weight function, and the model takes the captured weights; see `settle` in oracle)."""
    fd = fresh(m)
    try:
        MG.quiet(fd.calculate_spatial_gradient_adjacency_matrices, **call_kwargs(opt0))
    except Exception as e:      # singular first geometry: the history still continues on the same object
        ctx.count(f'stream:same-object:first call raised {type(e).__name__}')
    set_positions(fd, m2)
    fails, info = oracle(ctx, m2, opt, fields, fd=fd, settle=bool(opt['consider_volume']))
    fails = [('same-object:' + sig, 'after `nodes.data = new positions` on the same object: ' + what, obs)
             for sig, what, obs in fails]
    if not record:
        return fails, info
    caseinfo = {'mesh': MG.to_json(m), 'mesh2': MG.to_json(m2), 'opt0': opt0, 'opt': opt, 'fields': fields,
                'history': 'operator(opt0) on mesh; nodes.data = positions of mesh2; operator(opt) on the same object'}
    short = {'history': 'same-object', 'mesh': MG.describe(m), 'opt0': opt0, 'opt': opt}
    ctx.case(('same-object', repr(MG.to_json(m)), repr(MG.to_json(m2)), repr(sorted(opt0.items())), repr(sorted(opt.items()))),
             sample={**short, 'info': info}, nontrivial=info.get('n', 0) >= 4)
    ctx.count('stream:same-object:cases')
    ctx.count(f'stream:same-object:mode:{opt["mode"]}')
    ctx.count('stream:same-object:first call ' + ('same options' if opt0 == opt else 'other options'))
    if info.get('singular'):
        ctx.count('stream:same-object:non-spanning (outside the quantifier)')
    if info.get('first_call_differs_from_next'):
        ctx.count('stream:same-object:observation only: first volume-weighted operator after the update differs from the next '
                  'one (stored element volumes of the old positions, C19 family; not asserted)')
    for sig, what, obs in fails:
        ctx.fail(sig, what, caseinfo, obs)
    if ctx.driver is not None and not info.get('singular'):
        correspond(ctx, m2, opt, fd, fields, {**short, 'after': 'nodes.data = new positions (same object)'} if not fails else caseinfo)
    return fails, info


def one_case(ctx, m, opt, fields):
    desc = MG.describe(m)
    caseinfo = {'mesh': MG.to_json(m), 'opt': opt, 'fields': fields}
    short = {'mesh': desc, 'opt': opt}
    fd = fresh(m)
    fails, info = oracle(ctx, m, opt, fields, fd=fd)
    nontrivial = info.get('n', 0) >= 4
    if opt.get('order1'):
        # distinct from the first-order stream only when a mid-edge node is stored before some corner node
        _, sel = carriers(m, opt)
        inter = not sel[:int(sel.sum())].all()
        ctx.count('order1:storage:' + ('corner-and-mid-edge-nodes-interleaved' if inter else 'corner-nodes-first'))
        ctx.count(f'stream:order1:{m["kind"]}')
        nontrivial = nontrivial and inter
    ctx.case((repr(MG.to_json(m)), repr(sorted(opt.items()))), sample={**short, 'info': info}, nontrivial=nontrivial)
    ctx.count(f'mesh:{m["kind"]}')
    ctx.count(f'ids:{m["order"]}')
    ctx.count(f'mode:{opt["mode"]}')
    ctx.count(f'n_hop:{opt["n_hop"]}')
    ctx.count(f'kernel:{opt["kernel"]}')
    ctx.count(f'moment:{opt["moment"]}')
    ctx.count(f'consider_volume:{opt["consider_volume"]}')
    ctx.count('length scale (cell size in coordinate units):' + opt.get('scale', '1'))
    ctx.count('geometry:' + ('jittered' if m.get('jittered') else 'affine' if m.get('affine') else 'grid'))
    if info.get('singular'):
        ctx.count(f'stream:{"near-degenerate" if info.get("near_degenerate") else "non-spanning"}(real raised {info.get("raised")}; outside the quantifier)')
    elif opt['moment']:
        ctx.count('stream:all-vertices-spanning' if info['span_all'] else 'stream:some-vertices-non-spanning')
    for sig, what, obs in fails:
        ctx.fail(sig, what, caseinfo, obs)
    if ctx.driver is not None and not info.get('singular'):
        correspond(ctx, m, opt, fresh(m), fields, short if not fails else caseinfo)


def run(ctx):
    rnd = ctx.rng
    combos = list(itertools.product(['nodal', 'elemental'], [1, 2, 3], KERNELS, [True, False]))   # 36
    reps = ctx.n(4, 14)
    n_meshes = 0
    for rep in range(reps):
        rnd.shuffle(combos)
        # one mesh per 3 option combinations, kinds alternate
        for k, opt in enumerate(gen_opts(ctx, combos)):
            if k % 3 == 0:
                kind = ['tet', 'hex'][(k // 3 + rep) % 2]
                big = (not ctx.quick and rnd.random() < .4) or (opt['mode'] == 'elemental' and kind == 'hex')
                m = gen_mesh(ctx, kind, big)
                n_meshes += 1
            one_case(ctx, m, opt, gen_fields(rnd))
    # stream order1: second-order meshes differentiated on their first-order vertices (order1_only=True); drawn after
    # the main stream so that the main stream's cases do not depend on it
    o1 = list(itertools.product([1, 2, 3], KERNELS, [True, True, False]))        # 27, moment-corrected twice as often
    for rep in range(ctx.n(1, 3)):
        rnd.shuffle(o1)
        for k, (n_hop, kernel, moment) in enumerate(o1[:ctx.n(15, 27)]):
            if k % 3 == 0:
                if (k // 3 + rep) % 3 == 2:
                    m = promote_hex2(rnd, gen_mesh(ctx, 'hex', False))
                else:
                    m = last_tet2 = MG.promote_tet2(rnd, gen_mesh(ctx, 'tet', False))
                n_meshes += 1
            # tet2: effective-volume weighting or none (see the probe below); hex2: femio has no hex2 volume
            opt = {'mode': 'nodal', 'n_hop': n_hop, 'kernel': kernel, 'moment': moment, 'order1': True,
                   'consider_volume': m['kind'] == 'tet2' and rnd.random() < .5, 'effective': True,
                   'alpha': rnd.choice([1.0, 0.5, 2.0, 0.125]), 'fseed': rnd.randint(0, 10**6)}
            one_case(ctx, m, opt, gen_fields(rnd))
    # stream scaled: the same kind of meshes in other length units (cell size 1/1024, 500, 2000 coordinate units; the
    # kernel parameter scaled along so that the problem is similar); inside the quantifier (the property is scale free),
    # tolerances are relative to the row scale of the operator and the magnitude of the field as everywhere else.
    # moment-corrected and volume-weighted variants are favoured (volumes carry the cube of the scale)
    sc = list(itertools.product(['nodal', 'elemental'], [1, 2, 3], KERNELS, [True, True, False]))
    for s in SCALES:
        for rep in range(ctx.n(3, 6)):
            kind = ['tet', 'hex'][(rep + SCALES.index(s)) % 2]
            m = scaled(gen_mesh(ctx, kind, kind == 'hex' or rnd.random() < .3), s)
            n_meshes += 1
            rnd.shuffle(sc)
            for opt in list(gen_opts(ctx, sc[:ctx.n(6, 9)])):
                opt['consider_volume'] = rnd.random() < .7
                fields = gen_fields(rnd)
                fields[1]['b'] *= float(s)
                ctx.count('stream:scaled:cases')
                one_case(ctx, m, scale_opt(opt, s), fields)
    # stream same-object: history on ONE object (operator, positions replaced through the public setter, operator again)
    hs = list(itertools.product(['elemental', 'elemental', 'nodal'], [1, 2, 3], KERNELS, [True, True, False]))
    rnd.shuffle(hs)
    hs.sort(key=lambda c: not (c[0] == 'elemental' and c[3]))       # every run starts with elemental + moment matrix
    hs = hs[:4] + rnd.sample(hs[4:], len(hs) - 4)
    for k, opt in enumerate(list(gen_opts(ctx, hs[:ctx.n(15, 45)]))):
        if k % 3 == 0:
            kind = ['tet', 'hex'][(k // 3) % 2]
            while True:
                m = gen_mesh(ctx, kind, kind == 'hex')
                if len(m['nodes']) >= 18:        # at least 2 x 2 x 1 cells: enough elements for spanning neighbourhoods
                    break
            m2 = remap(rnd, m)
            n_meshes += 1
        opt0 = dict(opt) if rnd.random() < .5 else {**next(gen_opts(ctx, [rnd.choice(hs)])), 'mode': opt['mode']}
        history_case(ctx, m, m2, opt0, opt, gen_fields(rnd))
    # observation stream (never reported through fail): order1_only with mean-volume weighting on a second-order mesh
    try:
        MG.quiet(fresh(last_tet2).calculate_spatial_gradient_adjacency_matrices, mode='nodal', order1_only=True,
                 consider_volume=True, use_effective_volume=False)
        ctx.count('stream:order1-mean-volume(observation only):ok')
    except Exception as e:
        ctx.count(f'stream:order1-mean-volume(observation only):real raised {type(e).__name__}')
    ctx.extra['meshes'] = n_meshes


def replay(ctx, obj):
    case = obj['input']
    m = MG.from_json(case['mesh'])
    if 'mesh2' in case:       # stream same-object: re-run the history
        fails, info = history_case(ctx, m, MG.from_json(case['mesh2']), case['opt0'], case['opt'], case['fields'], record=False)
    else:
        fails, info = oracle(ctx, m, case['opt'], case['fields'])
    return {'fails': bool(fails), 'failures': [{'signature': s, 'what': w, 'observed': o} for s, w, o in fails],
            'info': info}
