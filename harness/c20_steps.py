"""C20, stream 'steps': the stages of compress() one by one against the step models of Model/CompressSteps.lean.

`compress()` is replayed stage by stage with femio's own (numba) kernels

    merge_elements ; ( remove_edges ; remove_vertices_2 ; merge_vertices ) x <= 10 ; reindex

and every stage is compared with the transition system the pipeline theorems are about (`Femio.C20.Op / step / runOps`):

* the staged replay ends in exactly the arrays the real `MeshCompressor.compress` hands to `reindex` (tie of the replay);
* `merge_elements`          = `Op.merge groups` (groups read from `elem_conv`), faces per cell as a multiset;
* `remove_edges`            = `Op.removeEdge a b ps` for the traced calls of `remove_one_edge_from_polyhedron`, then
                              `Op.shrink`, exact (face order, rotation); the trace is taken by running the *Python* body of
                              `remove_edges` (`.py_func`) with the compiled `remove_one_edge_from_polyhedron` wrapped, and
                              the result of that run must equal the compiled `remove_edges`;
                              every traced call = `c20.remove_one_edge` (spec model and literal model), exact, incl. refusals;
* `remove_vertices_2`       = `c20.rv2`, exact, incl. "no assert fires";
* `merge_vertices`          = `Op.mergeVertex a b` for the pairs read from `node_conv`, then `Op.shrink`, cells compared as
                              multisets of cyclic faces (the order of the merges inside the kernel is not observable);
                              single merges on one cell (positions chosen so that exactly one edge is short) exact;
* `shrink`                  = `c20.shrink` on lists with short faces / thin cells;
* whole run                 = `c20.run` on the raw cells with all traced operations: final cells (multisets of cyclic
                              faces, in order) and `node_conv` as handed to `reindex`.

Model / implementation differences are reported with `ctx.disagree`.  Hook for c20.py (one line in `run`, after
`warm_up()`):   `from . import c20_steps; c20_steps.run_stream(ctx)`   and in `replay`:
`if case.get('kind') == 'steps': return c20_steps.replay(ctx, obj)`.
"""
from fractions import Fraction as F

import numpy as np

from . import common as C
from . import meshgen as MG

LEAN_MODULES = ['Femio.Props.C20Pipeline']
THEOREMS = [
    'C20_shrink_inv', 'C20_merge_step_inv', 'C20_remove_edge_inv', 'C20_remove_vertices_2_inv', 'C20_rv2_cell',
    'C20_merge_vertex_inv', 'C20_reindex_inv', 'C20_pipeline_invariant', 'C20_pipeline_output', 'C20_pipeline_conv',
    'C20_cellFlux_eq_polyFan6', 'C20_pipeline_flux', 'C20_pipeline_output_flux', 'C20_step_flux',
]


def H():
    from . import c20
    return c20


def canon_cell(faces):
    h = H()
    return sorted(h.rot_min(list(f)) for f in faces)


def flat_of(faces):
    out = [len(faces)]
    for f in faces:
        out += [len(f)] + [int(v) for v in f]
    return out


def read_cells(t):
    return t.lst(lambda: t.lst(lambda: t.lst(t.nat)))


def read_res(t):
    return t.lst(lambda: t.lst(t.nat)) if t.nat() == 1 else None


def csr64(csr):
    return (np.asarray(csr[0], np.int64).copy(), np.asarray(csr[1], np.int64).copy())


def coplanar_face(f, pos):
    P = [pos[v] for v in f]
    for i in range(3, len(P)):
        if MG.det3(MG.sub(P[1], P[0]), MG.sub(P[2], P[0]), MG.sub(P[i], P[0])) != 0:
            return False
    # first three collinear: test against every triple (rare)
    if len(P) > 3 and all(MG.det3(MG.sub(P[1], P[0]), MG.sub(P[2], P[0]), MG.sub(P[i], P[0])) == 0 for i in range(3, len(P))):
        for i in range(len(P)):
            for j in range(i):
                for k in range(j):
                    for l in range(k):
                        if MG.det3(MG.sub(P[j], P[i]), MG.sub(P[k], P[i]), MG.sub(P[l], P[i])) != 0:
                            return False
    return True


def total_flux(cells, pos):
    h = H()
    return sum((h.fan_vol6(c, pos) for c in cells), F(0))


class EdgeTrace:
    """run the Python body of remove_edges with the compiled remove_one_edge_from_polyhedron wrapped"""

    def __init__(self):
        import femio.mesh_compressor as MC
        self.MC = MC
        self.calls = []

    def __enter__(self):
        MC = self.MC
        self.orig_edge, self.orig_shrink = MC.remove_one_edge_from_polyhedron, MC.shrink

        def traced(poly, a, b):
            before = [int(v) for v in poly]
            ok, new = self.orig_edge(poly, a, b)
            self.calls.append((int(a), int(b), before, bool(ok), [int(v) for v in new]))
            return ok, new

        def py_shrink(polyhedrons, elem_conv):
            return self.orig_shrink.py_func(polyhedrons, elem_conv)
        MC.remove_one_edge_from_polyhedron = traced
        MC.shrink = py_shrink
        return self

    def __exit__(self, *a):
        self.MC.remove_one_edge_from_polyhedron = self.orig_edge
        self.MC.shrink = self.orig_shrink


def group_calls(calls):
    """consecutive calls with the same edge = one iteration of the edge loop"""
    out = []
    for c in calls:
        if out and out[-1][0] == (c[0], c[1]):
            out[-1][1].append(c)
        else:
            out.append(((c[0], c[1]), [c]))
    return out


def steps_case(ctx, m, params, label='steps'):
    """one staged compression; returns the number of model operations replayed"""
    import femio.mesh_compressor as MC
    h = H()
    fd = MG.to_femio(m)
    poly = h.quiet(fd.to_polyhedron)
    case = {'kind': 'steps', 'mesh': MG.to_json(m), 'params': params}
    why = h.dry_run(poly, params)
    if why is not None:
        ctx.count('steps:skipped(' + why.split(' (')[0][:40] + ')')
        return 0
    drv = ctx.driver
    pos0 = [tuple(F(float(v)) for v in p) for p in poly.nodes.data]
    # ---- the real thing, with the arguments of reindex captured
    with h.Hooks() as hooks:
        mc = MC.MeshCompressor(fem_data=poly)
        try:
            h.quiet(mc.compress, elem_num=params['elem_num'], cos_thresh=params['cos_thresh'], dist_thresh=params['dist_thresh'])
        except Exception as e:  # noqa  (reported by the main stream of c20.py)
            ctx.count('steps:compress-raises:' + type(e).__name__)
            return 0
    if not hooks.calls:
        ctx.count('steps:no-reindex-call')
        return 0
    (ip_r, dat_r, conv_r), _ = hooks.calls[-1]
    real_final = [h.parse_flat(c) for c in h.cells_of((ip_r, dat_r))]
    # ---- staged replay
    csr = poly.face_data_csr()
    raw = h.cells_of(csr)
    node_pos = poly.nodes.data.copy()
    elem_conv = np.arange(len(raw), dtype=np.int32)
    node_conv = np.arange(len(node_pos), dtype=np.int32)
    ops = []                                    # encoded model operations of the whole run
    n_ops = 0
    good = None
    if drv is not None:
        # hypothesis `Good` of the pipeline theorems on the input of compress(): closed cells, simple faces of >= 3 nodes,
        # every node a row of node_conv (= identity)
        good = h.ask(ctx, f'c20.good {C.enc_list(raw, h.enc_flat)} {C.enc_list(range(len(node_conv)))}').nat() == 1
        ctx.count('steps:input-satisfies-Good' if good else 'steps:input-outside-Good(hypothesis of the pipeline theorems fails)')
    coplanar_merges = True                      # hypothesis `FluxRun`: faces merged along an edge only when coplanar
    any_vertex_merge = False

    def model_state(tag, op_tokens, n_new, want_cells, exact, state_cells, state_conv=None):
        """run the operations `op_tokens` on `state_cells` in the model and compare with `want_cells`"""
        if drv is None:
            return
        conv = state_conv if state_conv is not None else []
        t = h.ask(ctx, f'c20.run {C.enc_list(state_cells, h.enc_flat)} {C.enc_list(conv)} {n_new} ' + ' '.join(op_tokens))
        if t.nat() == 0:
            ctx.disagree(f'{tag}: the model says an assert of the real code fails', case, 'completed', 'assert')
            return
        got = read_cells(t)
        a = got if exact else [canon_cell(c) for c in got]
        b = want_cells if exact else [canon_cell(c) for c in want_cells]
        if a != b:
            k = next((i for i in range(min(len(a), len(b))) if a[i] != b[i]), min(len(a), len(b)))
            ctx.disagree(tag, {**case, 'first-different-cell': k}, (len(b), b[k:k + 1]), (len(a), a[k:k + 1]))
        ctx.count('steps:compared:' + tag.split(':')[0])

    # merge_elements
    K = max(len(csr[0] - 1) // params['elem_num'], 1)
    new = h.quiet(MC.merge_elements, csr, node_pos, elem_conv, K)
    groups = [[p for p in range(len(raw)) if int(elem_conv[p]) == g] for g in range(len(new[0]) - 1)]
    cur = h.cells_of(new)
    op = ['merge ' + C.enc_list(groups, C.enc_list)]
    model_state('merge_elements', op, 1, [h.parse_flat(c) for c in cur], False, raw)
    ops += op
    n_ops += 1
    csr = new
    planar_all = all(coplanar_face(f, pos0) for c in raw for f in h.parse_flat(c))
    for rnd in range(10):
        before_size = len(csr[1])
        # ---- remove_edges: compiled run and traced Python run
        ec1, ec2 = elem_conv.copy(), elem_conv.copy()
        cells_in = h.cells_of(csr)
        out_c = h.quiet(MC.remove_edges, (csr[0].copy(), csr[1].copy()), node_pos, ec1, params['cos_thresh'])
        with EdgeTrace() as tr:
            try:
                out_p = h.quiet(MC.remove_edges.py_func, csr64(csr), node_pos, ec2, params['cos_thresh'])
            except Exception as e:  # noqa
                out_p = None
                ctx.count('steps:py-remove_edges-raises:' + type(e).__name__)
        traced_ok = out_p is not None and h.cells_of(out_p) == h.cells_of(out_c)
        if out_p is not None and not traced_ok:
            ctx.count('steps:py-remove_edges-differs-from-compiled(trace not used)')
        stage_ops = []
        if traced_ok:
            init = [h.parse_flat(c) for c in cells_in]
            for (a, b), calls in group_calls(tr.calls):
                ps = [p for p, c in enumerate(init) if any((f[i - 1], f[i]) == (a, b) for f in c for i in range(len(f)))]
                if len(ps) != len(calls):
                    # an edge occurring twice in one cell is listed twice by the code
                    ps = None
                applied = all(c[3] for c in calls)
                if applied:
                    for (_, _, before, _, after) in calls:
                        fs = h.parse_flat(before)
                        two = [f for f in fs if any((f[i - 1], f[i]) in ((a, b), (b, a)) for i in range(len(f)))]
                        if two and not coplanar_face([v for f in two for v in f], pos0):
                            coplanar_merges = False
                for (_, _, before, ok, after) in calls[:2]:
                    if drv is not None:
                        t = h.ask(ctx, f'c20.remove_one_edge {a} {b} {h.enc_flat(before)}')
                        spec, lit = read_res(t), read_res(t)
                        want = h.parse_flat(after) if ok else None
                        closed_in = h.cell_ok(h.parse_flat(before)) is None
                        if lit != want:
                            ctx.disagree('remove_one_edge_from_polyhedron (literal model)', {**case, 'edge': [a, b], 'cell': before}, want, lit)
                        if closed_in and spec != want:
                            ctx.disagree('remove_one_edge_from_polyhedron (spec model)', {**case, 'edge': [a, b], 'cell': before}, want, spec)
                        ctx.count('steps:remove_one_edge:' + ('applied' if ok and want != h.parse_flat(before) else 'unchanged' if ok else 'refused'))
                if ps is not None:
                    stage_ops.append(f'edge {a} {b} {C.enc_list(ps)}')
                elif applied:
                    stage_ops = None
                    break
        if stage_ops is not None and traced_ok:
            stage_ops.append('shrink')
            model_state('remove_edges', stage_ops, len(stage_ops), [h.parse_flat(c) for c in h.cells_of(out_c)], True, cells_in)
            ops += stage_ops
            n_ops += len(stage_ops)
        else:
            ops = None
        elem_conv = ec1
        csr = out_c
        # ---- remove_vertices_2
        cells_in = h.cells_of(csr)
        try:
            out = h.quiet(MC.remove_vertices_2, (csr[0].copy(), csr[1].copy()), node_pos, elem_conv)
        except AssertionError:
            out = None
        if drv is not None:
            t = h.ask(ctx, 'c20.rv2 ' + C.enc_list(cells_in, h.enc_flat))
            if t.nat() == 0:
                if out is not None:
                    ctx.disagree('remove_vertices_2: the model says an assert fails', case, 'completed', 'assert')
            else:
                removed = t.lst(t.nat)
                got = read_cells(t)
                want = None if out is None else [h.parse_flat(c) for c in h.cells_of(out)]
                if got != want:
                    ctx.disagree('remove_vertices_2', case, want if want is None else (len(want), want[:2]), (len(got), got[:2]))
                ctx.count('steps:rv2:' + ('removes-nodes' if removed else 'nothing-to-remove'))
                if want is not None and planar_all and params['dist_thresh'] == 0:
                    # theorem C20_rv2_flux: planar faces -> the total fan volume is unchanged, exactly
                    f0 = total_flux([h.parse_flat(c) for c in cells_in], pos0)
                    f1 = total_flux(want, pos0)
                    if all(coplanar_face(f, pos0) for c in cells_in for f in h.parse_flat(c)):
                        ctx.count('steps:rv2:flux-checked')
                        if f0 != f1:
                            ctx.disagree('remove_vertices_2 changes the total fan volume of planar-faced cells', case, str(f0), str(f1))
        if out is None:
            ctx.count('steps:rv2-assert-fires')
            return n_ops
        if ops is not None:
            ops.append('rv2')
        n_ops += 1
        csr = out
        # ---- merge_vertices
        cells_in = h.cells_of(csr)
        conv_before = node_conv.copy()
        csr, node_pos = h.quiet(MC.merge_vertices, (csr[0].copy(), csr[1].copy()), node_pos, elem_conv, node_conv, params['dist_thresh'])
        pairs = [(int(node_conv[b]), b) for b in range(len(node_conv)) if node_conv[b] != conv_before[b]]
        stage_ops = [f'mv {a} {b}' for a, b in pairs] + ['shrink']
        model_state('merge_vertices', stage_ops, len(stage_ops), [h.parse_flat(c) for c in h.cells_of(csr)], False, cells_in,
                    [int(v) for v in conv_before])
        if pairs:
            ctx.count('steps:merge_vertices:merges')
            any_vertex_merge = True
        if ops is not None:
            ops += stage_ops
        n_ops += len(stage_ops)
        if before_size == len(csr[1]):
            break
    staged_final = [h.parse_flat(c) for c in h.cells_of(csr)]
    if staged_final != real_final or [int(v) for v in node_conv] != [int(v) for v in conv_r]:
        # merge_elements hashes with a random base; a different run may list the faces of a cell in another order
        if [canon_cell(c) for c in staged_final] != [canon_cell(c) for c in real_final]:
            ctx.disagree('staged replay of compress() differs from compress()', case, (len(real_final), real_final[:1]),
                         (len(staged_final), staged_final[:1]))
        else:
            ctx.count('steps:staged-replay-equal-up-to-face-order')
    else:
        ctx.count('steps:staged-replay-identical')
    # ---- what the pipeline theorems predict for this run (hypotheses evaluated exactly on the traced run)
    if good:
        bad = next((h.cell_ok(c) for c in real_final if h.cell_ok(c)), None)
        if bad:
            ctx.disagree('C20_pipeline_invariant predicts closed cells with simple faces of >= 3 nodes', case, bad, 'Inv')
        ctx.count('steps:theorem-invariant-checked')
        if ops is not None and planar_all and coplanar_merges and not any_vertex_merge:
            f0, f1 = total_flux([h.parse_flat(c) for c in raw], pos0), total_flux(real_final, pos0)
            if f0 != f1:
                ctx.disagree('C20_pipeline_flux predicts an unchanged total fan volume (planar faces, coplanar merges, no '
                             'vertex merged)', case, str(f0), str(f1))
            ctx.count('steps:theorem-flux-checked' + (':cells-merged' if len(real_final) < len(raw) else ''))
        elif ops is not None and not any_vertex_merge:
            ctx.count('steps:flux-hypothesis-fails(' + ('non-planar input face' if not planar_all else 'non-coplanar edge merge') + ')')
    # ---- the whole run in the model
    if ops is not None and drv is not None:
        t = h.ask(ctx, f'c20.run {C.enc_list(raw, h.enc_flat)} {C.enc_list(range(len(node_conv)))} {len(ops)} ' + ' '.join(ops))
        if t.nat() == 0:
            ctx.disagree('whole run: the model says an assert of the real code fails', case, 'completed', 'assert')
        else:
            got = read_cells(t)
            conv = t.lst(t.nat)
            if [canon_cell(c) for c in got] != [canon_cell(c) for c in real_final]:
                ctx.disagree('whole run (runOps) differs from compress()', case, (len(real_final), real_final[:1]), (len(got), got[:1]))
            if conv != [int(v) for v in conv_r]:
                ctx.disagree('whole run: node_conv', case, [int(v) for v in conv_r][:20], conv[:20])
            ctx.count('steps:whole-run-compared')
    elif ops is None:
        ctx.count('steps:whole-run-not-replayed(trace unavailable)')
    ctx.case(('steps', MG.enc_mesh(m), tuple(sorted(params.items()))),
             sample={'kind': 'steps', 'mesh': MG.describe(m), 'params': params, 'ops': n_ops, 'out_cells': len(real_final)},
             nontrivial=len(real_final) < len(raw))
    return n_ops


def single_merge_case(ctx, rnd, m):
    """merge(a, b) alone: one cell of the (merged) mesh, positions chosen so that exactly one edge is short"""
    import femio.mesh_compressor as MC
    h = H()
    if ctx.driver is None:
        return
    fd = MG.to_femio(m)
    poly = h.quiet(fd.to_polyhedron)
    csr = poly.face_data_csr()
    raw = h.cells_of(csr)
    ec = np.arange(len(raw), dtype=np.int32)
    K = rnd.choice([1, 2, 3, 6])
    cells = h.cells_of(h.quiet(MC.merge_elements, csr, poly.nodes.data.copy(), ec, K))
    flat = rnd.choice(cells)
    faces = h.parse_flat(flat)
    edges = sorted({(f[i - 1], f[i]) for f in faces for i in range(len(f))})
    a, b = rnd.choice(edges)
    n = len(poly.nodes.data)
    pos = np.array([[10.0 * v, 7.0 * (v * v % 13), 3.0 * (v % 5)] for v in range(n)])
    pos[b] = pos[a] + np.array([0.25, 0.0, 0.0])
    conv = np.arange(n, dtype=np.int32)
    one = (np.array([0, len(flat)], np.int32), np.array(flat, np.int32))
    out, _ = h.quiet(MC.merge_vertices, one, pos, np.zeros(1, np.int32), conv, 0.5)
    pairs = [(int(conv[v]), v) for v in range(n) if conv[v] != v]
    case = {'kind': 'single-merge', 'cell': flat, 'edge': [a, b]}
    if len(pairs) != 1:
        ctx.disagree('single merge: expected exactly one merged pair', case, pairs, [(a, b)])
        return
    (ka, kb), = pairs
    t = h.ask(ctx, f'c20.merge_vertex {ka} {kb} {h.enc_flat(flat)}')
    merged = h.read_faces(t)
    t = h.ask(ctx, 'c20.shrink ' + C.enc_list([flat_of(merged)], h.enc_flat))
    got = read_cells(t)
    want = [h.parse_flat(c) for c in h.cells_of(out)]
    if got != want:
        ctx.disagree('merge_vertices: single merge(a, b) + shrink', {**case, 'pair': [ka, kb]}, want, got)
    ctx.count('steps:single-merge:' + ('cell-kept' if want else 'cell-dropped'))
    ctx.case(('single-merge', tuple(flat), ka, kb))


def shrink_case(ctx, rnd):
    """shrink on cell lists with short faces and thin cells (states the pipeline itself never hands to it)"""
    import femio.mesh_compressor as MC
    h = H()
    if ctx.driver is None:
        return
    cells = []
    for _ in range(rnd.randint(1, 5)):
        faces = [[rnd.randrange(9) for _ in range(rnd.choice([0, 1, 2, 3, 3, 4, 5]))] for _ in range(rnd.randint(0, 5))]
        cells.append(flat_of(faces))
    ec = np.arange(len(cells), dtype=np.int32)
    out, _ = MC.shrink.py_func([np.array(c, np.int64) for c in cells], ec)
    want = [h.parse_flat([int(v) for v in c]) for c in out]
    t = h.ask(ctx, 'c20.shrink ' + C.enc_list(cells, h.enc_flat))
    got = read_cells(t)
    if got != want:
        ctx.disagree('shrink', {'kind': 'shrink', 'cells': cells}, want, got)
    ctx.count('steps:shrink-compared')
    ctx.case(('shrink', tuple(map(tuple, cells))))


def run_stream(ctx, n=None):
    h = H()
    h.warm_up()
    n = n if n is not None else ctx.n(10, 300)
    for i in range(n):
        m, params = h.gen_case(ctx.rng, i)
        if i % 2 == 0:
            # the regime of the volume clause: no vertex merging, (nearly) exact coplanarity
            params = dict(params, dist_thresh=0.0, cos_thresh=ctx.rng.choice([1 - 1e-9, 0.999]))
        steps_case(ctx, m, params)
        single_merge_case(ctx, ctx.rng, m)
        for _ in range(3):
            shrink_case(ctx, ctx.rng)


def replay(ctx, obj):
    case = obj['input']
    before = len(ctx.disagreements)
    steps_case(ctx, MG.from_json(case['mesh']), case['params'])
    return {'fails': False, 'disagrees': len(ctx.disagreements) > before}
