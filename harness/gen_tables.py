"""Tabulating translator (DESIGN.md 2.1): /repo's working tree -> lean/Femio/Gen/Tables.lean.

Every table is obtained by executing the real femio function on indicator inputs (or reading the
class attribute).  Each tabulated index map is additionally applied to a second, random input and
required to equal "input indexed by the table" - that the function *is* an index map is checked,
not assumed.  The file is rewritten only when its text changes (keeps lake builds incremental).
"""
import re
import contextlib
import io

import numpy as np

from . import common as C


def quiet(f, *a, **k):
    with contextlib.redirect_stdout(io.StringIO()):
        return f(*a, **k)


def chars(s):
    return '[' + ', '.join("'" + (c if c not in "'\\" else '\\' + c) + "'" for c in s) + ']'


def ll(x):
    return '[' + ', '.join(ll(y) if isinstance(y, (list, tuple)) else str(int(y)) for y in x) + ']'


ARITY = {'tet': 4, 'tet2': 10, 'hex': 8, 'pyr': 5, 'prism': 6, 'hexprism': 12}


class _Sec:
    """one group of tables: an exception while tabulating it is recorded (the tie of the properties that use these
    tables is then broken) instead of aborting the tabulation of all other tables"""

    def __init__(self, failed, name):
        self.failed, self.name = failed, name

    def __enter__(self):
        return self

    def __exit__(self, et, ev, tb):
        if et is not None and issubclass(et, Exception):
            self.failed[self.name] = f'{et.__name__}: {ev}'
            return True
        return False


# tables of each group (a failed group keeps its last good values, see `generate`)
GROUPS = {
    'codes': ['elementTypes', 'fistrCodeToType', 'fistrTypeToCode'],
    'prism': ['prismPermWrite', 'prismPermRead'],
    'meshio': ['tet2ToMeshio', 'tet2FromMeshio', 'femioToMeshio', 'meshioToFemio', 'dictExt'],
    'faces': ['facesOf'], 'fistrFaces': ['fistrTetFaceRows'], 'poly': ['polyFacesOf'], 'degeneracy': ['degeneracy'],
    'tensor': ['arr2matIdx', 'mat2arrIdx', 'arr2matEng', 'mat2arrEng'],
    'res': ['resSkipOld', 'resSkipV2', 'resMarker'], 'lru': ['lruSizes'], 'tetPermute': ['tetPermute'],
}
# Lean definition names generated from each table (used to find which properties depend on a failed group)
LEAN_NAMES = {
    'facesOf': ['faces_tet', 'faces_tet2', 'faces_hex', 'faces_pyr', 'faces_prism', 'faces_hexprism'],
    'polyFacesOf': ['polyFaces_tet', 'polyFaces_hex', 'polyFaces_prism', 'polyFaces_pyr'],
    'degeneracy': ['degen_01', 'degen_12', 'degen_23', 'degen_30'],
}


def tabulate():
    import femio  # noqa: F401
    from femio import FEMData, FEMAttribute, FEMElementalAttribute, config
    from femio.formats.fistr import fistr as fistr_mod
    from femio.formats.fistr.write_fistr import FistrWriter
    from femio import functions, graph_processor, geometry_processor, signal_processor

    T = {}
    FAILED = {}
    rng = np.random.default_rng(12345)
    with _Sec(FAILED, 'codes'):
        ET = list(FEMElementalAttribute.ELEMENT_TYPES)
        T['elementTypes'] = ET
        T['fistrCodeToType'] = dict(fistr_mod.FrontISTRData.DICT_FISTR_ELEMENTS)
        w = object.__new__(FistrWriter)

        def code(t):
            try:
                return w.detect_fistr_element_type(t)
            except ValueError:
                return None
        T['fistrTypeToCode'] = {t: code(t) for t in ET}

    with _Sec(FAILED, 'prism'):
        # prism permutation, write side and read side; second random input checks "is an index map"
        pw = w._reorder_prism_data(np.arange(6)[None, :])[0].tolist()
        r = rng.integers(1, 10**6, size=(3, 6))
        assert np.array_equal(w._reorder_prism_data(r.copy()), r[:, pw]), 'prism write reorder is not an index map'
        T['prismPermWrite'] = pw

        def read_perm(data):
            fr = object.__new__(fistr_mod.FrontISTRData)
            fr.elements = FEMElementalAttribute('ELEMENT', {
                'prism': FEMAttribute('prism', ids=np.arange(len(data)) + 1, data=data, silent=True)})
            quiet(fr._reorder_prism)
            return fr.elements['prism'].data
        pr = read_perm(np.arange(6)[None, :])[0].tolist()
        assert np.array_equal(read_perm(r.copy()), r[:, pr]), 'prism read reorder is not an index map'
        T['prismPermRead'] = pr

    with _Sec(FAILED, 'meshio'):
        ea = FEMElementalAttribute('ELEMENT', {
            'tet2': FEMAttribute('tet2', ids=[1], data=np.arange(10)[None, :], silent=True)})
        t2m = ea._to_meshio_tet2(np.arange(10)[None, :])[0].tolist()
        m2t = FEMElementalAttribute._from_meshio_tet2(np.arange(10)[None, :])[0].tolist()
        r10 = rng.integers(1, 10**6, size=(3, 10))
        assert np.array_equal(ea._to_meshio_tet2(r10.copy()), r10[:, t2m])
        assert np.array_equal(FEMElementalAttribute._from_meshio_tet2(r10.copy()), r10[:, m2t])
        T['tet2ToMeshio'], T['tet2FromMeshio'] = t2m, m2t
        T['femioToMeshio'] = dict(config.DICT_FEMIO_ELEMENT_TO_MESHIO_ELEMENT)
        T['meshioToFemio'] = dict(config.DICT_MESHIO_ELEMENT_TO_FEMIO_ELEMENT)
        T['dictExt'] = dict(config.DICT_EXT)

    with _Sec(FAILED, 'faces'):
        class Dummy(graph_processor.GraphProcessorMixin):
            pass
        d = Dummy()
        faces = {}
        for t, n in ARITY.items():
            res = d._generate_all_faces(np.arange(n)[None, :], t, method=np.stack)
            fl = [np.asarray(x)[0].tolist() for x in res] if isinstance(res, (list, tuple)) else [f for f in np.asarray(res)[0].tolist()]
            # second input: a random injective relabelling must give the relabelled table
            lab = rng.permutation(1000)[:n]
            res2 = d._generate_all_faces(lab[None, :], t, method=np.stack)
            fl2 = [np.asarray(x)[0].tolist() for x in res2] if isinstance(res2, (list, tuple)) else [f for f in np.asarray(res2)[0].tolist()]
            flat = [f for g in fl for f in (g if isinstance(g[0], list) else [g])]
            flat2 = [f for g in fl2 for f in (g if isinstance(g[0], list) else [g])]
            assert flat2 == [[int(lab[i]) for i in f] for f in flat], f'face table of {t} is not an index map'
            faces[t] = flat
        T['facesOf'] = faces

    with _Sec(FAILED, 'fistrFaces'):
        nodes = FEMAttribute('NODE', ids=np.arange(4) + 1, data=np.eye(4, 3), silent=True)
        fd = FEMData(nodes=nodes, elements=FEMElementalAttribute('ELEMENT', {
            'tet': FEMAttribute('tet', ids=[7], data=np.array([[1, 2, 3, 4]]), silent=True)}))
        T['fistrTetFaceRows'] = quiet(fd.extract_surface_fistr).tolist()

    with _Sec(FAILED, 'poly'):
        # polyhedron kernels under a NON-identity argsort, decoded to local vertex numbers
        node_ids = np.arange(12, dtype=np.int64) * 10 + 5
        argsort = np.array([3, 0, 7, 1, 11, 2, 9, 4, 10, 5, 8, 6])
        inv = {int(argsort[k]): k for k in range(12)}
        poly = {}
        for t, f in [('tet', FEMData.tet_to_polyhedron), ('hex', FEMData.hex_to_polyhedron),
                     ('prism', FEMData.prism_to_polyhedron), ('pyr', FEMData.pyr_to_polyhedron)]:
            n = ARITY[t]
            perm = rng.permutation(n)
            dat = node_ids[:n][perm].astype(np.int32)     # local vertex k has id node_ids[perm[k]]
            out = [int(x) for x in f(dat, node_ids, argsort)]
            nf = out[0]
            fs, i = [], 1
            for _ in range(nf):
                k = out[i]
                fs.append(out[i + 1:i + 1 + k])
                i += 1 + k
            # storage position p -> sorted rank inv[p] -> local vertex number
            rank2local = {int(perm[k]): k for k in range(n)}
            dec = []
            for fc in fs:
                # position 1000 + raw marks an entry that is not the storage position of one of the
                # element's own nodes (e.g. a missing argsort[...])
                dec.append([rank2local[inv[p]] if (p in inv and inv[p] in rank2local) else 1000 + p for p in fc])
            poly[t] = dec
        T['polyFacesOf'] = poly

    with _Sec(FAILED, 'degeneracy'):
        def degen(pattern):
            ids = np.arange(1, 9)
            data = ids.copy()
            a, b = pattern
            data[b] = data[a]
            data[b + 4] = data[a + 4]
            nodes = FEMAttribute('NODE', ids=ids, data=rng.random((8, 3)), silent=True)
            fd = FEMData(nodes=nodes, elements=FEMElementalAttribute('ELEMENT', {
                'hex': FEMAttribute('hex', ids=[1], data=data[None, :], silent=True)}))
            r = quiet(fd.resolve_degeneracy)
            return (r.elements['prism'].data[0] - 1).tolist()
        T['degeneracy'] = {f'{a}{b}': degen((a, b)) for a, b in [(0, 1), (1, 2), (2, 3), (3, 0)]}

    with _Sec(FAILED, 'tensor'):
        ind = np.arange(6, dtype=float)[None, :]
        T['arr2matIdx'] = functions.convert_array2symmetric_matrix(ind.copy()).reshape(-1).astype(int).tolist()
        T['mat2arrIdx'] = functions.convert_symmetric_matrix2array(
            np.arange(9, dtype=float).reshape(1, 3, 3)).reshape(-1).astype(int).tolist()
        # C17: engineering-shear factors per array slot as exact rationals (num, den), read off indicator inputs;
        # then "index map x slot-wise factor, applied after / before the reordering" is checked on a random input
        from fractions import Fraction as _Fr
        a2m, m2a = T['arr2matIdx'], T['mat2arrIdx']
        e6, e9 = np.eye(6), np.eye(9).reshape(9, 3, 3)
        fa = functions.convert_array2symmetric_matrix(e6.copy(), from_engineering=True).reshape(6, 9)
        fm = functions.convert_symmetric_matrix2array(e9.copy(), to_engineering=True).reshape(9, 6)
        sa = [_Fr(float(fa[k, a2m.index(k)])) for k in range(6)]
        sm = [_Fr(float(fm[m2a[k], k])) for k in range(6)]
        r6, o6 = rng.integers(1, 10**6, size=(3, 6)).astype(float), [int(x) for x in rng.permutation(6)]
        r9 = rng.integers(1, 10**6, size=(3, 3, 3)).astype(float)
        fsa, fsm = np.array([float(x) for x in sa]), np.array([float(x) for x in sm])
        assert np.array_equal(functions.convert_array2symmetric_matrix(r6.copy(), order=o6).reshape(3, 9), r6[:, o6][:, a2m]), \
            'array2symmetric_matrix is not an index map'
        assert np.array_equal(functions.convert_array2symmetric_matrix(r6.copy(), from_engineering=True, order=o6).reshape(3, 9),
                              (r6[:, o6] * fsa)[:, a2m]), 'array2symmetric_matrix: engineering factors are not slot-wise after reordering'
        assert np.array_equal(functions.convert_symmetric_matrix2array(r9.copy(), order=o6), r9.reshape(3, 9)[:, m2a][:, o6]), \
            'symmetric_matrix2array is not an index map'
        assert np.array_equal(functions.convert_symmetric_matrix2array(r9.copy(), to_engineering=True, order=o6),
                              (r9.reshape(3, 9)[:, m2a] * fsm)[:, o6]), 'symmetric_matrix2array: engineering factors are not slot-wise before reordering'
        T['arr2matEng'] = [(x.numerator, x.denominator) for x in sa]
        T['mat2arrEng'] = [(x.numerator, x.denominator) for x in sm]

    with _Sec(FAILED, 'res'):
        # C02: header constants of FrontISTRData._split_series, tabulated from its behaviour on probe files: how
        # many leading lines are dropped without / with the version-2 marker in the header.  The marker itself is
        # found among the string constants of the module's source (any syntactic shape): the one whose presence in
        # a header line changes the number of dropped lines.
        import ast as _ast, inspect as _inspect
        from femio.util import string_parser as _st
        _d = fistr_mod.FrontISTRData()

        def _skip(hdr):
            lines = [f"{k}.0E+00" for k in range(60)]
            lines[50] = 'NAME'
            if hdr is not None:
                lines[1] = hdr
            n, _e = quiet(_d._split_series, _st.StringSeries(lines))
            return int(float(list(n)[0]))
        _old = _skip(None)
        _cands = sorted({n.value for n in _ast.walk(_ast.parse(_inspect.getsource(fistr_mod)))
                         if isinstance(n, _ast.Constant) and isinstance(n.value, str)
                         and re.fullmatch(r'[A-Za-z_*!]{3,40}', n.value)})
        _hits = []
        for c in _cands:
            try:
                k = _skip(c)
            except Exception:
                continue
            if k != _old:
                _hits.append((c, k))
        assert len(_hits) == 1, f'_split_series: version marker not identified uniquely: {_hits}'
        assert _skip('xx' + _hits[0][0] + 'yy') == _hits[0][1], '_split_series: marker is not searched anywhere in the line'
        T['resSkipOld'], T['resSkipV2'], T['resMarker'] = _old, _hits[0][1], _hits[0][0]

    with _Sec(FAILED, 'lru'):
        sizes = {}
        for mod in (graph_processor.GraphProcessorMixin, geometry_processor.GeometryProcessorMixin,
                    signal_processor.SignalProcessorMixin):
            for name, obj in vars(mod).items():
                if hasattr(obj, 'cache_parameters'):
                    sizes[name] = obj.cache_parameters()['maxsize']
        T['lruSizes'] = sizes

    with _Sec(FAILED, 'tetPermute'):
        # (package D / C18) `_permute` of make_elements_positive on a tet mesh: local vertex order of a re-oriented tet
        fdp = FEMData(nodes=FEMAttribute('NODE', ids=np.arange(4) + 1, data=np.eye(4, 3), silent=True),
                      elements=FEMElementalAttribute('ELEMENT', {
                          'tet': FEMAttribute('tet', ids=[1], data=np.array([[1, 2, 3, 4]]), silent=True)}))
        tp = quiet(fdp._permute, np.arange(4)[None, :])[0].tolist()
        rp = rng.integers(1, 10**6, size=(3, 4))
        assert np.array_equal(quiet(fdp._permute, rp.copy()), rp[:, tp]), '_permute is not an index map'
        T['tetPermute'] = tp
    T['_failed'] = FAILED
    return T


def render(T):
    ET = T['elementTypes']
    out = ['/-! GENERATED from /repo\'s working tree by harness/gen_tables.py on every run - do not edit. -/',
           'namespace Femio.Gen', '']
    out.append('def elementTypes : List (List Char) := [' + ', '.join(chars(t) for t in ET) + ']')
    for k in ['prismPermWrite', 'prismPermRead', 'tet2ToMeshio', 'tet2FromMeshio', 'arr2matIdx', 'mat2arrIdx']:
        out.append(f'def {k} : List Nat := {ll(T[k])}')
    for k in ['arr2matEng', 'mat2arrEng']:
        out.append(f'def {k} : List (Nat × Nat) := [' + ', '.join(f'({a}, {b})' for a, b in T[k]) + ']')
    for t, fs in T['facesOf'].items():
        out.append(f'def faces_{t} : List (List Nat) := {ll(fs)}')
    for t, fs in T['polyFacesOf'].items():
        out.append(f'def polyFaces_{t} : List (List Nat) := {ll(fs)}')
    w = [(ET.index(t), int(c)) for t, c in T['fistrTypeToCode'].items() if c is not None]
    r = [(int(c), ET.index(t)) for c, t in T['fistrCodeToType'].items()]
    out.append('def fistrTypeToCode : List (Nat × Nat) := [' + ', '.join(f'({a}, {b})' for a, b in w) + ']')
    out.append('def fistrCodeToType : List (Nat × Nat) := [' + ', '.join(f'({a}, {b})' for a, b in r) + ']')
    out.append(f"def fistrTetFaceRows : List (List Nat) := {ll(T['fistrTetFaceRows'])}")
    for k, v in T['degeneracy'].items():
        out.append(f'def degen_{k} : List Nat := {ll(v)}')
    out.append('def femioToMeshio : List (List Char × List Char) := [' + ', '.join(
        f'({chars(a)}, {chars(b)})' for a, b in T['femioToMeshio'].items()) + ']')
    out.append('def meshioToFemio : List (List Char × List Char) := [' + ', '.join(
        f'({chars(a)}, {chars(b)})' for a, b in T['meshioToFemio'].items()) + ']')
    out.append('def lruSizes : List (List Char × Nat) := [' + ', '.join(
        f'({chars(k)}, {v})' for k, v in T['lruSizes'].items()) + ']')
    out.append(f"def resSkipOld : Nat := {T['resSkipOld']}")
    out.append(f"def resSkipV2 : Nat := {T['resSkipV2']}")
    out.append(f"def resMarker : List Char := {chars(T['resMarker'])}")
    if 'tetPermute' in T:
        out.append(f"def tetPermute : List Nat := {ll(T['tetPermute'])}")
    out += ['', 'end Femio.Gen', '']
    return '\n'.join(out)


def _jsonable(T):
    return {k: v for k, v in T.items() if k != '_failed'}


def generate():
    """returns (changed, info); info['failed'] = {group: message} for groups that could not be tabulated (their tables
    keep the last good values from Gen/tables.json so that the library still builds for the other properties)"""
    import json
    T = tabulate()
    failed = T.pop('_failed', {})
    cache = C.LEAN / 'Femio' / 'Gen' / 'tables.json'
    last = json.loads(cache.read_text()) if cache.exists() else {}
    for g, msg in failed.items():
        for t in GROUPS[g]:
            if t in last:
                T[t] = last[t]
            elif t != 'tetPermute':
                raise RuntimeError(f'table {t} could not be tabulated ({msg}) and no last good value exists')
    txt = render(T)
    f = C.LEAN / 'Femio' / 'Gen' / 'Tables.lean'
    f.parent.mkdir(parents=True, exist_ok=True)
    changed = (not f.exists()) or f.read_text() != txt
    with C.build_lock():
        if changed:
            f.write_text(txt)
        if not failed:
            js = json.dumps(_jsonable(T), indent=0)
            if not cache.exists() or cache.read_text() != js:
                cache.write_text(js)
    failed_tables = sorted(t for g in failed for t in GROUPS[g])
    failed_names = sorted(n for t in failed_tables for n in LEAN_NAMES.get(t, [t]))
    return changed, {'tables': sorted(T.keys()), 'failed': failed, 'failed_lean_names': failed_names}


if __name__ == '__main__':
    print(generate())
