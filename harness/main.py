"""./check <Cxx> --tier quick|thorough | --replay <file> | --setup   (flow: DESIGN.md section 1.1)"""
import argparse
import importlib
import json
import os
import sys
import time
import traceback

from . import common as C

ALL = [f'C{i:02d}' for i in range(1, 21)]


def load(prop):
    return importlib.import_module(f'harness.{prop.lower()}')


def regen(ctx_notes):
    """step 1: regenerate Femio/Gen/Tables.lean from /repo's working tree"""
    try:
        from . import gen_tables
        changed, info = gen_tables.generate()
        return True, info
    except Exception as e:  # tabulation itself failed: a broken tie, handled by the verdict
        ctx_notes.append('gen_tables failed: ' + ''.join(traceback.format_exception_only(type(e), e)).strip())
        return False, {'error': repr(e), 'trace': traceback.format_exc()[-2000:]}


def setup():
    notes = []
    ok, info = regen(notes)
    print('gen_tables:', 'ok' if ok else 'FAILED', notes)
    okb, out, dt = C.lake_build([], timeout=7000)
    print(out[-3000:])
    print(f'lake build: {"ok" if okb else "FAILED"} in {dt:.0f}s')
    # separately built proof modules (not imported by Femio.lean so that their failure cannot take the library down):
    # the symbolic kernel tie of C11 (harness/gen_kernels.py -> Gen/Kernels.lean -> Props/KernelTie.lean)
    try:
        from . import gen_kernels
        gen_kernels.generate()
        okk, outk, dtk = C.lake_build(['Femio.Props.KernelTie'], timeout=3000)
        print(f'lake build Femio.Props.KernelTie: {"ok" if okk else "FAILED"} in {dtk:.0f}s')
        if not okk:
            print(outk[-1500:])
    except Exception as e:  # best effort: the C11 check builds it itself and reports what breaks
        print('kernel tie: not built during setup:', repr(e))
    # the symbolic tensor tie of C17 (harness/gen_tensor_kernels.py -> Gen/TensorKernels.lean -> Props/TensorTie.lean)
    try:
        from . import gen_tensor_kernels
        gen_tensor_kernels.generate()
        okk, outk, dtk = C.lake_build(['Femio.Props.TensorTie'], timeout=3000)
        print(f'lake build Femio.Props.TensorTie: {"ok" if okk else "FAILED"} in {dtk:.0f}s')
        if not okk:
            print(outk[-1500:])
    except Exception as e:  # best effort: the C17 check builds it itself and reports what breaks
        print('tensor tie: not built during setup:', repr(e))
    return 0 if okb else 1


def run_check(prop, tier, seed):
    mod = load(prop)
    ctx = C.Ctx(prop, tier, seed)
    obligations = []      # (name, ok, detail)
    broken = []           # names of proof obligations / ties that no longer check
    try:
        # 1. regenerate tables
        gen_ok, gen_info = regen(ctx.notes)
        if gen_ok and gen_info.get('failed'):
            # some groups of tables could not be tabulated from the working tree: that breaks the tie of exactly the
            # properties whose Lean modules use those tables (the others keep building on the last good values)
            hit = C.uses_generated(list(mod.LEAN_MODULES), gen_info.get('failed_lean_names', []))
            ctx.notes.append(f'gen_tables: groups failed {gen_info["failed"]}; used by this property: {hit}')
            if hit:
                gen_ok = False
                gen_info = {'failed': gen_info['failed'], 'used_here': hit}
        obligations.append(('tie:gen_tables', gen_ok, '' if gen_ok else str(gen_info)[:500]))
        # 2. build
        targets = list(mod.LEAN_MODULES) + ['femio_driver']
        ok, out, dt = C.lake_build(targets)
        ctx.extra['build_s'] = round(dt, 1)
        if not ok:
            ctx.lean_ok = False
            errs = [l for l in out.splitlines() if 'error' in l][:20]
            obligations.append(('lean:build', False, '\n'.join(errs)))
            # try the driver alone so that the correspondence can still run
            okd, outd, _ = C.lake_build(['femio_driver'])
            driver_ok = okd
        else:
            obligations.append(('lean:build', True, ''))
            driver_ok = True
        # 3. audit
        thms = {}
        if ok:
            thms, raw, aok = C.audit(prop)
            for name in mod.THEOREMS:
                full = [k for k in thms if k == name or k.endswith('.' + name)]
                if not full:
                    obligations.append((f'theorem:{name}', False, 'not found in audit output'))
                    continue
                ax = thms[full[0]]
                bad = [a for a in ax if a not in C.ALLOWED_AXIOMS]
                obligations.append((f'theorem:{name}', not bad, 'axioms: ' + ', '.join(ax) if ax else 'no axioms'))
            hits = C.grep_forbidden()
            obligations.append(('audit:no sorry/admit/axiom/native_decide/bv_decide/implemented_by/unsafe', not hits, '; '.join(hits[:10])))
            if tier == 'thorough':
                with C.build_lock():
                    rc, lo = C.sh(['lake', 'env', 'leanchecker'] + list(mod.LEAN_MODULES), cwd=C.LEAN, timeout=3000)
                obligations.append(('leanchecker:' + ','.join(mod.LEAN_MODULES), rc == 0, lo[-500:]))
        else:
            for name in mod.THEOREMS:
                obligations.append((f'theorem:{name}', False, 'library did not build'))
        # 3b. optional: proof obligations of the property that are generated / built / audited SEPARATELY from LEAN_MODULES
        #     (so that a failure there cannot take the other modules or the driver down), e.g. C11's symbolic kernel tie:
        #     mod.EXTRA_OBLIGATIONS(ctx) -> [(name, ok, detail)]
        if hasattr(mod, 'EXTRA_OBLIGATIONS'):
            try:
                obligations += [tuple(o) for o in mod.EXTRA_OBLIGATIONS(ctx)]
            except C.Timeout:
                raise
            except Exception as e:
                obligations.append(('tie:extra-obligations', False, traceback.format_exc()[-1500:]))
                ctx.notes.append(f'EXTRA_OBLIGATIONS raised {e!r}')
        # 4. correspondence + oracle
        if driver_ok:
            try:
                ctx.driver = C.Driver()
            except Exception as e:
                ctx.notes.append(f'driver unavailable: {e!r}')
                obligations.append(('tie:driver', False, repr(e)))
        from . import linecov
        cov = linecov.LineCov(C.REPO)
        cov_on = cov.start()
        try:
            try:
                mod.run(ctx)
            finally:
                cov.stop()
                if cov_on:
                    try:
                        ctx.extra['code_coverage'] = cov.report(linecov.anchors_of(prop, C.VERIF / 'properties.jsonl'))
                    except Exception as e:      # a diagnostic only: never part of the verdict
                        ctx.extra['code_coverage'] = {'error': repr(e)}
        except C.Timeout:
            raise
        except Exception as e:
            # an exception that comes out of femio itself on a generated (in-quantifier) input is an observation about
            # the implementation, not a harness failure: report it as an oracle failure with the traceback as replay
            tb = traceback.extract_tb(e.__traceback__)
            inside = [f for f in tb if str(C.REPO) in f.filename]
            if not inside:
                # the harness itself tripped over what the implementation returned.  If there is independent evidence
                # that the tree changed behaviour (a broken obligation, a disagreement, an oracle failure) this is part
                # of that breakage and is reported as a broken correspondence; otherwise it is a harness bug (exit 2)
                # (a blessed tree = byte-identical to the one the harness was validated on: there the trip is the harness's own
                # fault; on any other tree the correspondence could not be established, which is what gets reported)
                if not (ctx.disagreements or ctx.failures or any(not o[1] for o in obligations)) and C.tree_is_blessed():
                    raise
                obligations.append(('tie:harness-could-not-interpret-the-implementation-output', False,
                                    traceback.format_exc()[-1500:]))
                ctx.notes.append('run aborted: the harness could not interpret the output of the implementation')
                inside = None
            if inside is None:
                pass
            else:
                f = inside[-1]
                ctx.fail(f'raises:{f.name}', f'femio raised {type(e).__name__}: {e} in {f.filename.replace(str(C.REPO) + "/", "")}:{f.lineno} '
                         f'({f.name}) on a generated input of the {prop} check', {'traceback': traceback.format_exc()[-3000:],
                                                                                  'seed': seed, 'tier': tier}, None)
                ctx.notes.append('run aborted by an exception inside femio; cases after it were not evaluated')
        obligations.append(('tie:correspondence', not ctx.disagreements and ctx.driver is not None,
                            f'{len(ctx.disagreements)} disagreements' if ctx.driver is not None else 'model driver not available'))
    except C.Timeout:
        print(f'TIMEOUT property={prop}')
        ctx.cleanup()
        return 2
    except Exception:
        traceback.print_exc()
        print(f'HARNESS-ERROR property={prop}')
        ctx.cleanup()
        return 2

    # 5. verdict
    known = [k for k in C.load_known() if k.get('property') == prop and k.get('status') == 'open']
    known_sigs = {k['signature']: k for k in known}
    new_fail = [f for f in ctx.failures if f['signature'] not in known_sigs]
    seen_known = sorted({f['signature'] for f in ctx.failures if f['signature'] in known_sigs})
    broken = [o for o in obligations if not o[1]]
    rc = 0
    lines = []
    for s in seen_known:
        lines.append(f"KNOWN-FINDING: property={prop} {known_sigs[s]['what_fails']}")
    if new_fail:
        f0 = new_fail[0]
        path = C.write_replay(prop, {
            'property': prop, 'kind': 'failing-input', 'signature': f0['signature'], 'what': f0['what'],
            'input': f0['case'], 'observed_impl': f0['observed'], 'seed': seed, 'tier': tier,
            'other_failures': [{'signature': f['signature'], 'what': f['what'], 'input': f['case']}
                               for f in list({g['signature']: g for g in reversed(new_fail[1:])}.values())[:12]],
            'broken_obligations': [o[0] for o in broken], 'repo': C.repo_state()})
        lines.append(f'VIOLATION property={prop} replay={path}')
        rc = 1
    elif broken:
        # a proof obligation or the correspondence no longer checks and no failing input was found
        path = C.write_replay(prop, {
            'property': prop, 'kind': 'broken-theorem-or-correspondence',
            'broken_obligations': [{'name': o[0], 'detail': o[2]} for o in broken],
            'disagreements': ctx.disagreements[:5], 'seed': seed, 'tier': tier,
            'search': f'{ctx.evaluations} cases tried by the property oracle, none failed', 'repo': C.repo_state()})
        lines.append(f'VIOLATION property={prop} replay={path} no-failing-input-found')
        rc = 1

    n_obl = len(obligations)
    n_ok = sum(1 for o in obligations if o[1])
    ev = {
        'property_id': prop, 'tier': tier, 'seed': seed, 'level': 'proof',
        'coverage': {
            'obligations': n_obl, 'discharged': n_ok,
            'checker_cmd': f'cd lean && lake build {" ".join(mod.LEAN_MODULES)} femio_driver && lake env lean Femio/Audit/{prop}.lean'
                           + (' && lake env leanchecker ' + ' '.join(mod.LEAN_MODULES) if tier == 'thorough' else ''),
            'trusted_base': C.TRUSTED_BASE + list(getattr(mod, 'TRUSTED', [])),
            'obligation_list': [{'name': o[0], 'ok': o[1], 'detail': o[2]} for o in obligations],
            'theorems': list(mod.THEOREMS) + list(getattr(mod, 'EXTRA_THEOREMS', [])),
            'partial': list(getattr(mod, 'PARTIAL', [])),
            'evaluations': ctx.evaluations, 'distinct_nontrivial': len(ctx.distinct),
            'rule': getattr(mod, 'RULE', ''),
            'samples': C.jsonable(ctx.samples) or ['(no sample recorded)'],
            'distribution': ctx.dist,
            'disagreements': len(ctx.disagreements),
            'known_findings_seen': seen_known,
            'model_requests': ctx.driver.n if ctx.driver else 0,
            'notes': ctx.notes, **ctx.extra,
        },
        'assumptions': list(getattr(mod, 'ASSUMPTIONS', [])) + ctx.assumptions,
        'wall_s': round(time.time() - ctx.t0, 2),
        'violations': len(new_fail) + (1 if (broken and not new_fail) else 0),
    }
    C.EVIDENCE.mkdir(exist_ok=True)
    (C.EVIDENCE / f'{prop}.json').write_text(json.dumps(C.jsonable(ev), indent=1))
    for l in lines:
        print(l)
    print(f'{prop} {tier}: obligations {n_ok}/{n_obl}, cases {ctx.evaluations} ({len(ctx.distinct)} distinct), '
          f'disagreements {len(ctx.disagreements)}, failures {len(ctx.failures)} (known {len(ctx.failures) - len(new_fail)}), '
          f'{time.time() - ctx.t0:.0f}s -> exit {rc}')
    ctx.cleanup()
    return rc


def replay(prop, path):
    mod = load(prop)
    obj = json.loads(open(path).read())
    ctx = C.Ctx(prop, 'quick', obj.get('seed', 0))
    try:
        try:
            ctx.driver = C.Driver()
        except Exception as e:
            print('model driver not available:', e)
        if not hasattr(mod, 'replay'):
            print('no replay for', prop)
            return 2
        res = mod.replay(ctx, obj)
        print(json.dumps(C.jsonable(res), indent=1))
        return 1 if res.get('fails') else 0
    finally:
        ctx.cleanup()


def main(argv=None):
    ap = argparse.ArgumentParser()
    ap.add_argument('prop', nargs='?')
    ap.add_argument('--tier', default=os.environ.get('VERIF_TIER', 'quick'), choices=['quick', 'thorough'])
    ap.add_argument('--replay')
    ap.add_argument('--setup', action='store_true')
    a = ap.parse_args(argv)
    seed = int(os.environ.get('VERIF_SEED', '0') or 0)
    if a.setup:
        return setup()
    if a.prop not in ALL:
        ap.error('property id C01..C20 expected')
    if a.replay:
        return replay(a.prop, a.replay)
    return run_check(a.prop, a.tier, seed)


if __name__ == '__main__':
    sys.exit(main())
