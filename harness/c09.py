"""C09 - sub-mesh extraction keeps ids, values and geometry attached (DESIGN.md section 4, C09).

Tie D: the eight operations are run on the real `FEMData` (fresh object per operation) and on the model
(`c09.<op>` of femio_driver = Femio/Model/SubMesh.lean); nodes, elements, nodal and elemental variables of
the two results are compared as id-keyed maps, exceptions by class.
Oracle: the three clauses of the property evaluated on the returned `FEMData` through the public API only.
Streams outside the property's quantifier (labelled, never reported through `fail`): selections that are
empty / name nothing that exists / name a missing node / an out-of-range position (`outside:*`), and nodal
variables whose own id order differs from the mesh (`misaligned:*`, classified as DESIGN section 5 / F9).

Node ids (round 3, seeded C09-6): besides dense / sparse / ~1e6 / ~2e9 / prefix-like ids the meshes get "sparse but
small" id sets with additive structure (`small_sparse_ids`: separately numbered parts whose offsets are about the
node count, digit-shifted / multiplied ids, strides, max id just above the node count): what an index arithmetic on ids
(packed keys, radix encodings, `id - offset` tables) gets wrong while `ids 1..n` and random sparse ids pass.  The
operations whose result depends on the node ids only through facets (surface / facets / first order / remove useless)
are in addition run on renumbered copies of every mesh (`renumber` stream, oracle only), and every input on which
model and code disagree is handed to `intensify` (the same mesh under many node numberings and storage orders, the
operation with freshly drawn selections, judged by the property oracle) so that a broken correspondence ends in a
concrete failing input whenever the disagreement is a symptom of a property violation nearby.

Element types (round 4, seeded C09-8): the generators produce every type the face tables of `_generate_all_faces` know, incl.
the 12-node hexagonal prism (combinatorial meshes; conforming columns of stacked hexprisms, also mixed with hex / prism); the
oracle's hand table `FACES` covers it; `C09_face_tables_closed` is a `decide` obligation on the regenerated tables.

Round 5 (seeded C09-10, classes K L M N O Q S):
* variable TABLES (class K): a variable is what a KEY of nodal_data / elemental_data is bound to; the attribute's own `.name`
  is free data.  `bind_table` makes the relation key -> name non-trivial and many-to-one on 40 % of the meshes (two keys with
  attributes of the same name, names of two keys exchanged, a name that is no key - unrelated / lower case / prefix-like -,
  a second key bound to the same attribute OBJECT, a '<key>_prev' entry carrying the name of `key`; installed by item
  assignment or `set_attribute_data(key, data, name=...)`).  The oracle and the model always were keyed by the table key;
  Lean: `C09_table_by_key`, `C09_table_rekey_by_name_counterexample`, `C09_table_rekey_blind` (why key = name tables are blind).
* value kinds (classes N, L): variables stored as float32 / float16 / int64 / int32 / int8 / uint8 / uint16 / bool, and float64
  fields whose values are distinct but look equal under np.allclose defaults (`near`, `tiny`); values exactly representable.
* ids (class N): 0-based, negative, negative + ~2e9 node AND element ids - streams `signed` (all ten operations) and
  `renumber`, oracle only (the model's ids are naturals).
* meshes: tet + tet2 / hex + hex2 in one mesh (class O), n_node == n_element (class M).
* stream `chain` (classes S, Q, C; oracle only): every operation also on DERIVED objects (the result of a first operation,
  which carries the tables that operation built) and several operations in sequence on ONE live object, some preceded by a
  refused call; each judged against a snapshot of the object's public state just before the call (`snapshot`).  Reported
  cases carry the history as `prefix` (`run_hist`).  `remove_useless_nodes` (in place) is always the last call on an object:
  a facet query after it on the same object is the open C19 family (stale lru_cache after an in-place modification).
"""
from fractions import Fraction as F

import numpy as np

from . import common as C
from . import meshgen as G

PROP = 'C09'
LEAN_MODULES = ['Femio.Props.C09']
THEOREMS = [
    'C09_sweep_correct', 'C09_sweep_error_iff',
    'C09_self_contained_cut_eids', 'C09_self_contained_cut_type', 'C09_self_contained_extract_idx',
    'C09_self_contained_cut_nids', 'C09_self_contained_remove_useless', 'C09_self_contained_first_order',
    'C09_self_contained_surface', 'C09_self_contained_facets',
    'C09_exact_selection_cut_eids', 'C09_exact_selection_cut_type', 'C09_exact_selection_extract_idx',
    'C09_exact_selection_cut_nids', 'C09_exact_selection_remove_useless', 'C09_exact_selection_first_order',
    'C09_exact_selection_surface', 'C09_exact_selection_facets',
    'C09_values_attached_cut_eids', 'C09_values_attached_cut_type', 'C09_values_attached_extract_idx',
    'C09_values_attached_cut_nids', 'C09_values_attached_remove_useless', 'C09_values_attached_first_order',
    'C09_values_attached_surface', 'C09_values_attached_facets',
    'C09_cut_succeeds',
    'C09_surface_once_only',
    'C09_self_contained_surface_keep', 'C09_exact_selection_surface_keep', 'C09_values_attached_surface_keep',
    'C09_self_contained_facets_all', 'C09_exact_selection_facets_all', 'C09_values_attached_facets_all',
    'C09_radix_key_injective', 'C09_radix_key_counterexample',
    'C09_face_tables_closed',
    'C09_table_by_key', 'C09_filter_keeps_keys', 'C09_table_rekey_by_name_counterexample', 'C09_table_rekey_blind',
]
PARTIAL = []
RULE = ('meshes: conforming geometric bricks (tet / hex / pyr / prism / mixed, optionally promoted to tet2) and '
        'combinatorial meshes over line/tri/quad/tet/tet2/pyr/prism/hex/hex2/hexprism with arbitrary connectivity; 8 % of the meshes '
        'conforming columns of stacked 12-node hexagonal prisms (1-2 neighbouring columns x 1-3 layers: caps are interior interfaces, '
        'side faces shared between columns), half of them MIXED with hexes / triangular prisms attached to side faces - every '
        'element type the face tables of _generate_all_faces know (tri quad tet tet2 pyr prism hex hexprism) is generated; node and element '
        'ids dense / sparse / ~1e6 / ~2e9 / prefix-like, and (30 % of the meshes) SPARSE BUT SMALL node ids with additive '
        'structure (2-3 separately numbered dense parts whose offsets are about the node count, ids that are multiples / '
        'digit shifts of each other, strides, max id just above the node count); storage order ascending / descending / '
        'shuffled / looks-sorted, optional unreferenced nodes; 1-3 nodal variables of rank 1-3 and 0-2 elemental variables (single `unknown` block or one block '
        'per element type) aligned with the mesh, values distinct dyadic rationals; on 40 % of the meshes the relation table key -> '
        'FEMAttribute.name of the nodal and / or elemental table is NOT the identity (same name under two keys, swapped names, a name '
        'that is no key: unrelated / lower case / prefix-like, one attribute object under two keys, a <key>_prev entry named <key>; '
        'item assignment or set_attribute_data(key, data, name=)); on 30 % variables in float32 / float16 / int64 / int32 / int8 / uint8 / '
        'uint16 / bool, float64 with a spread below 4e-12, or float64 using all 53 mantissa bits (all values exactly representable); 12 % of the combinatorial meshes mix '
        'tet + tet2 / hex + hex2; meshes with n_node == n_element; per mesh every operation is run with '
        'singleton / all / random-subset selections in random order (element cuts also with ids that do not exist mixed in); '
        'the ten operations include to_surface(remove_unnecessary_nodes=False) and to_facets(remove_duplicates=False); '
        'stream `renumber` (oracle only): every mesh again under 2 (thorough: 4) other node numberings / storage orders for the '
        'operations without a selection; stream `intensify` (only when model and code disagree): the disagreeing mesh under 40 '
        'numberings with freshly drawn selections, judged by the property oracle; '
        'a case is (mesh, variables, operation, selection); non-trivial when the result differs from the input or the '
        'operation has to re-index (storage order not ascending)')
ASSUMPTIONS = [
    'a variable of a mesh is identified by its KEY in nodal_data / elemental_data (that is how the property\'s observables are '
    'looked up); the `.name` attribute of the FEMAttribute in the result is not judged (to_surface / to_first_order rename it to the key)',
    'chain stream: the mesh an operation on a live / derived object is judged against is the snapshot of that object\'s public state '
    '(nodes, elements, every table entry by key) taken immediately before the call; whether an EARLIER call changed the object is '
    'C19\'s matter, not C09\'s; remove_useless_nodes is the last call on an object (open C19 finding family: stale lru_cache of '
    'extract_surface after an in-place modification)',
    'non-positive ids (0-based, negative) are inside "ids unsorted / sparse" for the ORACLE (streams signed, renumber, intensify); the '
    'Lean model has natural-number ids and is not asked about them',
    'variables are compared as flat rows per id: `filter_with_ids` returns rank-3 data flattened to rank 2 '
    '(observed, counted as `shape:flattened`), which the property (values) does not forbid',
    'selections contain no duplicate ids (DESIGN C09); duplicates yield duplicated elements and are not generated',
    '`to_first_order` keeps the label tet2/hex2 on the corner connectivity: transcribed by the model, not judged by the oracle',
    'surface / facet elements are new entities numbered 1..k; C09 checks, for every mesh, that as vertex sets they are exactly '
    'the faces that belong to one element (to_surface, extract_surface; the harness counts the faces of all elements itself '
    'from meshgen.FACES) / all faces once (to_facets) / all faces once per element (remove_duplicates=False), that every node '
    'of such a face is retained and that retained nodes keep ids, coordinates and values; orientation and geometry of the '
    'facets are C10',
    'hexprism (12-node hexagonal prism): femio\'s facets are triangles / quadrangles only; the faces of the element are its six side '
    'quadrangles and, per hexagonal cap, the two quadrangles on either side of the 1-4 (top: 7-10) diagonal (femio\'s convention, under '
    'which the top cap of a prism is, as vertex sets, the bottom cap of the prism stacked on it); polygon / polyhedron cells (object '
    'arrays + separate face data) are not generated',
    'the order / numbering of the new surface elements is compared with the model (np.unique row order) by the correspondence '
    'only: the property does not state it, the oracle does not judge it',
]
TRUSTED = ['C09: harness/c09.py canonicalisation of FEMData into id-keyed maps']

OPS = ['cut_eids', 'cut_type', 'cut_nids', 'extract_idx', 'remove_useless', 'first_order', 'surface', 'facets',
       'surface_keep', 'facets_all']
# operations without a selection: their result depends on the node ids only (through facets / id sets)
ID_OPS = ['surface', 'surface_keep', 'facets', 'facets_all', 'first_order', 'remove_useless']
SURF = ('surface', 'surface_keep')
FACET_OPS = ('surface', 'surface_keep', 'facets', 'facets_all')
ERR = {ValueError: 'value', KeyError: 'key', IndexError: 'index', NotImplementedError: 'other'}
T_IDX = {t: i for i, t in enumerate(G.ELEMENT_TYPES)}
# hand specification of the faces of every solid type `_generate_all_faces` knows (vertex sets are what the oracle uses).
# hexprism = femio's 12-node hexagonal prism (bottom hexagon 0..5, top hexagon 6..11): femio's facets are triangles and
# quadrangles only, a hexagonal cap is the two quadrangles on either side of its 1-4 (top: 7-10) diagonal - so that the top cap
# of one prism is, as vertex sets, the bottom cap of the prism stacked on it - and the six side faces are [k, k+1, k+7, k+6]
FACES = dict(G.FACES)
FACES['hexprism'] = [[0, 5, 4, 1], [1, 4, 3, 2], [6, 7, 10, 11], [7, 8, 9, 10]] + \
    [[k, (k + 1) % 6, (k + 1) % 6 + 6, k + 6] for k in range(6)]
# the element types the face tables of `_generate_all_faces` know (polygon / polyhedron cells: object arrays, not generated)
FACE_TYPES = ['tri', 'quad', 'tet', 'tet2', 'pyr', 'prism', 'hex', 'hexprism']


# ------------------------------------------------------------------ generators

def compose(rnd, n, k):
    """n as an ordered sum of k positive integers"""
    cuts = sorted(rnd.sample(range(1, n), k - 1)) if k > 1 else []
    return [b - a for a, b in zip([0] + cuts, cuts + [n])]


SMALL_STYLES = ['parts', 'parts', 'shifted', 'shifted', 'stride', 'above']


def small_sparse_ids(rnd, n, style=None):
    """n distinct positive ids that are SPARSE BUT SMALL (max id > n by a small factor only) and have additive structure:
    many pairs of ids differ by about the node count / are multiples or digit shifts of each other, so that arithmetic
    combinations of ids (packed keys sum(id_k * base**k) with base ~ n, `id - offset` tables, hashes) collide although
    every id is small.  Styles:
      parts    2-3 dense ranges ("separately numbered parts", a sub-mesh that kept the ids of its parent) whose starts
               differ by about the node count: 1.., B+1.., 2B+1.. with B in n-1 .. n+2
      shifted  ids that are multiples / digit-shifted versions of each other: j, j*R, j*R + j', j + R  (R = B, 10, 16, 100)
      stride   an arithmetic progression a, a+s, a+2s .. (s = 2, 3, B-1, B) filled up with the smallest free ids
      above    1..n with one to three ids moved just above the node count (max id = n+1 .. n+3)"""
    style = style or rnd.choice(SMALL_STYLES)
    B = max(2, n + rnd.choice([-1, 0, 1, 1, 1, 2]))
    if style == 'parts' and n >= 2:
        sizes = compose(rnd, n, min(n, rnd.choice([2, 2, 3])))
        ids, nxt = [], 1
        for j, sz in enumerate(sizes):
            start = max(nxt, j * B + rnd.choice([0, 1, 1, 1, 2]))
            ids += list(range(start, start + sz))
            nxt = start + sz + 1
    elif style == 'shifted':
        R = rnd.choice([B, B, 10, 16, 100])
        pool = set()
        while len(pool) < n:
            j = rnd.randint(1, max(2, n // 2 + 1))
            pool.add(rnd.choice([j, j, j * R, j * R + rnd.randint(0, j), j + R]))
        ids = sorted(pool)
    elif style == 'stride':
        step = rnd.choice([2, 3, B, max(2, B - 1)])
        a = rnd.randint(1, 3)
        pool = {a + k * step for k in range(rnd.randint(1, n))}
        j = 1
        while len(pool) < n:
            pool.add(j)
            j += 1
        ids = sorted(pool)
    else:
        style = 'above'
        ids = list(range(1, n + 1))
        for _ in range(rnd.randint(1, 3)):
            new = n + rnd.randint(1, 3)
            if new not in ids:
                ids[rnd.randrange(n)] = new
    assert len(set(ids)) == n and min(ids) >= 1, (style, ids)
    return ids, 'small:' + style


SIGNED_STYLES = ['zero-based', 'negative', 'neg+huge']


def signed_ids(rnd, n, style):
    """round 5 (class N): n distinct ids that are not all positive - 0..n-1 (what a 0-based tool writes), negative and
    positive ids around zero, negative ids together with ids ~2e9.  The model's ids are naturals: these numberings are used
    by the oracle-only streams."""
    if style == 'zero-based':
        ids = list(range(n))
    elif style == 'negative':
        ids = rnd.sample(range(-3 * n - 2, 3 * n + 3), n)
        if min(ids) >= 0:
            ids[rnd.randrange(n)] = -rnd.randint(1, 9) - 3 * n - 2
    else:
        k = rnd.randint(1, max(1, n - 1))
        ids = rnd.sample(range(-60 * n, 1), min(k, n)) + rnd.sample(range(2 * 10**9 - 50 * n - 1, 2 * 10**9), n - min(k, n))
    assert len(set(ids)) == n
    return ids, 'signed:' + style


def renumber_elements(rnd, m, vs, style=None):
    """the same mesh under another numbering of its ELEMENTS (signed styles): (mesh, variables)"""
    old = [e for b in m['blocks'].values() for e, _ in b]
    new, label = signed_ids(rnd, len(old), style or rnd.choice(SIGNED_STYLES))
    rnd.shuffle(new)
    mp = dict(zip(old, new))
    m2 = dict(m)
    m2['blocks'] = {t: [(mp[e], c) for e, c in b] for t, b in m['blocks'].items()}
    m2['eid_style'] = label
    vs2 = dict(vs)
    vs2['elemental'] = []
    for v in vs['elemental']:
        w = dict(v)
        if 'unknown' in v['blocks']:      # one block in femio's flattened order: ascending ids for a mixed mesh
            rows = {mp[e]: r for e, r in v['blocks']['unknown']}
            w['blocks'] = {'unknown': [[e, rows[e]] for e in flat_eids(m2)]}
        else:
            w['blocks'] = {t: [[mp[e], r] for e, r in b] for t, b in v['blocks'].items()}
        vs2['elemental'].append(w)
    return m2, vs2


def renumber(rnd, m, vs=None, style=None, monotone=None, reorder=False):
    """the same mesh (topology, coordinates, element ids) under another numbering of its nodes: (mesh, variables).
    style: one of the `small_sparse_ids` styles, a `meshgen.random_ids` style, or None (drawn);  monotone: the k-th
    smallest old id becomes the k-th smallest new id (storage order class kept), otherwise a random assignment;
    reorder: the storage order of the nodes (and of the aligned nodal variables) is re-drawn too"""
    old = [i for i, _ in m['nodes']]
    if style is None:
        style = rnd.choice(SMALL_STYLES + ['dense', 'sparse', 'prefix', 'huge'] + SIGNED_STYLES)
    if style in ('parts', 'shifted', 'stride', 'above'):
        new, label = small_sparse_ids(rnd, len(old), style)
    elif style in SIGNED_STYLES:
        new, label = signed_ids(rnd, len(old), style)
    else:
        new, label = G.random_ids(rnd, len(old), style)
    if monotone is None:
        monotone = rnd.random() < .5
    if monotone:
        mp = dict(zip(sorted(old), sorted(new)))
    else:
        rnd.shuffle(new)
        mp = dict(zip(old, new))
    m2 = dict(m)
    nodes = [(mp[i], p) for i, p in m['nodes']]
    perm = list(range(len(nodes)))
    if reorder:
        keys, m2['order'] = G.order_ids(rnd, perm, {k: nodes[k][0] for k in perm})
        perm = keys
    m2['nodes'] = [nodes[k] for k in perm]
    m2['blocks'] = {t: [(e, [mp[n] for n in c]) for e, c in b] for t, b in m['blocks'].items()}
    m2['id_style'] = label
    if vs is None:
        return m2, None
    vs2 = dict(vs)
    vs2['nodal'] = []
    for v in vs['nodal']:
        w = dict(v)
        if v['ids'] == old:             # aligned with the mesh: stays aligned
            w['ids'] = [mp[old[k]] for k in perm]
            w['rows'] = [v['rows'][k] for k in perm]
        else:
            w['ids'] = [mp[i] for i in v['ids']]
        vs2['nodal'].append(w)
    return m2, vs2


def gen_mesh(rnd, quick=True):
    m = gen_mesh0(rnd, quick)
    n_el = sum(len(b) for b in m['blocks'].values())
    if len(m['nodes']) < n_el <= len(m['nodes']) + 4 and rnd.random() < .5:
        # round 5 (class M): SQUARE meshes, n_node == n_element (code that tells nodal from elemental data by a length):
        # unreferenced nodes are added until the counts agree
        used = {i for i, _ in m['nodes']}
        while len(m['nodes']) < n_el:
            new = rnd.choice([max(used) + rnd.randint(1, 3), rnd.randint(1, max(used))])
            if new in used:
                continue
            used.add(new)
            m['nodes'].insert(rnd.randint(0, len(m['nodes'])), (new, tuple(F(rnd.randint(-8, 8), 2) for _ in range(3))))
            m['n_unref'] = m.get('n_unref', 0) + 1
        m['order'] = order_class(m)
    if rnd.random() < .3:
        m, _ = renumber(rnd, m, style=rnd.choice(SMALL_STYLES))
    return m


HEXAGON = [(2, 0), (1, 2), (-1, 2), (-2, 0), (-1, -2), (1, -2)]      # counter-clockwise


def gen_hexprism_columns(rnd, quick=True):
    """round 4 (class I, seeded C09-8): the rarely used 12-node hexagonal prism.  A conforming, positively oriented mesh of
    1-2 neighbouring columns (the hexagons share an edge) of 1-3 stacked hexprisms - so that caps are interior interfaces and
    side faces are shared between columns - optionally MIXED: hexes and triangular prisms attached to side faces of some layers
    (sharing the side quadrangle).  Ids / storage order as everywhere (gen_mesh adds the small-sparse numberings), optional
    unreferenced node."""
    layers = rnd.randint(1, 3)
    centres = [(0, 0), (3, 2)][:rnd.choice([1, 1, 2])]
    pts = {}

    def node(x, y, z):
        return pts.setdefault((x, y, z), len(pts))
    blocks = {}
    for cx, cy in centres:
        for z in range(layers):
            blocks.setdefault('hexprism', []).append([node(cx + x, cy + y, z + dz) for dz in (0, 1) for x, y in HEXAGON])
    mixed = rnd.random() < .5
    if mixed:
        for z in range(layers):
            if rnd.random() < .6:       # hex on the side face over the edge (-1,-2)-(1,-2) of the first column
                blocks.setdefault('hex', []).append([node(x, y, z + dz) for dz in (0, 1) for x, y in [(-1, -4), (1, -4), (1, -2), (-1, -2)]])
            if rnd.random() < .6:       # prism on the side face over the edge (-2,0)-(-1,-2)
                blocks.setdefault('prism', []).append([node(x, y, z + dz) for dz in (0, 1) for x, y in [(-2, 0), (-3, -2), (-1, -2)]])
    n_unref = 1 if rnd.random() < .3 else 0
    if n_unref:
        node(77, 78, 79)
    n = len(pts)
    id_list, id_style = G.random_ids(rnd, n)
    idmap = dict(zip(range(n), id_list))
    keys, order = G.order_ids(rnd, list(range(n)), idmap)
    coord = {k: p for p, k in pts.items()}
    sc = rnd.choice([F(1), F(1, 2), F(3, 4)])
    nodes = [(idmap[k], tuple(F(v) * sc for v in coord[k])) for k in keys]
    n_el = sum(len(b) for b in blocks.values())
    eids, _ = G.random_ids(rnd, n_el, rnd.choice(['dense', 'sparse', 'large']))
    rnd.shuffle(eids)
    it = iter(eids)
    out = {}
    for t in G.ELEMENT_TYPES:
        if t in blocks:
            b = [(next(it), [idmap[k] for k in c]) for c in blocks[t]]
            rnd.shuffle(b)
            out[t] = b
    return {'kind': 'hexprism-columns' + (':mixed' if len(out) > 1 else ''), 'order': order, 'id_style': id_style, 'nodes': nodes,
            'blocks': out, 'n_unref': n_unref}


def gen_mesh0(rnd, quick=True):
    r = rnd.random()
    mc = 2 if quick else 3
    if r < .08:
        return gen_hexprism_columns(rnd, quick)
    if r < .45:
        kind = rnd.choice(['tet', 'hex', 'mixed', 'pyr', 'prism'])
        m = G.gen_geometric(rnd, kind=kind, max_cells=mc if kind != 'tet' else min(mc, 2))
        if kind == 'tet' and rnd.random() < .5:
            m = G.promote_tet2(rnd, m)
            if rnd.random() < .4:   # unreferenced nodes for the second-order mesh too
                top = max(i for i, _ in m['nodes'])
                m['nodes'].insert(rnd.randint(0, len(m['nodes'])), (top + rnd.randint(1, 9), (F(77), F(78), F(79))))
                m['n_unref'] = m.get('n_unref', 0) + 1
    else:
        types = None
        if rnd.random() < .35:
            types = rnd.sample(['tri', 'quad', 'tet', 'tet2', 'hex', 'hex2', 'pyr', 'prism', 'hexprism'], rnd.randint(1, 3))
        if rnd.random() < .12:
            # round 5 (class O): first- and second-order blocks of the same shape in ONE mesh (they meet after
            # to_first_order: both are 4- / 8-node blocks then), also next to another type
            types = rnd.choice([['tet', 'tet2'], ['hex', 'hex2'], ['tet2', 'hex2'], ['tet', 'tet2', 'prism'], ['hex2', 'hex', 'tet']])
        m = G.gen_combinatorial(rnd, types=types, max_elems=10 if quick else 30)
    m['nodes'] = [(i, tuple(F(float(x)) for x in p)) for i, p in m['nodes']]
    return m


def flat_eids(m):
    """element ids in femio's flattened order (`elements.ids`)"""
    if len(m['blocks']) == 1:
        return [e for e, _ in next(iter(m['blocks'].values()))]
    return sorted(e for b in m['blocks'].values() for e, _ in b)


DTYPES = ['float32', 'int64', 'int32', 'uint8', 'bool', 'float16', 'uint16', 'int8', 'near', 'tiny', 'full']
# 'near' / 'tiny' (class L): float64 fields whose values are all distinct but "look equal" under np.allclose defaults / an
# absolute epsilon: 1000 + k 2^-40 (relative spread < 4e-12) and k 2^-50 (absolute size < 4e-12)
# 'full': float64 values that use all 53 mantissa bits over 40 binades (any narrowing / re-computation of a value shows)
NP_DTYPE = {'near': 'float64', 'tiny': 'float64', 'full': 'float64'}


def rand_rows(rnd, n, shape, dtype='float64'):
    """n rows of prod(shape) values, every value exactly representable in `dtype` (so that the exact comparison of the
    values as rationals is meaningful for every dtype); rows distinct where the dtype has room for it"""
    k = int(np.prod(shape)) if shape else 1

    def value():
        if dtype in ('float64', 'float32'):
            return F(rnd.randint(-4000, 4000), rnd.choice([1, 2, 4, 8]))
        if dtype == 'near':
            return 1000 + F(rnd.randint(0, 4000), 2 ** 40)
        if dtype == 'tiny':
            return F(rnd.randint(-4000, 4000), 2 ** 50)
        if dtype == 'full':
            return F(rnd.choice([-1, 1]) * (2 ** 52 + rnd.getrandbits(52)), 2 ** rnd.randint(20, 60))
        if dtype == 'float16':
            return F(rnd.randint(-1000, 1000), rnd.choice([1, 2]))
        if dtype in ('int64', 'int32'):
            return F(rnd.randint(-4000, 4000))
        if dtype == 'int8':
            return F(rnd.randint(-128, 127))
        if dtype == 'uint8':
            return F(rnd.randint(0, 255))
        if dtype == 'uint16':
            return F(rnd.randint(0, 65535))
        if dtype == 'bool':
            return F(rnd.randint(0, 1))
        raise ValueError(dtype)
    used = set()
    rows = []
    for _ in range(n):
        for _attempt in range(30):
            row = tuple(value() for _ in range(k))
            if row not in used:
                break
        used.add(row)
        rows.append(list(row))
    return rows


SHAPES = [(), (1,), (3,), (2,), (6,), (3, 3), (2, 2)]
BIND_STYLES = ['same-name', 'same-name', 'swapped', 'other-name', 'case', 'prefix', 'alias', 'prev']


def bind_table(rnd, vars_, make):
    """round 5 (class K, seeded C09-10): the relation table key -> FEMAttribute.name is NOT the identity and not injective.
    A variable is what a KEY of nodal_data / elemental_data is bound to; the attribute's own `.name` is free data
    (`set_attribute_data(key, data, name=...)`, `table[key2] = table[key]`, a field kept as '<key>_prev' while the key gets
    the new step).  Styles: same-name (two keys, attributes of the same name), swapped (names of two keys exchanged),
    other-name / case / prefix (name that is no key: unrelated, lower case, a prefix-like extension), alias (a second key
    bound to the very same attribute OBJECT), prev (a new key bound to an attribute that carries the name of an existing key).
    `make(key)` returns a freshly generated variable of the table.  Returns the style applied."""
    style = rnd.choice(BIND_STYLES)
    if not vars_:
        vars_.append(make('V0'))
    i = rnd.randrange(len(vars_))
    key = vars_[i]['name']
    if style in ('same-name', 'swapped') and len(vars_) < 2:
        style = 'prev'
    if style == 'same-name':
        j = rnd.choice([k for k in range(len(vars_)) if k != i])
        vars_[j]['attr_name'] = key
    elif style == 'swapped':
        j = rnd.choice([k for k in range(len(vars_)) if k != i])
        vars_[i]['attr_name'], vars_[j]['attr_name'] = vars_[j]['name'], key
    elif style == 'other-name':
        vars_[i]['attr_name'] = rnd.choice(['X_' + key, 'value', 'T'])
    elif style == 'case':
        vars_[i]['attr_name'] = key.lower()
    elif style == 'prefix':
        vars_[i]['attr_name'] = rnd.choice([key + '0', key[:-1], key + '_'])
    elif style == 'alias':
        w = dict(vars_[i])
        w['name'], w['alias_of'] = key + rnd.choice(['_REF', '0', '_prev']), i
        vars_.append(w)
    else:
        w = make(key + rnd.choice(['_prev', '_initial', '0']))
        w['attr_name'] = key
        vars_.insert(rnd.randint(0, len(vars_)), w)
    for v in vars_:
        if 'ids' in v and v.get('attr_name') is not None and v.get('alias_of') is None and rnd.random() < .4:
            v['via'] = 'set_attribute_data'
    return style


def gen_vars(rnd, m, misaligned=False, bind=None, dtypes=None):
    """1-3 nodal and 0-2 elemental variables.  bind (default: 40 % of the calls): the key -> name relation of one or both
    tables is made non-trivial (`bind_table`).  dtypes (default: 30 % of the calls): some variables are stored in another
    dtype than float64 (float32 / float16 / signed, unsigned and bool integers; the values are exactly representable)."""
    nids = [i for i, _ in m['nodes']]
    bind = False if misaligned else rnd.random() < .4 if bind is None else bind
    dtypes = rnd.random() < .3 if dtypes is None else dtypes

    def dtype():
        return rnd.choice(DTYPES) if dtypes and rnd.random() < .6 else 'float64'

    def make_nodal(name):
        shape = rnd.choice(SHAPES)
        dt = dtype()
        v = {'name': name, 'shape': list(shape), 'ids': list(nids), 'rows': rand_rows(rnd, len(nids), shape, dt)}
        if dt != 'float64':
            v['dtype'] = dt
        return v

    def make_elemental(name):
        shape = rnd.choice(SHAPES)
        dt = dtype()
        if rnd.random() < .5:
            ids = flat_eids(m)
            blocks = {'unknown': [[e, r] for e, r in zip(ids, rand_rows(rnd, len(ids), shape, dt))]}
        else:
            blocks = {}
            for t, b in m['blocks'].items():
                blocks[t] = [[e, r] for (e, _), r in zip(b, rand_rows(rnd, len(b), shape, dt))]
        v = {'name': name, 'shape': list(shape), 'blocks': blocks}
        if dt != 'float64':
            v['dtype'] = dt
        return v
    nodal = [make_nodal(f'N{k}') for k in range(rnd.randint(1, 3))]
    elemental = [make_elemental(f'E{k}') for k in range(rnd.randint(0, 2))]
    vs = {'nodal': nodal, 'elemental': elemental}
    if bind:
        which = rnd.choice(['nodal', 'elemental', 'both'])
        vs['bind'] = []
        if which != 'elemental':
            vs['bind'].append('nodal:' + bind_table(rnd, nodal, make_nodal))
        if which != 'nodal':
            vs['bind'].append('elemental:' + bind_table(rnd, elemental, make_elemental))
    if misaligned:
        v = nodal[rnd.randrange(len(nodal))]
        while len(v['ids']) > 1 and v['ids'] == nids:
            v['ids'] = list(v['ids'])
            rnd.shuffle(v['ids'])
        v['misaligned'] = True
    return vs


def subset(rnd, pool, style):
    pool = list(pool)
    if style == 'singleton':
        return [rnd.choice(pool)]
    if style == 'all':
        s = list(pool)
        rnd.shuffle(s)
        return s
    if style == 'all-but-one' and len(pool) > 1:
        s = list(pool)
        rnd.shuffle(s)
        return s[1:]
    s = rnd.sample(pool, rnd.randint(1, len(pool)))
    return s


def selections(rnd, m, op):
    """[(style, selection)] - inside the property's quantifier unless the style starts with 'outside:'"""
    eids = flat_eids(m)
    nids = [i for i, _ in m['nodes']]
    out = []
    styles = ['singleton', 'all', 'subset', rnd.choice(['subset', 'all-but-one'])]
    if op == 'cut_eids':
        for st in styles:
            out.append((st, subset(rnd, eids, st)))
        s = subset(rnd, eids, 'subset') + [max(eids) + 7, 10**7 + 3]
        rnd.shuffle(s)
        out.append(('subset+unknown-ids', s))
        out.append(('outside:empty', []))
        out.append(('outside:only-unknown-ids', [max(eids) + 1]))
    elif op == 'cut_type':
        for t in m['blocks']:
            out.append(('type', T_IDX[t]))
        absent = [t for t in ('tri', 'hex', 'tet', 'spring') if t not in m['blocks']]
        out.append(('outside:absent-type', T_IDX[absent[0]]))
    elif op == 'cut_nids':
        for st in styles:
            out.append((st, subset(rnd, nids, st)))
        # the nodes of a few elements plus extras: the typical use
        allel = [c for b in m['blocks'].values() for _, c in b]
        pick = rnd.sample(allel, rnd.randint(1, min(3, len(allel))))
        s = sorted({n for c in pick for n in c} | set(rnd.sample(nids, rnd.randint(0, min(3, len(nids))))))
        rnd.shuffle(s)
        out.append(('element-closure', s))
        out.append(('outside:empty', []))
        out.append(('outside:unknown-node', [nids[0], max(nids) + 5]))
    elif op == 'extract_idx':
        pos = list(range(len(eids)))
        for st in styles:
            out.append((st, subset(rnd, pos, st)))
        out.append(('outside:empty', []))
        out.append(('outside:out-of-range', [0, len(eids) + 2]))
    else:
        out.append(('-', None))
    return out


# ------------------------------------------------------------------ real femio

def np_rows(rows, n, shape, dtype):
    return np.array([[float(x) for x in r] for r in rows]).reshape([n] + list(shape)).astype(NP_DTYPE.get(dtype, dtype or 'float64'))


def build(m, vs):
    """the FEMData the description (m, vs) stands for.  A variable is bound to the table KEY v['name']; its attribute
    carries the name v['attr_name'] (default: the key) and is installed by item assignment or, v['via'], through
    `set_attribute_data(key, data, name=...)`; v['alias_of'] = k binds the key to the attribute OBJECT of the k-th variable."""
    import femio
    from femio import FEMAttribute, FEMElementalAttribute
    femio.FEMData.extract_surface.cache_clear()
    femio.FEMData.filter_first_order_nodes.cache_clear()
    fd = G.to_femio(m)
    nids = [i for i, _ in m['nodes']]
    for v in vs['nodal']:
        if v.get('alias_of') is not None:
            continue
        data = np_rows(v['rows'], len(v['ids']), v['shape'], v.get('dtype'))
        name = v.get('attr_name') or v['name']
        if v.get('via') == 'set_attribute_data' and v['ids'] == nids and fd.nodal_data.are_same_lengths():
            G.quiet(fd.nodal_data.set_attribute_data, v['name'], data, name=name)
        else:
            fd.nodal_data[v['name']] = FEMAttribute(name, np.array(v['ids']), data, silent=True)
    for v in vs['nodal']:
        if v.get('alias_of') is not None:
            fd.nodal_data[v['name']] = fd.nodal_data[vs['nodal'][v['alias_of']]['name']]
    for v in vs['elemental']:
        if v.get('alias_of') is not None:
            continue
        name = v.get('attr_name') or v['name']
        d = {}
        for t, b in v['blocks'].items():
            d[t] = FEMAttribute(name, np.array([e for e, _ in b]), np_rows([r for _, r in b], len(b), v['shape'], v.get('dtype')),
                                silent=True)
        fd.elemental_data[v['name']] = G.quiet(FEMElementalAttribute, name, d)
    for v in vs['elemental']:
        if v.get('alias_of') is not None:
            fd.elemental_data[v['name']] = fd.elemental_data[vs['elemental'][v['alias_of']]['name']]
    return fd


def apply_real(fd, op, sel):
    if op == 'cut_eids':
        return fd.cut_with_element_ids(np.array(sel, dtype=int))
    if op == 'cut_type':
        return fd.cut_with_element_type(G.ELEMENT_TYPES[sel])
    if op == 'cut_nids':
        return fd.cut_with_node_ids(np.array(sel, dtype=int))
    if op == 'extract_idx':
        return fd.extract_with_element_indices(np.array(sel, dtype=int))
    if op == 'remove_useless':
        fd.remove_useless_nodes()
        return fd
    if op == 'first_order':
        return fd.to_first_order()
    if op == 'surface':
        return fd.to_surface()
    if op == 'facets':
        return fd.to_facets()
    if op == 'surface_keep':
        return fd.to_surface(remove_unnecessary_nodes=False)
    if op == 'facets_all':
        return fd.to_facets(remove_duplicates=False, return_dict_facets=True)[0]
    raise ValueError(op)


def observe_extract_surface(fd):
    """`extract_surface()` (public; what to_surface / the surface normals / the OBJ export are built on) as a list of
    (facet as node IDS, positions) - it returns storage positions of the nodes, or {facet type: positions} when the
    surface has triangles and quadrangles"""
    idx, pos = fd.extract_surface()
    ids = fd.nodes.ids
    out = []
    for ix, ps in (zip(idx.values(), pos.values()) if isinstance(idx, dict) else [(idx, pos)]):
        for f, q in zip(ix, ps):
            out.append(([int(ids[k]) for k in f], [row_of(x) for x in q]))
    return out


NAN = 'nan'     # token of a NaN cell in the id-keyed views (values are exact rationals otherwise); oracle-only streams


def row_of(x):
    return [NAN if v != v else F(float(v)) for v in np.asarray(x, dtype=float).ravel()]


def nanify(rnd, vs):
    """round 6 (seeded C09-11): a copy of the variables in which float64 variables hold NaN cells - whole rows (a value that
    is NaN in EVERY component is still a value of that node / element: the row must stay), single cells, first / last row"""
    import copy
    vs = copy.deepcopy(vs)

    def holes(rows):
        n = len(rows)
        if not n or not rows[0]:
            return
        k = len(rows[0])
        for j in {0, n - 1, rnd.randrange(n)} if rnd.random() < .7 else {rnd.randrange(n)}:
            rows[j][:] = [NAN] * k
        for _ in range(rnd.randint(0, 2)):
            rows[rnd.randrange(n)][rnd.randrange(k)] = NAN
    for v in vs['nodal']:
        if 'dtype' not in v and rnd.random() < .8:
            holes(v['rows'])
    for v in vs['elemental']:
        if 'dtype' not in v and rnd.random() < .8:
            for b in v['blocks'].values():
                holes([r for _, r in b])
    vs['nan'] = True
    return vs


def observe(fd):
    """id-keyed view of a FEMData (public API only)"""
    nodes = {}
    node_order = [int(i) for i in fd.nodes.ids]
    for i, p in zip(fd.nodes.ids, fd.nodes.data):
        nodes.setdefault(int(i), []).append(row_of(p))
    elems = {}
    for t, b in fd.elements.items():
        for e, c in zip(b.ids, b.data):
            elems.setdefault(int(e), []).append((t, [int(n) for n in np.ravel(c)]))
    nodal, shapes = {}, {}
    for k, v in fd.nodal_data.items():
        d = {}
        for i, r in zip(v.ids, v.data):
            d.setdefault(int(i), []).append(row_of(r))
        nodal[k] = d
        shapes[k] = list(v.data.shape[1:])
    elemental = {}
    for k, v in fd.elemental_data.items():
        d = {}
        for t, b in v.items():
            for e, r in zip(b.ids, b.data):
                d.setdefault(int(e), []).append((t, row_of(r)))
        elemental[k] = d
        shapes['E:' + k] = sorted({tuple(b.data.shape[1:]) for _, b in v.items()})
    return {'nodes': nodes, 'node_order': node_order, 'elems': elems, 'nodal': nodal, 'elemental': elemental,
            'shapes': shapes}


def snapshot(fd):
    """description (m, vs) of the CURRENT public state of a live FEMData (nodes, elements, every nodal / elemental variable by
    table key): what an operation applied to this object now is judged against"""
    nodes = [(int(i), tuple(row_of(p))) for i, p in zip(fd.nodes.ids, fd.nodes.data)]
    blocks = {t: [(int(e), [int(n) for n in np.ravel(c)]) for e, c in zip(b.ids, b.data)] for t, b in fd.elements.items()}
    nodal = []
    for k, v in fd.nodal_data.items():
        if k == 'NODE' and v is fd.nodes:
            continue
        nodal.append({'name': k, 'shape': list(v.data.shape[1:]), 'ids': [int(i) for i in v.ids], 'rows': [row_of(r) for r in v.data]})
    elemental = []
    for k, v in fd.elemental_data.items():
        elemental.append({'name': k, 'shape': [], 'blocks': {t: [[int(e), row_of(r)] for e, r in zip(b.ids, b.data)] for t, b in v.items()}})
    m = {'kind': 'derived', 'order': '?', 'nodes': nodes, 'blocks': blocks}
    m['order'] = order_class(m)
    return m, {'nodal': nodal, 'elemental': elemental}


def run_hist(m, vs, prefix, op, sel):
    """history on one object: build (m, vs); every prefix entry [kind, op, selection] is applied in turn - kind 'derive': the
    object under test becomes the RESULT of the call, kind 'call': the result is discarded (an exception too: a refused call) -
    then the operation is applied to the live object.  Returns (snapshot of the live object just before the operation,
    outcome) or None when a 'derive' step raises."""
    fd = build(m, vs)
    for kind, o, s_ in prefix:
        try:
            r = G.quiet(apply_real, fd, o, s_)
        except Exception:  # noqa
            if kind == 'derive':
                return None
            continue
        if kind == 'derive':
            fd = r
    m1, vs1 = G.quiet(snapshot, fd)
    return m1, vs1, run_real(m1, vs1, op, sel, fd=fd)


def run_real(m, vs, op, sel, fd=None):
    try:
        if fd is None:
            fd = build(m, vs)
        r = G.quiet(apply_real, fd, op, sel)
        out = observe(r)
        if op == 'surface':     # the same object: to_surface() left it untouched (and extract_surface() memoised)
            out['extract_surface'] = G.quiet(observe_extract_surface, fd)
        if op == 'first_order':  # the public mask the reduction is built on, in the storage order of the INPUT nodes
            out['first_order_filter'] = [bool(b) for b in fd.filter_first_order_nodes()]
        return 'ok', out
    except tuple(ERR) as e:
        return 'err', next(v for k, v in ERR.items() if isinstance(e, k))
    except Exception as e:  # noqa
        return 'err', 'exc:' + type(e).__name__


# ------------------------------------------------------------------ model

def enc_fem(m, vs):
    toks = [G.enc_mesh(m), str(len(vs['nodal']))]
    for k, v in enumerate(vs['nodal']):
        toks += [str(k), C.enc_list(v['ids']), C.enc_list(v['rows'], lambda r: C.enc_list(r, C.enc_rat))]
    toks.append(str(len(vs['elemental'])))
    for k, v in enumerate(vs['elemental']):
        toks += [str(k), str(len(v['blocks']))]
        for t, b in v['blocks'].items():
            toks += [str(T_IDX[t]), C.enc_list(b, lambda er: f'{er[0]} ' + C.enc_list(er[1], C.enc_rat))]
    return ' '.join(toks)


def model_line(m, vs, op, sel):
    line = f'c09.{op} ' + enc_fem(m, vs)
    if op == 'cut_type':
        line += f' {sel}'
    elif sel is not None:
        line += ' ' + C.enc_list(sel)
    return line


def parse_model(rep, vs):
    t = C.Toks(rep)
    head = t.tok()
    if head == 'err':
        return 'err', t.tok()
    if head != 'ok':
        raise RuntimeError('driver: ' + rep[:200])

    def row():
        return t.lst(t.rat)
    nodes, order = {}, []
    for _ in range(t.nat()):
        i = t.nat()
        order.append(i)
        nodes.setdefault(i, []).append(row())
    elems = {}
    for _ in range(t.nat()):
        ty = G.ELEMENT_TYPES[t.nat()]
        for _ in range(t.nat()):
            e = t.nat()
            elems.setdefault(e, []).append((ty, t.lst(t.nat)))
    nodal = {}
    for _ in range(t.nat()):
        name = vs['nodal'][t.nat()]['name']
        ids = t.lst(t.nat)
        rows = t.lst(row)
        d = {}
        for i, r in zip(ids, rows):
            d.setdefault(i, []).append(r)
        if len(ids) != len(rows):
            d['length-mismatch'] = (len(ids), len(rows))
        nodal[name] = d
    elemental = {}
    for _ in range(t.nat()):
        name = vs['elemental'][t.nat()]['name']
        d = {}
        for _ in range(t.nat()):
            ty = G.ELEMENT_TYPES[t.nat()]
            for _ in range(t.nat()):
                e = t.nat()
                d.setdefault(e, []).append((ty, row()))
        elemental[name] = d
    assert t.done(), 'trailing tokens in driver reply'
    return 'ok', {'nodes': nodes, 'node_order': order, 'elems': elems, 'nodal': nodal, 'elemental': elemental}


def compare(impl, model):
    """list of differing observables (id-keyed)"""
    if impl[0] != model[0]:
        return [f'outcome {impl[0]}:{impl[1] if impl[0] == "err" else ""} vs {model[0]}:{model[1] if model[0] == "err" else ""}']
    if impl[0] == 'err':
        return [] if impl[1] == model[1] else [f'exception class {impl[1]} vs {model[1]}']
    a, b = impl[1], model[1]
    diffs = []
    if a['nodes'] != b['nodes']:
        diffs.append('nodes')
    if a['elems'] != b['elems']:
        diffs.append('elements')
    an = {k: v for k, v in a['nodal'].items() if k != 'NODE'}
    if an != b['nodal']:
        diffs.append('nodal_data')
    if a['elemental'] != b['elemental']:
        diffs.append('elemental_data')
    return diffs


# ------------------------------------------------------------------ property oracle (real API only)

def first(d, i):
    v = d.get(i)
    return v[0] if v else None


def face_counts(m):
    """vertex set of every face of every element -> number of occurrences (hand specification of the face tables)"""
    count = {}
    for t, b in m['blocks'].items():
        tbl = [list(range(G.ARITY[t]))] if t in ('tri', 'quad') else FACES['tet' if t == 'tet2' else t]
        for _, c in b:
            for f in tbl:
                k = frozenset(c[i] for i in f)
                count[k] = count.get(k, 0) + 1
    return count


def oracle(m, vs, op, sel, out, check_vars=None):
    """violations of the property by the real result `out` (= observe(result)); [(signature, text)]"""
    bad = []
    onodes = dict(m['nodes'])
    oel = {e: (t, list(c)) for t, b in m['blocks'].items() for e, c in b}
    nodes, elems = out['nodes'], out['elems']
    # --- self-contained
    dup = [i for i, v in nodes.items() if len(v) != 1]
    if dup:
        bad.append(('self-contained:duplicate-node', f'node ids stored more than once: {dup[:5]}'))
    dupe = [e for e, v in elems.items() if len(v) != 1]
    if dupe:
        bad.append(('self-contained:duplicate-element', f'element ids stored more than once: {dupe[:5]}'))
    missing = sorted({n for v in elems.values() for _, c in v for n in c if n not in nodes})
    if missing:
        bad.append(('self-contained:dangling-node', f'elements refer to nodes that are not in the result: {missing[:5]}'))
    referenced = {n for v in elems.values() for _, c in v for n in c}
    # --- values attached: nodes
    for i, v in nodes.items():
        if i not in onodes:
            bad.append(('values:node-invented', f'node {i} is not a node of the input'))
            break
        if v[0] != list(onodes[i]):
            bad.append(('values:coordinates', f'node {i}: coordinates {v[0]} != {list(onodes[i])}'))
            break
    nd_alias = out['nodal'].get('NODE')
    if nd_alias is not None and nd_alias != nodes:
        bad.append(('values:NODE-alias', "nodal_data['NODE'] differs from nodes"))
    for v in vs['nodal']:
        if check_vars is not None and v['name'] not in check_vars:
            continue
        orig = dict(zip(v['ids'], v['rows']))
        got = out['nodal'].get(v['name'])
        if got is None:
            bad.append(('values:nodal-variable-lost', f"nodal variable {v['name']} is missing from the result"))
            continue
        if set(got) != set(nodes):
            bad.append(('values:nodal-ids', f"nodal variable {v['name']} is keyed by {sorted(got)[:6]}.., nodes are {sorted(nodes)[:6]}.."))
            continue
        for i, r in got.items():
            if len(r) != 1 or r[0] != orig.get(i):
                bad.append(('values:nodal', f"nodal variable {v['name']} at node {i}: {r[0]} != {orig.get(i)}"))
                break
    # --- values attached: elements (operations that retain elements)
    if op not in FACET_OPS:
        for e, v in elems.items():
            if e not in oel:
                bad.append(('values:element-invented', f'element {e} is not an element of the input'))
                break
            t, c = oel[e]
            want = c
            if op == 'first_order' and any('2' in k for k in m['blocks']):
                want = c[:4] if t == 'tet2' else c[:8] if t == 'hex2' else c
            if v[0][1] != want or (op != 'first_order' and v[0][0] != t):
                bad.append(('values:connectivity', f'element {e}: {v[0]} != {(t, want)}'))
                break
        for v in vs['elemental']:
            orig = {e: r for b in v['blocks'].values() for e, r in b}
            got = out['elemental'].get(v['name'])
            if got is None:
                bad.append(('values:elemental-variable-lost', f"elemental variable {v['name']} is missing from the result"))
                continue
            if set(got) != set(elems):
                bad.append(('values:elemental-ids', f"elemental variable {v['name']} is keyed by {sorted(got)[:6]}.., elements are {sorted(elems)[:6]}.."))
                continue
            for e, r in got.items():
                if len(r) != 1 or r[0][1] != orig.get(e):
                    bad.append(('values:elemental', f"elemental variable {v['name']} at element {e}: {r[0][1]} != {orig.get(e)}"))
                    break
    # --- exactly the requested entities
    eids = flat_eids(m)

    def used_by(es):
        return {n for e in es for n in oel[e][1]}
    want_e = want_n = None
    if op == 'cut_eids':
        want_e = set(sel) & set(oel)
        want_n = used_by(want_e)
    elif op == 'cut_type':
        want_e = {e for e, _ in m['blocks'][G.ELEMENT_TYPES[sel]]}
        want_n = used_by(want_e)
    elif op == 'extract_idx':
        want_e = {eids[k] for k in sel}
        want_n = used_by(want_e)
    elif op == 'cut_nids':
        want_n = set(sel)
        want_e = {e for e, (_, c) in oel.items() if set(c) <= want_n}
    elif op == 'remove_useless':
        want_e = set(oel)
        want_n = used_by(want_e)
    elif op == 'first_order':
        want_e = set(oel)
        if any('2' in k for k in m['blocks']):
            if set(nodes) != referenced:
                bad.append(('selection:nodes', f'retained nodes {sorted(set(nodes) ^ referenced)[:6]} differ from the nodes of the first-order elements'))
        elif set(nodes) != set(onodes):
            bad.append(('selection:nodes', 'a first-order mesh lost or gained nodes'))
        if 'first_order_filter' in out:
            # filter_first_order_nodes(): True exactly at the vertices of the first-order elements (everywhere when the
            # mesh has no second-order element: to_first_order() returns the mesh as it is)
            second = any('2' in k for k in m['blocks'])
            corners = {n for t, c in oel.values() for n in (c[:4] if t == 'tet2' else c[:8] if t == 'hex2' else c)}
            want_mask = [(i in corners) if second else True for i, _ in m['nodes']]
            if out['first_order_filter'] != want_mask:
                wrong = [i for (i, _), a, b in zip(m['nodes'], out['first_order_filter'], want_mask) if a != b]
                bad.append(('selection:first-order-filter', f'filter_first_order_nodes() is wrong at nodes {wrong[:6]}'
                            if len(out['first_order_filter']) == len(want_mask) else 'filter_first_order_nodes() has the wrong length'))
    elif op == 'surface':
        # every node of a face that belongs to exactly one element (computed here, independently of the result) and no other
        want_n = {n for f, k in face_counts(m).items() if k == 1 for n in f}
        if set(nodes) != referenced:
            bad.append(('selection:nodes', f'retained nodes {sorted(set(nodes) ^ referenced)[:6]} differ from the nodes of the surface elements'))
    elif op in ('facets', 'surface_keep', 'facets_all'):
        want_n = set(onodes)
    if want_e is not None and set(elems) != want_e:
        bad.append(('selection:elements', f'retained elements: {sorted(set(elems) - want_e)[:5]} not requested, {sorted(want_e - set(elems))[:5]} missing'))
    if want_n is not None and set(nodes) != want_n:
        bad.append(('selection:nodes', f'retained nodes: {sorted(set(nodes) - want_n)[:5]} unexpected, {sorted(want_n - set(nodes))[:5]} missing'))
    if op in FACET_OPS:
        # the new elements are exactly the (once-only, for the surface) faces of the input elements, as vertex sets
        # (hand specification of the per-type face tables: meshgen.FACES; tri / quad elements are their own face);
        # with remove_duplicates=False every face once per element it belongs to
        count = face_counts(m)
        want_f = {f: 1 for f, k in count.items() if k == 1} if op in SURF else \
            dict(count) if op == 'facets_all' else {f: 1 for f in count}
        got_f = {}
        for v in elems.values():
            for _, c in v:
                got_f[frozenset(c)] = got_f.get(frozenset(c), 0) + 1
        if got_f != want_f:
            missing = sorted(sorted(f) for f in want_f if f not in got_f)
            bad.append(('selection:facets', f'{len(set(got_f) - set(want_f))} new elements are not '
                        f'{"boundary " if op in SURF else ""}faces of the input, {len(missing)} faces are missing'
                        f'{" (e.g. " + str(missing[0]) + ")" if missing else ""}, '
                        f'{sum(1 for f, k in got_f.items() if k != want_f.get(f, k))} occur with the wrong multiplicity'))
        if op == 'surface' and 'extract_surface' in out:
            xs = out['extract_surface']
            xf = {}
            for ids, _ in xs:
                xf[frozenset(ids)] = xf.get(frozenset(ids), 0) + 1
            if xf != want_f:
                bad.append(('selection:extract_surface', f'extract_surface(): {len(set(want_f) - set(xf))} boundary faces are missing, '
                            f'{len(set(xf) - set(want_f))} facets are not boundary faces, {sum(1 for k in xf.values() if k != 1)} are repeated'))
            for ids, ps in xs:
                if any(i not in onodes or q != list(onodes[i]) for i, q in zip(ids, ps)):
                    bad.append(('values:extract_surface-positions', f'extract_surface(): positions of facet {ids} are not the coordinates of its nodes'))
                    break
        if sorted(elems) != list(range(1, len(elems) + 1)):
            bad.append(('selection:facet-ids', 'facet elements are not numbered 1..k'))
        if out['elemental']:
            bad.append(('selection:elemental', 'elemental data attached to new facet elements'))
    return bad


# ------------------------------------------------------------------ run

def case_json(m, vs, op, sel, prefix=None):
    j = {'mesh': G.to_json(m), 'vars': C.jsonable(vs), 'op': op, 'selection': sel}
    if prefix:
        j['prefix'] = C.jsonable(prefix)     # calls made on the object before the operation (run_hist)
    return j


class Lazy:
    """case description, serialised only when it has to be reported"""

    def __init__(self, *a):
        self.a = a

    def json(self):
        return case_json(*self.a)


def order_class(m):
    ids = [i for i, _ in m['nodes']]
    return 'asc' if ids == sorted(ids) else 'desc' if ids == sorted(ids, reverse=True) else 'shuf'


def eval_case(ctx, m, vs, op, style, sel, stream, pending=None, live=None):
    """one (mesh, variables, operation, selection): real femio, histograms, property oracle; queued for the model when
    `pending` is given.  live = (object, (m0, vs0, prefix)): the operation is applied to this LIVE object, whose current
    public state is (m, vs) and which was reached from build(m0, vs0) by the calls of `prefix` (the reported case).
    Returns the number of oracle failures reported."""
    misaligned = stream == 'misaligned'
    if live is None:
        impl = run_real(m, vs, op, sel)
        case = Lazy(m, vs, op, sel)
    else:
        impl = run_real(m, vs, op, sel, fd=live[0])
        case = Lazy(live[1][0], live[1][1], op, sel, [list(x) for x in live[1][2]])
    outside = style.startswith('outside:')
    label = f'{op}:{style}'
    n_fail = 0
    if misaligned:
        ctx.count(f'misaligned:{op}:' + ('ok' if impl[0] == 'ok' else 'raised:' + impl[1]))
    elif outside:
        ctx.count(f'{label}:' + ('ok' if impl[0] == 'ok' else 'raised:' + impl[1]))
    elif stream == 'main':
        ctx.count('op:' + op)
        ctx.count('selection:' + style)
        ctx.count('outcome:' + ('ok' if impl[0] == 'ok' else 'raised:' + impl[1]))
    else:
        ctx.count(f'{stream}:{op}:' + ('ok' if impl[0] == 'ok' else 'raised:' + impl[1]))
    nontrivial = impl[0] == 'ok' and (
        set(impl[1]['nodes']) != {i for i, _ in m['nodes']} or op in FACET_OPS or op == 'first_order'
        or set(impl[1]['elems']) != set(flat_eids(m)) or order_class(m) != 'asc')
    ctx.case((stream, G.enc_mesh(m), repr(vs), op, repr(sel)),
             sample={'stream': stream, 'mesh': G.describe(m), 'op': op, 'selection_style': style,
                     'selection': sel if not isinstance(sel, list) else sel[:8],
                     'nodal': [(v['name'], v['shape']) for v in vs['nodal']],
                     'elemental': [(v['name'], v['shape'], list(v['blocks'])) for v in vs['elemental']],
                     'outcome': impl[0] if impl[0] == 'ok' else impl[1]},
             nontrivial=nontrivial and not outside)
    tag = '' if stream in ('main', 'misaligned') else f' [{stream}]'
    # ---- property oracle
    if impl[0] == 'ok':
        for v in vs['nodal']:
            if len(v['shape']) == 2 and len(impl[1]['shapes'].get(v['name'], [0, 0])) == 1:
                ctx.count('shape:flattened')
        if misaligned:
            aligned = {v['name'] for v in vs['nodal'] if not v.get('misaligned')}
            for sig, text in oracle(m, vs, op, sel, impl[1], check_vars=aligned):
                ctx.fail(f'{op}:{sig}', f'{op} ({style}): {text}', case.json(), text)
                n_fail += 1
            mis = [s for s, _ in oracle(m, {'nodal': [v for v in vs['nodal'] if v.get('misaligned')], 'elemental': []},
                                        op, sel, impl[1]) if s.startswith('values:nodal')]
            ctx.count(f'misaligned:{op}:' + ('values-rebound-to-other-ids' if mis else 'values-kept'))
        elif not outside:
            for sig, text in oracle(m, vs, op, sel, impl[1]):
                ctx.fail(f'{op}:{sig}', f'{op} ({style}){tag}: {text}', case.json(), text)
                n_fail += 1
    elif not outside and not misaligned:
        # inside the quantifier the operation must not fail, except where the mesh has no facets / unsupported order
        expected = (op in FACET_OPS and impl[1] == 'other') or \
                   (op == 'first_order' and impl[1] == 'value' and
                    any('2' in t and t not in ('tet2', 'hex2') for t in m['blocks']))
        if not expected and op in SURF and impl[1] == 'value' and 1 not in face_counts(m).values():
            # every face is shared (duplicated elements): there is no surface to return
            ctx.count('outside:empty-surface:raised:value')
        elif expected:
            ctx.count(f'unsupported-type:{op}')
        else:
            ctx.fail(f'{op}:raises', f'{op} ({style}){tag} raised {impl[1]} on a well-formed mesh and selection', case.json(), impl[1])
            n_fail += 1
    if n_fail:
        ctx.count(f'oracle-failures-by-stream:{stream}:{op}', n_fail)
    if pending is not None:
        pending.append((case, impl, model_line(m, vs, op, sel), vs, label, stream))
    return n_fail


def inside(rnd, m, op):
    """one selection of `op` inside the property's quantifier: (style, selection)"""
    return rnd.choice([x for x in selections(rnd, m, op) if not x[0].startswith('outside:')])


def chain(ctx, rnd, m, vs):
    """round 5 (classes S, Q, C; oracle only): the operations on DERIVED objects and on ONE LIVE object.  op1 is applied to a
    fresh object; on its result d (which carries whatever tables / caches op1 built or copied) 3-4 further operations are
    run in sequence, `remove_useless_nodes` (in place) last, some preceded by a call that is refused (a selection outside the
    quantifier: unknown ids, empty, out of range).  Every operation is judged by the property oracle against a snapshot of the
    public state of d taken just before it - the property quantifies over every mesh, and d in its current state is one."""
    op1 = rnd.choice(['cut_eids', 'cut_eids', 'cut_nids', 'extract_idx', 'extract_idx', 'cut_type', 'first_order', 'surface',
                      'surface_keep', 'facets', 'remove_useless'])
    _, sel1 = inside(rnd, m, op1)
    try:
        d = G.quiet(apply_real, build(m, vs), op1, sel1)
    except Exception:  # noqa  (judged by the main stream)
        ctx.count(f'chain:derive:{op1}:raised')
        return
    ctx.count(f'chain:derive:{op1}')
    prefix = [['derive', op1, sel1]]
    ops2 = rnd.sample([o for o in OPS if o != 'remove_useless'], 3) + (['remove_useless'] if rnd.random() < .5 else [])
    for op2 in ops2:
        m1, vs1 = G.quiet(snapshot, d)
        if not any(m1['blocks'].values()):
            ctx.count('chain:no-elements-left')
            return
        if rnd.random() < .3:       # a refused call on the same object first
            opx = rnd.choice(['cut_eids', 'cut_type', 'cut_nids', 'extract_idx'])
            stx, selx = rnd.choice([x for x in selections(rnd, m1, opx) if x[0].startswith('outside:')])
            try:
                G.quiet(apply_real, d, opx, selx)
                ctx.count(f'chain:outside-call:{opx}:{stx}:ok')
            except Exception:  # noqa
                ctx.count(f'chain:outside-call:{opx}:{stx}:raised')
            prefix.append(['call', opx, selx])
            m1, vs1 = G.quiet(snapshot, d)
        style, sel2 = inside(rnd, m1, op2)
        if op2 == 'first_order' and not any('2' in t for t in m1['blocks']) and rnd.random() < .7:
            continue
        eval_case(ctx, m1, vs1, op2, style, sel2, 'chain', live=(d, (m, vs, prefix)))
        prefix.append(['call', op2, sel2])


def one_mesh(ctx, rnd, pending, misaligned=False):
    m = gen_mesh(rnd, ctx.quick)
    vs = gen_vars(rnd, m, misaligned=misaligned)
    stream = 'misaligned' if misaligned else 'main'
    if not misaligned:
        for b in vs.get('bind', []):
            ctx.count('table-binding:' + b)
        if not vs.get('bind'):
            ctx.count('table-binding:key=name')
        for v in vs['nodal'] + vs['elemental']:
            ctx.count('var-dtype:' + v.get('dtype', 'float64'))
            if v.get('via'):
                ctx.count('var-installed-by:' + v['via'])
        ctx.count('mesh-square(n_node=n_element):' + ('yes' if len(m['nodes']) == len(flat_eids(m)) else 'no'))
        if any(t + '2' in m['blocks'] for t in m['blocks']):
            ctx.count('mesh-mixed-order(t+t2)')
        ctx.count('mesh:' + ('mixed' if len(m['blocks']) > 1 else 'uniform'))
        ctx.count('mesh-order:' + order_class(m))
        ctx.count('mesh-ids:' + str(m.get('id_style')))
        ctx.count('mesh-max-id:' + ('<=n' if max(i for i, _ in m['nodes']) <= len(m['nodes']) else
                                    '<=4n' if max(i for i, _ in m['nodes']) <= 4 * len(m['nodes']) else '>4n'))
        ctx.count('mesh-unreferenced:' + ('yes' if m.get('n_unref') else 'no'))
        for t in m['blocks']:
            ctx.count('etype:' + t)
        for v in vs['nodal']:
            ctx.count(f"nodal-rank:{len(v['shape']) + 1}")
        for v in vs['elemental']:
            ctx.count(f"elemental-rank:{len(v['shape']) + 1}:" + ('unknown' if 'unknown' in v['blocks'] else 'typed'))
    for op in OPS:
        for style, sel in selections(rnd, m, op):
            if misaligned and style.startswith('outside:'):
                continue
            eval_case(ctx, m, vs, op, style, sel, stream, pending)
    if misaligned:
        return
    # ---- renumber stream (inside the quantifier, oracle only): the same mesh and variables under other node numberings.
    # The operations without a selection see the node ids only through facets / id sets, so a numbering is the whole input.
    second = any('2' in t for t in m['blocks'])
    for _ in range(ctx.n(2, 4)):
        m2, vs2 = renumber(rnd, m, vs, reorder=rnd.random() < .3)
        ctx.count('renumber:ids:' + str(m2['id_style']))
        for op in ID_OPS:
            if (op == 'first_order' and not second) or (op == 'remove_useless' and not m.get('n_unref')) or \
                    (op in ('surface_keep', 'facets_all') and rnd.random() < .75):
                continue
            eval_case(ctx, m2, vs2, op, '-', None, 'renumber')
    # ---- signed stream (inside the quantifier "ids unsorted / sparse", oracle only - the model's ids are naturals): node AND
    # element ids 0-based / negative / negative together with ~2e9, every operation with one selection
    if rnd.random() < (.2 if ctx.quick else .3):
        m3, vs3 = renumber(rnd, m, vs, style=rnd.choice(SIGNED_STYLES), reorder=rnd.random() < .3)
        if rnd.random() < .8:
            m3, vs3 = renumber_elements(rnd, m3, vs3)
        ctx.count('signed:ids:' + str(m3['id_style']) + '/' + str(m3.get('eid_style', 'elements-unchanged')))
        if rnd.random() < .6:
            vs3 = nanify(rnd, vs3)
            ctx.count('signed:variables with NaN rows / cells')
        for op in OPS:
            style, sel = inside(rnd, m3, op)
            eval_case(ctx, m3, vs3, op, style, sel, 'signed')
    # ---- chain stream: operations on derived / live objects
    if rnd.random() < .5:
        chain(ctx, rnd, m, vs)


def intensify(ctx, rnd, m, vs, op, label, budget=40):
    """model and code disagree on (m, vs, op, .): hand the input to the property oracle in earnest - the same mesh under
    `budget` other node numberings / storage orders, the operation with freshly drawn selections.  A disagreement that is
    not itself a violation (an order, a numbering of new entities) is very often the visible part of a change that
    violates the property on a neighbouring input; this is what turns it into a concrete replay."""
    found = 0
    for k in range(budget):
        m2, vs2 = (m, vs) if k == 0 else renumber(rnd, m, vs, reorder=rnd.random() < .5)
        for style, sel in selections(rnd, m2, op):
            if style.startswith('outside:'):
                continue
            found += eval_case(ctx, m2, vs2, op, style, sel, 'intensify')
        if found >= 3:
            break
    ctx.count(f'intensify:{op}:' + ('failing-input-found' if found else 'none-found'))
    return found


def flush(ctx, pending):
    if ctx.driver is None or not pending:
        pending.clear()
        return
    replies = ctx.driver.ask_many([p[2] for p in pending])
    hot = []
    for (case, impl, _, vs, label, stream), rep in zip(pending, replies):
        if rep.startswith('err bad-op'):
            raise RuntimeError('driver rejected a c09 request: ' + label)
        model = parse_model(rep, vs)
        diffs = compare(impl, model)
        if impl[0] == 'ok' and model[0] == 'ok' and impl[1]['node_order'] != model[1]['node_order']:
            ctx.count('storage-order-differs-from-model')
        for d in diffs:
            ctx.disagree(f'{label}: {d}' + ('' if stream == 'main' else f' [{stream}]'), case.json(),
                         impl[1] if impl[0] == 'err' else {k: impl[1][k] for k in ('node_order',)},
                         model[1] if model[0] == 'err' else {k: model[1][k] for k in ('node_order',)})
        if diffs and stream == 'main' and not label.split(':', 1)[1].startswith('outside:'):
            hot.append(case)
    pending.clear()
    # the disagreeing inputs go to the oracle: at most 4 per operation and 12 per run, cheapest (smallest) meshes first
    hot.sort(key=lambda c: len(c.a[0]['nodes']))
    for case in hot:
        m, vs, op, _ = case.a
        if ctx.extra.setdefault('c09_intensified', {}).get(op, 0) >= 4 or sum(ctx.extra['c09_intensified'].values()) >= 12:
            continue
        ctx.extra['c09_intensified'][op] = ctx.extra['c09_intensified'].get(op, 0) + 1
        intensify(ctx, ctx.rng, m, vs, op, op)


def run(ctx):
    rnd = ctx.rng
    pending = []
    for name, obj in C.corpus_cases(PROP):   # minimised past failures first
        import copy
        r = replay(ctx, copy.deepcopy(obj))
        ctx.count('corpus')
        if r.get('fails'):
            ctx.fail(obj.get('signature', 'corpus:' + name), 'corpus case fails: ' + name + ' ' + repr(r.get('violations'))[:300],
                     obj.get('input'), r.get('outcome'))
    for k in range(ctx.n(150, 1200)):
        one_mesh(ctx, rnd, pending)
        if len(pending) > 200:
            flush(ctx, pending)
    flush(ctx, pending)
    for k in range(ctx.n(30, 200)):
        one_mesh(ctx, rnd, pending, misaligned=True)
    flush(ctx, pending)
    if ctx.driver is None:   # no model: larger oracle budget
        for k in range(ctx.n(120, 500)):
            one_mesh(ctx, rnd, pending)
            pending.clear()
    never = [t for t in FACE_TYPES if not ctx.dist.get('etype:' + t)]
    if never:
        ctx.notes.append('element types known to the face tables but NOT generated in this run: ' + ', '.join(never))
    mis = {k: v for k, v in ctx.dist.items() if k.startswith('misaligned:') and 'rebound' in k}
    if mis:
        ctx.notes.append('misaligned stream (outside the default quantifier, DESIGN F9 class): the positional operations '
                         're-bind the values of a nodal variable whose own id order differs from the mesh: ' + repr(mis))


def replay(ctx, obj):
    case = obj['input']
    m = G.from_json(case['mesh'])
    vs = case['vars']
    for v in vs['nodal']:
        v['rows'] = [[NAN if x == NAN else F(x) for x in r] for r in v['rows']]
    for v in vs['elemental']:
        v['blocks'] = {t: [[e, [NAN if x == NAN else F(x) for x in r]] for e, r in b] for t, b in v['blocks'].items()}
    op, sel = case['op'], case['selection']
    prefix = case.get('prefix')
    if prefix:
        h = run_hist(m, vs, prefix, op, sel)
        if h is None:
            return {'op': op, 'selection': sel, 'prefix': prefix, 'fails': False, 'outcome': 'derive-step-raised'}
        m, vs, impl = h
    else:
        impl = run_real(m, vs, op, sel)
    res = {'op': op, 'selection': sel, 'outcome': impl[0] if impl[0] == 'ok' else impl[1]}
    if impl[0] == 'ok':
        bad = oracle(m, vs, op, sel, impl[1])
        res['violations'] = bad
        res['fails'] = bool(bad)
        res['result_node_ids'] = impl[1]['node_order']
    else:
        res['fails'] = True
        res['violations'] = [('raises', impl[1])]
    if ctx.driver is not None and not prefix and min([i for i, _ in m['nodes']] + flat_eids(m)) >= 0:
        model = parse_model(ctx.driver.ask(model_line(m, vs, op, sel)), vs)
        res['model_agrees'] = not compare(impl, model)
    return res
