"""Tie S of C17 (DESIGN.md 2.3b): EXTRA_OBLIGATIONS hook.

`harness/gen_tensor_kernels.py` executes the real tensor helpers of the working tree on symbolic components and writes the
polynomial maps to lean/Femio/Gen/TensorKernels.lean; `Femio/Props/TensorTie.lean` proves, over every field, that the model
functions of Model/Tensor.lean return exactly those lists (`TT_<kernel>`, by unfolding and `ring`).  The module is built and
audited SEPARATELY from LEAN_MODULES of C17 (it is not imported by Femio.lean): when a helper changes, only this module stops
building; Props.C17 and the driver still build, so ties P / D localise the helper and the oracle searches for the concrete
failing input.  harness/c17.py uses it as

    from .tensor_tie import tensor_tie as EXTRA_OBLIGATIONS, EXTRA_THEOREMS
"""
import re
import time

from . import common as C

TT_MODULE = 'Femio.Props.TensorTie'
TT_KERNELS = ([f't{f}_e{e}_o{o}' for e in (0, 1) for o in range(4) for f in ('Arr2Mat', 'Mat2Arr')]
              + ['tFromEigens', 'tArrayFromEigens_e0', 'tArrayFromEigens_e1', 'tPrincipalPost', 'tPrincipalEighArg_e0',
                 'tPrincipalEighArg_e1', 'tLteMatrix', 'tLteGlobal2LocalPost', 'tLteLocal2Global'])
EXTRA_THEOREMS = ['TT_' + k for k in TT_KERNELS]


def _failing(out):
    """names of the TT_ theorems at which `lake build Femio.Props.TensorTie` reported an error"""
    src = C.module_file(TT_MODULE)
    starts = []
    if src.exists():
        for i, line in enumerate(src.read_text().splitlines(), 1):
            mm = re.match(r'theorem\s+(TT_\w+)', line)
            if mm:
                starts.append((i, mm.group(1)))
    failing, other = {}, []
    for mm in re.finditer(r'^error: (\S+?\.lean):(\d+):\d+: (.*)$', out, re.M):
        f, ln, msg = mm.group(1), int(mm.group(2)), mm.group(3)
        name = None
        if f.endswith('Props/TensorTie.lean'):
            for i, nm in starts:
                if i <= ln:
                    name = nm
        if name:
            failing.setdefault(name, f'{f}:{ln}: {msg}'[:300])
        else:
            other.append(f'{f}:{ln}: {msg}'[:300])
    return failing, other


def tensor_tie(ctx):
    """regenerate Gen/TensorKernels.lean from the working tree, build + audit Props/TensorTie -> [(name, ok, detail)]"""
    ev = {'module': TT_MODULE, 'technique': 'symbolic execution of the real tensor helpers (femio/functions.py, '
          'femio/signal_processor.py) on one tensor with symbolic components; traced polynomial map = model function is proved '
          'by `ring` over every field on every run'}
    ctx.extra['tensor_tie'] = ev
    obl = []
    try:
        from . import gen_tensor_kernels as GT
        changed, info = GT.generate()
    except C.Timeout:
        raise
    except Exception as e:      # the translator itself is unavailable: recorded, not an alarm (ties T / P / D remain)
        ev['unavailable'] = f'{type(e).__name__}: {e}'[:400]
        ctx.notes.append('tensor tie S unavailable (recorded only; ties T / P / D cover every helper): ' + ev['unavailable'])
        return obl
    stale = set(info['stale'])
    ev.update(traced_symbolically=info['traced'], untraceable=info['untraceable'], not_traced_by_design=info['not_traced_by_design'],
              patched_while_tracing=info['patched'], trace_s=info['trace_s'], regenerated=bool(changed), orders=info['orders'])
    if info['untraceable']:
        ctx.notes.append(f'tensor tie S: {len(info["untraceable"])} helper(s) untraceable (recorded only; ties T / P / D remain '
                         'their tie): ' + ', '.join(sorted(info['untraceable'])))
    if set(info['kernels']) != set(TT_KERNELS):
        ctx.notes.append('tensor tie S: kernel tables of gen_tensor_kernels.py and tensor_tie.py differ')
    ok, out, dt = C.lake_build([TT_MODULE])
    ev['build_s'] = round(dt, 1)
    ev['checker_cmd'] = f'cd lean && lake build {TT_MODULE} && lake env lean Femio/Audit/TensorTie.lean'
    live = [t for t in EXTRA_THEOREMS if t[3:] not in stale]
    if ok:
        t0 = time.time()
        thms, raw, aok = C.audit('TensorTie')
        ev['audit_s'] = round(time.time() - t0, 1)
        obl.append((f'lean:build:{TT_MODULE}', True, ''))
        for name in live:
            full = [k for k in thms if k == name or k.endswith('.' + name)]
            if not full:
                obl.append((f'theorem:{name}', False, 'not found in the output of Femio/Audit/TensorTie.lean'))
                continue
            ax = thms[full[0]]
            bad = [a for a in ax if a not in C.ALLOWED_AXIOMS]
            obl.append((f'theorem:{name}', not bad, 'axioms: ' + ', '.join(ax) if ax else 'no axioms'))
        if ctx.tier == 'thorough':
            with C.build_lock():
                rc, lo = C.sh(['lake', 'env', 'leanchecker', TT_MODULE], cwd=C.LEAN, timeout=3000)
            obl.append((f'leanchecker:{TT_MODULE}', rc == 0, lo[-500:]))
        ev['proved'] = live
    else:
        failing, other = _failing(out)
        failing = {k: v for k, v in failing.items() if k[3:] not in stale}
        ev['failed'] = sorted(failing)
        obl.append((f'lean:build:{TT_MODULE}', False, '; '.join(sorted(failing)) + (' | ' + ' | '.join(other[:5]) if other else '')
                    or out[-600:]))
        for name, msg in sorted(failing.items()):
            obl.append((f'theorem:{name}', False, 'the polynomial map traced from the working tree is not the model function: ' + msg))
        ctx.notes.append('tensor tie S BROKEN for ' + ', '.join(sorted(failing)) + ' - the code no longer computes the map of the '
                         'model; ties P / D and the oracle below search for a concrete failing input')
    return obl
