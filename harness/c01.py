"""C01 - FrontISTR .msh write -> read is the identity; FrontISTR node order; format insensitivity.

Tie T: element-code tables and prism permutations (Femio/Gen/Tables.lean, `decide`d theorems).
Tie D: (a) `Femio.Fistr.writeMsh` must render, line by line, the text `FistrWriter.write_msh` writes
(13-significant-digit decimal inputs); (b) `Femio.Fistr.readMsh` and the real reader parse the same text
(the written one and G1-G4 mutated variants) to the same canonical result.
Oracle (real code only): write -> read back -> id-keyed maps; FrontISTR-convention orientation of the
written file through an independent tokenizer; G1-G4 variants read back identically.
"""
import decimal
import shutil
from fractions import Fraction as F

import numpy as np

from . import common as C
from . import meshgen as G
from . import fistr_common as X

PROP = 'C01'
LEAN_MODULES = ['Femio.Props.C01']
THEOREMS = ['C01_codes_inverse', 'C01_prism_perm_involutive', 'C01_orientation', 'C01_prism_unpermuted_inverted',
            'C01_orientation_volume_affine', 'C01_prism_unpermuted_flips', 'C01_float_roundtrip', 'C01_row_roundtrip',
            'C01_blocks_roundtrip', 'C01_roundtrip_partial', 'C01_roundtrip_example',
            'C01_format_insensitive_blank_comment', 'C01_format_insensitive_split',
            'C01_format_insensitive_whitespace_partial', 'C01_format_insensitive_bang_fixed',
            'C01_bang_counterexample_upstream', 'C01_split_egroup_counterexample_upstream',
            'C01_roundtrip', 'C01_exMesh_wf', 'C01_roundtrip_statement', 'C01_format_insensitive_whitespace',
            'C01_format_insensitive_split_whole', 'C01_format_insensitive', 'C01_roundtrip_any_format',
            'C01_write_keeps_object', 'C01_history_roundtrip', 'C01_append_counterexample',
            'C01_assign_complete', 'C01_assign_sound', 'C01_assign_dict_counterexample', 'C01_split_initial_counterexample']
PARTIAL = [
    'C01_roundtrip / C01_roundtrip_statement (whole file, readMsh (writeMsh m) = canon m) are over the model of '
    'write_msh / _read_msh + remove_useless_nodes and its well-formed inputs Femio.C01.WF (>= 1 node and element block, '
    'distinct ids, one non-empty block per supported type in ELEMENT_TYPES order, referenced nodes exist, 3 coordinates, '
    'prism rows of 6, non-empty groups with distinct \\w+ names other than ALL, \\w+ section / material names, '
    'temperature given for the nodes in node order); the earlier C01_roundtrip_partial (row lists only) is kept but '
    'superseded',
    'C01_format_insensitive (G1-G4, any sequence of steps, arbitrary text) - G4 needs a data row on both sides of a cut '
    'in an !ELEMENT block (an empty !ELEMENT block makes the mixed branch of the real reader raise; decide-d example in '
    'Lemmas/FistrG4.lean) and a header that belongs to !NODE or !ELEMENT only; for !EGROUP the code violates G4 '
    '(finding G6, C01_split_egroup_counterexample_upstream); G3 data lines are lines not starting with "!" on both sides',
    'several sections (round 5): Model/FistrSections.lean models the section / material lines of the writer (secMatLines, tie '
    'D: string-identical) and the reader\'s resolution of materials onto elements (assignRows; C01_assign_complete / '
    'C01_assign_sound: exactly the members of every section row\'s group get that row\'s material, for any table orders and '
    'any number of rows naming one material; C01_assign_dict_counterexample: the dictionary-keyed walk loses a section; tie '
    'D: assignOfRead of the text vs elemental_data of the real reader on every case with a section); the whole-file theorem '
    'C01_roundtrip is NOT extended to several sections (MshIn.sec is one optional section): for them the round trip is '
    'covered by the oracle and by the model READER on the written text only',
    'G7 (!INITIAL CONDITION split in two): the code violates it (finding, C01_split_initial_counterexample transcribes the '
    'current reader: last block wins + positional zero padding); the repair configuration is detected from behaviour '
    '(`initial-merge`: model reader on the split text = 0, on the unsplit text = 1), there is no ReadCfg flag for it',
    'C01_orientation_volume_affine: signed-volume equality is proved for affine prisms (for non-planar quads the two '
    'tet decompositions differ); the geometry-independent statement is the face-cycle theorem C01_orientation',
    'decimal <-> binary rounding of %.12E / float() is runtime (trusted: correctly rounded); arbitrary doubles are '
    'covered by the oracle to 13 digits only',
    'C01_history_roundtrip / C01_write_keeps_object (Model/FistrHist.lean) abstract every public modification as "the '
    'object\'s state becomes m\'": that femio\'s modifiers leave the state their caller intended is the subject of C08, not '
    'proved here; the tie of the history model to the code is the stream `history` (written text = model text of the '
    'state read from the live object just before the write; object bit-identical after the write; an existing file '
    'replaced, never appended to - C01_append_counterexample is the kernel-evaluated witness of the appending writer)',
]
RULE = ('seeded generator: node ids distinct positive (dense / sparse / 10^6 / 2*10^9 / prefix-permutation families) in '
        'ascending, descending or shuffled storage order; 1-3 element types out of line, tri, quad, tet, tet2, prism, '
        'hex, hex2 with arbitrary connectivity (combinatorial stream) or conforming positively oriented tet / tet2 / '
        'hex / prism bricks (geometric stream); distinct element ids; 0-2 unreferenced nodes; 0-3 non-empty element '
        'groups (plus the one-group-per-element layout), with / without ALL; optional one-material SOLID/SHELL section '
        'on a group or ALL; optional initial temperature; coordinates = 13-significant-digit decimals (exponents up to '
        '+-300, signed zeros) or arbitrary doubles; each case additionally in G1 blank / G2 # comment / G3 whitespace / '
        'G4 split-block variants. Stream same-object-twice: the same generator (every second case with prisms), ONE '
        'FEMData object written 2-3 times (another directory each time, or one directory with overwrite=True), every '
        'written file set read back and compared, the object\'s own user data (node ids, coordinates, elements, element / node '
        'groups, sections, materials, nodal and elemental data, bit-exact) compared with its state before each write, the '
        'texts of the writes compared with each other; in 40 % of the cases the directory already holds an export of '
        'ANOTHER generated mesh plus files of an earlier analysis and the write runs with overwrite=True. Input dimensions '
        'added in round 3: id style `ranges` (two or three dense ranges separated by gaps of about the count) for node and '
        'element ids; element ids of the types interleaving (counted); families of related group / material names '
        '(PART1 / PART10 / PART11, SKIN / SKIN_TOP, ART1 inside PART1, case variants, names around ALL such as ALL1 / WALL, '
        'femio\'s own E1 / M1), the section preferably on a group whose name is contained in another name; exactly-one-record '
        'blocks (one element per type, no spare node; one-member groups); 8 % of the cases also read through '
        'read_directory and with read_mesh_only=True. Stream history: ONE live object - constructed, or constructed and '
        'written once, or obtained by reading written files - modified by 1-4 public operations drawn per part of the '
        'mesh (coordinates / connectivity / temperature / material values edited in place through the arrays .data returns, '
        'data setters, update_data, loc / iloc write-through, update(allow_overwrite=True), overwrite, groups edited in '
        'place / replaced / added / deleted, section moved to another group), then written to a fresh directory, back to '
        'the directory it was written to / read from (overwrite=True) or over an export of another mesh (overwrite=True) '
        'and read back; expectation = the object\'s public state just before the write (snapshot_case), which is also '
        'given to the model (text identity, canon) and to an independently built fresh object (text identity). '
        'Input dimensions added in round 5: 2-4 sections on disjoint groups with a many-to-one section -> material relation '
        '(two parts of the same material in 60 % of them), the material table in its own order, with materials no section '
        'uses, deliberately often with n_material == n_element or n_node (square shapes), materials with equal values; two '
        'groups with the same members; structured fields for the initial temperature and for 1-2 coordinate axes (uniform, '
        'k * 10^-9..-15 tiny-distinct, near-uniform base + k * 10^-6..-10 * base, uniform-except-one, small integers) in '
        'decimal and binary form - values that "look equal" under an absolute epsilon or np.allclose defaults; dtype / memory '
        'layout of the arrays handed to femio (15 % of the cases); variant G7 (the !INITIAL CONDITION block split in two, 12 '
        'cases); stream large (quick: one mesh, thorough: four) with more than 65536 nodes / elements / group members / '
        'temperature rows in one block each and two sections; the history stream also edits several sections / materials '
        '(one row of a material table in place / overwrite / update_data, sections exchange their groups, sections get other '
        'materials). '
        'distinct = distinct (mesh, extras) after canonical JSON; non-trivial = at least one '
        'element and ids not 1..n ascending or more than one type or extras present')
ASSUMPTIONS = [
    'ids < 2^53 (the reader converts ids through float64)',
    'group / material names match \\w+ (ASCII) and differ from ALL',
    'sections: every section has one STATIC material (Young_modulus, Poisson_ratio); one section (the layout the Lean writer '
    'model and C01_roundtrip cover) or, since round 5, 2-4 sections on pairwise disjoint groups (an element has at most one '
    'material) with a many-to-one section -> material relation and a material table of its own order - built as the reader '
    'itself builds them (FEMAttributes(names, ids=material names, list_arrays)), because pandas 3 removed DataFrame.append '
    '(F5) which update() of a second material needs; sections whose groups overlap are outside (counted in the history stream)',
    'the two property tables of the materials (Young_modulus, Poisson_ratio) list the materials in the same order; a history '
    'that leaves them misaligned (update_data of one property re-sorts it) is counted as outside:section',
    'dtype / layout dimension (`arrays`): the same VALUES handed over as float32 / int64 / int32 / uint8 / unsigned ids / '
    'Fortran-ordered / strided / read-only arrays; a dtype is only used where it holds the values exactly (integer-valued '
    'fields are generated for it), so the expectation is the value, whatever array kind carried it',
    'stream large: parameters only in the replay (regenerated by expand()); oracle only, not sent through the model',
    'initial temperature is a full nodal field stored in node order (femio nodal_data layout)',
    'element groups are non-empty (an empty !EGROUP block cannot be represented in the format); empty groups run in '
    'the labelled stream `outside:empty-group`',
    'stream history: "the mesh" of a live object is what its public attributes show just before the write, read through '
    '.ids / .data of nodes, of every element block (items()), of nodal_data[INITIAL_TEMPERATURE], materials, sections and '
    'through the element_groups dict; operations are drawn so that the state stays inside the quantifier (update() sorts '
    'by id and is applied to nodes / temperature only while the temperature stays a field in node order); a state that '
    'nevertheless leaves it is counted (`history: outside:...`), an exception raised by a modifier (e.g. numpy refusing '
    'to write into a read-only array pandas returned) is counted (`history: modifier-raises:...`) and the state reached '
    'is what counts - neither is reported',
    'a difference between the texts two writes produce for the same public state (second write, fresh object) is a '
    'broken tie (ctx.disagree), not by itself a violation; dict insertion orders and settings are not part of the mesh '
    'the writer must leave untouched',
    'per-element materials (elemental_data materials, writer branch material_overwritten: one E<id> group, section and '
    'M<id> material per element, the user\'s groups not written) are outside "one-material sections" and not generated',
]
TRUSTED = [
    'C01: FrontISTR / HEC-MW node-ordering convention (outward face cycles of 341/351/361, signed-volume formulas) is a '
    'hand-written specification (Femio/Model/FistrOrient.lean, harness/c01.py: fistr_signed)',
    'C01: correctly rounded %.12E / float() (libc, CPython)',
]

TYPES = ['line', 'tri', 'quad', 'tet', 'tet2', 'prism', 'hex', 'hex2']
CODE = {'line': 301, 'tri': 731, 'quad': 741, 'tet': 341, 'tet2': 342, 'prism': 351, 'hex': 361, 'hex2': 362}
ARITY = {'line': 2, 'tri': 3, 'quad': 4, 'tet': 4, 'tet2': 10, 'prism': 6, 'hex': 8, 'hex2': 20}
SHELL = {'tri', 'quad'}
# G5 / G6 are inside the property's quantifier ("comment lines", "a block split into several blocks of the same
# kind") by the HEC-MW format definition: failures there are findings (ctx.fail).  Set to False to demote a stream
# to an observation.
# G7 (round 5): the `!INITIAL CONDITION, TYPE=TEMPERATURE` block split in two - "a block split into several blocks of the
# same kind" names no block kind; HEC-MW allows several !INITIAL CONDITION blocks (one per node group / node range).
FINDING_STREAMS = {'G5': True, 'G6': True, 'G7': True}


# ------------------------------------------------------------------ numbers

def num_float(n):
    return X.sci_float(tuple(n[1:]), 12) if n[0] == 's' else float.fromhex(n[1])


def rand_num(rnd, decimal):
    if decimal:
        return ['s'] + list(X.rand_sci(rnd, 12))
    r = rnd.random()
    if r < .2:
        v = rnd.choice([0.0, -0.0, 1.0, 0.1, 1 / 3, -2 / 3, 1e-300, 1e300, 123456789.123456789, 5e-324 * 2 ** 60])
    elif r < .6:
        v = rnd.uniform(-100, 100)
    else:
        v = rnd.uniform(-1, 1) * 10.0 ** rnd.randint(-30, 30)
    return ['h', float(v).hex()]


# ------------------------------------------------------------------ generator

NAME_BASES = ['PART', 'SKIN', 'E', 'M', 'G', 'Body', 'ALL', 'EGRP', 'grp_', 'W']
NAME_TAILS = ['', '1', '10', '11', '12', '2', '21', '100', '_1', '_TOP', '_TOP2', 'S', '0', '01', '_', 'x']


def name_family(rnd, k):
    """k distinct \\w+ names (never ALL) that are prefixes / suffixes / substrings / case variants of each other: numbered
    parts (PART1, PART10, PART11, PART2), a name and its extensions (SKIN, SKIN_TOP, SKIN_TOP2), names containing
    another one in the middle (ART1 in PART10), femio's own per-element names (E1, E10, M1), names around ALL (ALL1,
    WALL, ALL_) - the dimension that a lookup by substring / startswith / case-folded match gets wrong"""
    base = rnd.choice(NAME_BASES)
    pool = [base + t for t in NAME_TAILS]
    pool += [base[1:] + t for t in NAME_TAILS[:4] if len(base) > 1]            # ART1: inside PART1 and PART10
    pool += [rnd.choice('WXa_') + base + t for t in NAME_TAILS[:3]]            # WALL, XPART1
    pool += [base.lower() + t for t in NAME_TAILS[:3]] + [base.capitalize() + t for t in NAME_TAILS[:3]]
    pool = sorted({n for n in pool if n and n.upper() != 'ALL' and n.lower() not in ('nan', 'na', 'null', 'none', 'inf')})
    out = rnd.sample(pool, min(k, len(pool)))
    while len(out) < k:
        out.append(X.rand_name(rnd, out))
    return out


def ids_ranges(rnd, n):
    """'sparse but small' ids: two or three dense ranges separated by gaps of about n (max id stays below ~4 n, so a
    table sized from the count, an offset `id - min`, or a sum / difference of two ids collides where ids 1..n and the
    widely scattered `sparse` style do not)"""
    k = min(n, rnd.choice([2, 2, 3]))
    cuts = sorted(rnd.sample(range(1, n), k - 1)) if n > 1 and k > 1 else []
    sizes = [b - a for a, b in zip([0] + cuts, cuts + [n])]
    ids, start = [], rnd.choice([1, 1, 2, n, n + 1])
    for sz in sizes:
        ids += list(range(start, start + sz))
        start += sz + rnd.choice([n - 1, n, n + 1, max(1, n // 2), 2 * n])
    return ids


def secs_of(case):
    """([(shell, egrp, material name)] in section-table order, {material name: (young, poisson)} in material-table order)
    of a case: `sec` = the one-section layout the Lean writer model covers, `multi` = several sections / materials
    (round 5: the relation section -> material is many-to-one, the two tables have their own orders)"""
    m = case.get('multi')
    if m:
        return [tuple(x) for x in m['secs']], {nm: (y, p) for nm, y, p in m['mats']}
    s = case.get('sec')
    if s is None:
        return [], {}
    return [(s['shell'], s['egrp'], s['mat'])], {s['mat']: (s['young'], s['poisson'])}


def field_values(rnd, n, decimal, style):
    """n values of ONE field (initial temperature, one coordinate axis) with structure across the nodes (round 5, class L:
    fields that "look uniform / look equal" under an absolute epsilon or under np.allclose defaults although every value is
    distinct and exactly representable with the 13 digits of the format):
      uniform        every node the same value
      tiny-distinct  k * 10^e, e in -15..-9 (non-dimensionalised perturbation fields)
      near-uniform   base + k * delta with delta / base = 10^-6 .. 10^-12 (base from 1e-4 to 1e3, also negative)
      one-off        uniform except one node that differs in the last digits
      integers       small integers (also the values an integer-dtype field holds)
    decimal=False: the same structure on binary doubles (base * (1 + k 2^-40))"""
    ks = rnd.sample(range(1, 3 * n + 2), n)
    if style == 'integers':
        vals = [F(rnd.randint(-20, 400)) for _ in range(n)]
    elif style == 'tiny-distinct':
        e = rnd.randint(-15, -9)
        vals = [F(k) * F(10) ** e for k in ks]
    else:
        base = F(rnd.choice([1, 2, 3, 5, 25, 273, 3000001])) * F(10) ** rnd.randint(-4, 3) * rnd.choice([1, 1, 1, -1])
        lead = 0                                            # floor(log10 |base|)
        while abs(base) >= F(10) ** (lead + 1):
            lead += 1
        while abs(base) < F(10) ** lead:
            lead -= 1
        delta = F(10) ** (lead - rnd.randint(6, 10))        # base has <= 7 digits, k < 1000: <= 13 significant digits
        if style == 'uniform':
            vals = [base] * n
        elif style == 'one-off':
            vals = [base] * n
            vals[rnd.randrange(n)] = base + rnd.choice([1, -1, 7]) * delta
        else:
            vals = [base + k * delta for k in ks]
    out = []
    for v, k in zip(vals, ks):
        if decimal:
            sc = X.sci_of_fraction(v, 12)
            assert sc is not None, v
            out.append(['s'] + list(sc))
        else:
            out.append(['h', (float(v) * (1 + (k * 2.0 ** -44 if style in ('tiny-distinct', 'near-uniform') else 0))).hex()])
    return out


FIELD_STYLES = ['uniform', 'tiny-distinct', 'near-uniform', 'one-off', 'integers']


def gen_multi(rnd, case, names, fam, existing=False):
    """several sections, each with one material (property: "one-material sections"): the groups of the sections are
    pairwise disjoint (every element has at most one material), the relation section -> material is many-to-one in 60 % of
    the cases (two parts made of the same material), the material table has its own order, may hold a material no
    section uses and, deliberately often, as many materials as there are elements or nodes (square shapes)"""
    eids = [e for b in case['blocks'].values() for e, _ in b]
    if len(eids) < 2:
        return None
    k = rnd.randint(2, min(4, len(eids)))
    if existing:                        # the one-group-per-element layout: sections on k of the existing groups
        gnames = rnd.sample(names, k)
    else:
        pool = rnd.sample(eids, rnd.randint(k, len(eids)))
        cuts = sorted(rnd.sample(range(1, len(pool)), k - 1))
        parts = [pool[a:b] for a, b in zip([0] + cuts, cuts + [len(pool)])]
        gnames = []
        for part in parts:
            nm = fam.pop() if fam else X.rand_name(rnd, names)
            names.append(nm)
            gnames.append(nm)
            case['groups'].append([nm, part])
        rnd.shuffle(case['groups'])        # dict order of the groups differs from the order of the sections
    n_mat = rnd.randint(1, k - 1) if k > 1 and rnd.random() < .6 else k
    mnames = []
    for _ in range(n_mat):
        nm = rnd.choice(gnames + (fam[:3] if fam else [])) if rnd.random() < .25 else X.rand_name(rnd, mnames)
        if nm in mnames:
            nm = X.rand_name(rnd, mnames + names)
        mnames.append(nm)
    assign = mnames + [rnd.choice(mnames) for _ in range(k - n_mat)]
    rnd.shuffle(assign)
    shell_ok = set(case['blocks']) <= SHELL
    secs = [[bool(shell_ok and rnd.random() < .6), g, m] for g, m in zip(gnames, assign)]
    want = rnd.choice([None, None, len(eids), len(case['nodes'])])      # square shapes: n_material == n_element / n_node
    while len(mnames) < (want or 0) and len(mnames) < 12:
        mnames.append(X.rand_name(rnd, mnames + names))
    if want is None and rnd.random() < .15:
        mnames.append(X.rand_name(rnd, mnames + names))                  # a material no section uses
    rnd.shuffle(mnames)                 # the material table in its own order
    same = rnd.random() < .2            # materials with equal / nearly equal values stay separate materials
    y0, p0 = [list(X.rand_sci(rnd, 8, 'unit', allow_zero=False)[1:]) for _ in range(2)]
    mats = []
    for j, nm in enumerate(mnames):
        if same:
            y, p = [y0[0] + rnd.choice([0, 0, j]), y0[1]], list(p0)
        else:
            y, p = [list(X.rand_sci(rnd, 8, 'unit', allow_zero=False)[1:]) for _ in range(2)]
        mats.append([nm, y, p])
    return {'secs': secs, 'mats': mats}


def gen_extras(rnd, case, round5=False):
    """round5=True adds the input dimensions of round 5 (several sections / many-to-one materials, groups with equal
    members, structured temperature fields); the default consumes the PRNG exactly as before"""
    eids = [e for b in case['blocks'].values() for e, _ in b]
    names = []
    groups = []
    style = rnd.choice(['none', 'none', 'some', 'some', 'some', 'singletons', 'family', 'family'])
    family = style == 'family' or (style == 'singletons' and rnd.random() < .4)
    fam = name_family(rnd, len(eids) + 6) if family else None

    def new_name():
        nm = fam.pop() if fam else X.rand_name(rnd, names)
        names.append(nm)
        return nm
    if style == 'some':
        for _ in range(rnd.randint(1, 3)):
            groups.append([new_name(), rnd.sample(eids, rnd.randint(1, len(eids)))])
    elif style == 'family':      # 2-5 groups with related names, small (often one-member) and overlapping member lists
        for _ in range(rnd.randint(2, 5)):
            groups.append([new_name(), rnd.sample(eids, rnd.choice([1, 1, rnd.randint(1, len(eids))]))])
    elif style == 'singletons':
        order = list(eids)
        rnd.shuffle(order)
        for e in order:
            groups.append([new_name(), [e]])
    case['group_style'] = style + ('(related names)' if family and style != 'family' else '')
    case['groups'] = groups
    case['has_all'] = rnd.random() < .6
    case['sec'] = None
    if rnd.random() < (.8 if family else .5):
        shell = set(case['blocks']) <= SHELL and rnd.random() < .7
        egrp = rnd.choice(names + ['ALL']) if names else 'ALL'
        if family and names and rnd.random() < .7:       # the section on a group whose name is inside another name
            inside = [a for a in names if any(a != b and a in b for b in names)]
            egrp = rnd.choice(inside or names)
        mat = rnd.choice(names + fam[:3]) if family and rnd.random() < .5 else X.rand_name(rnd)
        case['sec'] = {'shell': shell, 'egrp': egrp, 'mat': mat,
                       'young': list(X.rand_sci(rnd, 8, 'unit', allow_zero=False)[1:]),
                       'poisson': list(X.rand_sci(rnd, 8, 'unit', allow_zero=False)[1:])}
    case['temp'] = None
    if rnd.random() < .5:
        case['temp'] = [[i, rand_num(rnd, case['decimal'])] for i, _ in case['nodes']]
    if not round5:
        return case
    if groups and style != 'singletons' and rnd.random() < .2:       # two groups with the same members (in another order): many-to-one
        nm, members = rnd.choice(groups)
        twin = list(members)
        rnd.shuffle(twin)
        groups.insert(rnd.randint(0, len(groups)), [new_name(), twin])
        case['group_style'] += '+twin'
    if rnd.random() < .3:
        multi = gen_multi(rnd, case, names, fam, existing=style == 'singletons')
        if multi is not None:
            case['sec'], case['multi'] = None, multi
            case['group_style'] += '+section-groups'
    if case['temp'] is not None and rnd.random() < .45:
        case['temp_style'] = rnd.choice(FIELD_STYLES)
        vals = field_values(rnd, len(case['nodes']), case['decimal'], case['temp_style'])
        case['temp'] = [[i, v] for (i, _), v in zip(case['nodes'], vals)]
    if case['kind'] == 'comb' and rnd.random() < .15:      # flat / thin / tiny meshes: one or two structured coordinate axes
        case['coord_style'] = rnd.choice(FIELD_STYLES)
        for ax in rnd.sample(range(3), rnd.choice([1, 1, 2])):
            vals = field_values(rnd, len(case['nodes']), case['decimal'], case['coord_style'])
            for (_, p), v in zip(case['nodes'], vals):
                p[ax] = v
    return case


def gen_comb(rnd, round3=False):
    """combinatorial mesh.  round3=True adds the input dimensions of round 3 (id style `ranges`, exactly-one-record
    blocks); the default consumes the PRNG exactly as before, so that the checks that borrow this generator as a carrier
    mesh (C03) see an unchanged stream"""
    decimal = rnd.random() < .75
    types = rnd.sample(TYPES, rnd.choice([1, 1, 2, 2, 3]))
    need = max(ARITY[t] for t in types)
    n_unref = rnd.choice([0, 0, 1, 2])
    tiny = round3 and rnd.random() < .12          # exactly-one-record blocks: one element per type, no spare node
    n_nodes = (need if tiny else rnd.randint(need, need + 8)) + n_unref
    if round3 and rnd.random() < .15:
        ids, id_style = ids_ranges(rnd, n_nodes), 'ranges'
    else:
        ids, id_style = G.random_ids(rnd, n_nodes)
    rnd.shuffle(ids)
    usable = ids[:n_nodes - n_unref]
    keys, order = G.order_ids(rnd, list(range(n_nodes)), dict(enumerate(ids)))
    nodes = [[ids[k], [rand_num(rnd, decimal) for _ in range(3)]] for k in keys]
    n_el = len(types) if tiny else rnd.randint(len(types), 9)
    if round3 and rnd.random() < .15:
        eids = ids_ranges(rnd, n_el)
    else:
        eids, _ = G.random_ids(rnd, n_el, rnd.choice(['dense', 'sparse', 'large', 'prefix']))
    rnd.shuffle(eids)
    blocks = {}
    for k, e in enumerate(eids):
        t = types[k] if k < len(types) else rnd.choice(types)
        blocks.setdefault(t, []).append([e, rnd.sample(usable, ARITY[t])])
    blocks = {t: blocks[t] for t in G.ELEMENT_TYPES if t in blocks}
    return {'kind': 'comb', 'order': order, 'id_style': id_style, 'decimal': decimal, 'nodes': nodes,
            'blocks': blocks, 'positive': []}


def gen_geom(rnd):
    kind = rnd.choice(['tet', 'hex', 'prism', 'tet2'])
    m = G.gen_geometric(rnd, kind='tet' if kind == 'tet2' else kind, max_cells=2, voids=False)
    if kind == 'tet2':
        m = G.promote_tet2(rnd, m)
    pos = {i: tuple(X.quantize(v, 9) for v in p) for i, p in m['nodes']}
    nodes = [[i, [['s'] + list(X.sci_of_fraction(v, 12)) for v in pos[i]]] for i, _ in m['nodes']]
    blocks = {t: [[e, list(c)] for e, c in b] for t, b in m['blocks'].items()}
    positive = []
    for t, b in blocks.items():
        base = {'tet2': 'tet'}.get(t, t)
        for e, c in b:
            if G.signed(base, [pos[n] for n in c[:ARITY[base]]]) > 0:
                positive.append(e)
    return {'kind': 'geom:' + kind, 'order': m['order'], 'id_style': m.get('id_style'), 'decimal': True,
            'nodes': nodes, 'blocks': blocks, 'positive': positive}


def gen_case(rnd):
    case = gen_geom(rnd) if rnd.random() < .3 else gen_comb(rnd, round3=True)
    case = gen_extras(rnd, case, round5=True)
    if rnd.random() < .15:
        case['arrays'] = gen_arrays(rnd, case)
    return case


def expand(case):
    """a case given by parameters only (`large`: more than 65536 rows of every kind - class G / M: block-wise writers, 16-bit
    counters) is regenerated deterministically from them, so that its replay file stays small"""
    if 'large' not in case:
        return case
    import random
    prm = case['large']
    rnd = random.Random(prm['seed'])
    n, t = prm['n_nodes'], prm['type']
    ids = rnd.sample(range(1, prm['id_span'] * n), n) if prm['id_span'] > 1 else list(range(1, n + 1))
    if prm['order'] == 'descending':
        ids.sort(reverse=True)
    elif prm['order'] == 'ascending':
        ids.sort()

    def num():      # a 13-digit decimal, kept as the double nearest to it (cheap to convert; the model is not asked)
        return ['h', float(f'{rnd.choice("-+")}{rnd.randint(10 ** 12, 10 ** 13 - 1)}e{rnd.randint(-15, -9)}').hex()]
    nodes = [[i, [num(), num(), num()]] for i in ids]
    a = ARITY[t]
    n_el = n - a + 1                      # a strip: element k uses the nodes k .. k + arity - 1 in storage order
    eids = rnd.sample(range(1, 3 * n_el), n_el)
    rows = [[e, ids[k:k + a]] for k, e in enumerate(eids)]
    cut = rnd.randint(1, n_el - 1)
    groups = [['PART1', [e for e, _ in rows[:cut]]], ['PART10', [e for e, _ in rows[cut:]]]]
    out = {'kind': 'large', 'order': prm['order'], 'id_style': f'span x{prm["id_span"]}', 'decimal': False, 'nodes': nodes,
           'blocks': {t: rows}, 'positive': [], 'group_style': 'large', 'groups': groups, 'has_all': True,
           'sec': None, 'multi': {'secs': [[False, 'PART10', 'M2'], [False, 'PART1', 'M1']],
                                  'mats': [['M1', [205000000, 11], [300000000, -1]], ['M2', [700000000, 10], [330000000, -1]]]},
           'temp': [[i, num()] for i in ids] if prm['temp'] else None, 'large': prm}
    return out


def mat_float(x):
    """material value of a case: [mant, exp] (9-digit decimal, what the generator draws) or ['h', hex] (snapshot of a
    live object whose value is not such a decimal)"""
    return float.fromhex(x[1]) if x[0] == 'h' else X.sci_float((False, *x), 8)


ARRAY_KINDS = {
    'coord': ['f8:F', 'f8:strided', 'f8:readonly', 'f4', 'i8', 'i4'],
    'temp': ['f8:F', 'f8:strided', 'f8:readonly', 'f4', 'i8', 'i4', 'u1'],
    'conn': ['i8:F', 'i8:strided', 'i8:readonly', 'i4', 'u4', 'u8', 'i4:F'],
    'node_ids': ['i4', 'u4', 'u8', 'i8:strided', 'i8:readonly'],
    'elem_ids': ['i4', 'u4', 'u8', 'i8:strided', 'i8:readonly'],
}


def as_kind(a, kind):
    """the same VALUES in another dtype / memory layout (class F): `<dtype>[:F | :strided | :readonly]`; a dtype that
    cannot hold the values exactly leaves the array as it is (the caller only asks for kinds that can)"""
    if not kind:
        return a
    dt, _, lay = kind.partition(':')
    with np.errstate(all='ignore'):
        b = a.astype(np.dtype(dt))
        if not np.array_equal(b.astype(a.dtype), a):
            return a
    if lay == 'F':
        b = np.asfortranarray(b)
    elif lay == 'strided':                      # every second entry of a larger buffer: not contiguous
        big = np.zeros((2 * b.shape[0],) + b.shape[1:], dtype=b.dtype)
        big[::2] = b
        b = big[::2]
    elif lay == 'readonly':
        b = b.copy()
        b.setflags(write=False)
    return b


def gen_arrays(rnd, case):
    """dtype / layout of the arrays the caller hands to femio (one or two parts per case); value-changing dtypes only where
    the values are exactly representable (float32 / integer coordinates and temperatures need such values: the styles
    `integers` / small decimals provide them)"""
    out = {}
    for part in rnd.sample(sorted(ARRAY_KINDS), rnd.choice([1, 1, 2])):
        if part == 'temp' and case['temp'] is None:
            continue
        out[part] = rnd.choice(ARRAY_KINDS[part])
        if not out[part].startswith('f8') and part in ('temp', 'coord'):      # values such a dtype holds exactly
            if part == 'temp':
                vals = field_values(rnd, len(case['nodes']), True, 'integers')
                case['temp'] = [[i, ['s', False] + v[2:]] for (i, _), v in zip(case['nodes'], vals)]
            elif case['kind'] == 'comb':
                for ax in range(3):
                    for (_, p), v in zip(case['nodes'], field_values(rnd, len(case['nodes']), True, 'integers')):
                        p[ax] = v
    return out


def build_fem(case):
    from femio import FEMData, FEMAttribute, FEMElementalAttribute, FEMAttributes
    kinds = case.get('arrays') or {}
    nodes = FEMAttribute('NODE', ids=as_kind(np.array([i for i, _ in case['nodes']], dtype=np.int64), kinds.get('node_ids')),
                         data=as_kind(np.array([[num_float(v) for v in p] for _, p in case['nodes']], dtype=float), kinds.get('coord')),
                         silent=True)
    el = {t: FEMAttribute(t, ids=as_kind(np.array([e for e, _ in b], dtype=np.int64), kinds.get('elem_ids')),
                          data=as_kind(np.array([c for _, c in b], dtype=np.int64), kinds.get('conn')),
                          silent=True) for t, b in case['blocks'].items()}
    fd = X.quiet(lambda: FEMData(nodes=nodes, elements=FEMElementalAttribute('ELEMENT', G.insertion_order(el))))
    eg = {}
    if case['has_all']:
        eg['ALL'] = fd.elements.ids
    for nm, ids in case['groups']:
        eg[nm] = np.array(ids, dtype=np.int64)
    fd.element_groups = eg
    s = case['sec']
    if s is not None:
        fd.sections = X.quiet(lambda: FEMAttributes(
            names=['TYPE', 'EGRP'], ids=[s['mat']],
            list_arrays=[np.array(['SHELL' if s['shell'] else 'SOLID']), np.array([s['egrp']])]))
        X.quiet(fd.materials.update_data, [s['mat']], {
            'Young_modulus': np.array([[mat_float(s['young'])]]),
            'Poisson_ratio': np.array([[mat_float(s['poisson'])]])})
    if case.get('multi'):
        # several sections / materials: the two tables are built the way the reader itself builds them (ids of the section
        # table = material names, which repeat when two sections share a material)
        secs, mats = secs_of(case)
        fd.sections = X.quiet(lambda: FEMAttributes(
            names=['TYPE', 'EGRP'], ids=[m for _, _, m in secs],
            list_arrays=[np.array(['SHELL' if sh else 'SOLID' for sh, _, _ in secs]), np.array([g for _, g, _ in secs])]))
        fd.materials = X.quiet(lambda: FEMAttributes(
            names=['Young_modulus', 'Poisson_ratio'], ids=list(mats),
            list_arrays=[np.array([[mat_float(y)] for y, _ in mats.values()]), np.array([[mat_float(q)] for _, q in mats.values()])]))
    if case['temp'] is not None:
        X.quiet(fd.nodal_data.update_data, np.array([i for i, _ in case['temp']], dtype=np.int64),
                {'INITIAL_TEMPERATURE': as_kind(np.array([[num_float(v)] for _, v in case['temp']], dtype=float), kinds.get('temp'))})
    fd.settings['solution_type'] = 'STATIC'
    return fd


# ------------------------------------------------------------------ real code

def real_write(ctx, case, tag='w'):
    d = ctx.tmp / tag
    if d.exists():
        shutil.rmtree(d)
    d.mkdir(parents=True)
    fd = build_fem(case)
    X.quiet(fd.write, 'fistr', d / 'mesh')
    return d, (d / 'mesh.msh').read_text().split('\n')[:-1]


def real_read(ctx, lines, cnt_from=None, tag='r'):
    from femio import FEMData
    d = ctx.tmp / tag
    if d.exists():
        shutil.rmtree(d)
    d.mkdir(parents=True)
    (d / 'mesh.msh').write_text('\n'.join(lines) + '\n')
    files = [str(d / 'mesh.msh')]
    if cnt_from is not None:
        shutil.copy(cnt_from / 'mesh.cnt', d / 'mesh.cnt')
        files.append(str(d / 'mesh.cnt'))
    return canon_real(X.quiet(FEMData.read_files, 'fistr', files))


def canon_real(fd):
    out = {}
    out['node_order'] = [int(i) for i in fd.nodes.ids]
    out['nodes'] = {int(i): [float(x) for x in r] for i, r in zip(fd.nodes.ids, fd.nodes.data)}
    out['elems'] = {}
    out['elem_order'] = {}
    for t, a in fd.elements.items():
        out['elem_order'][t] = [int(i) for i in a.ids]
        for i, r in zip(a.ids, a.data):
            out['elems'][int(i)] = [t, [int(x) for x in r]]
    out['egroups'] = {str(k): [int(x) for x in np.asarray(v).ravel()] for k, v in fd.element_groups.items()}
    out['sections'] = []           # [material, TYPE, EGRP] in table order (material names repeat: not a dict)
    if 'TYPE' in fd.sections:
        ty, eg = fd.sections['TYPE'], fd.sections['EGRP']
        for m, t, g in zip(ty.ids, np.ravel(ty.data), np.ravel(eg.data)):
            out['sections'].append([str(m), str(t), str(g)])
    out['materials'] = {}
    for prop in ('Young_modulus', 'Poisson_ratio'):
        if prop in fd.materials:
            a = fd.materials[prop]
            for m, v in zip(a.ids, np.ravel(a.data)):
                out['materials'].setdefault(str(m), []).append(float(v))
    out['temp'] = None
    if 'INITIAL_TEMPERATURE' in fd.nodal_data:
        a = fd.nodal_data['INITIAL_TEMPERATURE']
        out['temp'] = {int(i): float(v) for i, v in zip(a.ids, np.ravel(a.data))}
    out['elemental'] = {}
    for prop in ('Young_modulus', 'Poisson_ratio'):
        if prop in fd.elemental_data:
            a = fd.elemental_data[prop]
            out['elemental'][prop] = {int(i): float(v) for i, v in zip(a.ids, np.ravel(a.data))}
    return out


# ------------------------------------------------------------------ model

def enc_num(n):
    assert n[0] == 's'
    return X.enc_sci(n[1:])


def enc_case(case):
    toks = [str(len(case['nodes']))]
    for i, p in case['nodes']:
        toks += [str(i), '3'] + [enc_num(v) for v in p]
    toks.append(str(len(case['blocks'])))
    for t, b in case['blocks'].items():
        toks += [str(G.ELEMENT_TYPES.index(t)), str(len(b))]
        for e, c in b:
            toks += [str(e), C.enc_list(c)]
    toks.append(str(int(case['has_all'])))
    toks.append(str(len(case['groups'])))
    for nm, ids in case['groups']:
        toks += [C.esc(nm), C.enc_list(ids)]
    s = case['sec']
    if s is None:
        toks.append('0')
    else:
        toks += ['1', str(int(s['shell'])), C.esc(s['egrp']), C.esc(s['mat']), X.enc_sci((False, *s['young'])),
                 X.enc_sci((False, *s['poisson']))]
    if case['temp'] is None:
        toks.append('0')
    else:
        toks += ['1', str(len(case['temp']))]
        for i, v in case['temp']:
            toks += [str(i), enc_num(v)]
    return ' '.join(toks)


def model_write(ctx, case):
    rep = ctx.driver.ask('c01.write ' + enc_case(case))
    t = C.Toks(rep)
    if t.tok() != 'ok':
        raise RuntimeError('driver: ' + rep[:200])
    if t.nat() == 0:
        return None
    return t.lst(lambda: C.unesc(t.tok()))


def model_read(ctx, lines, cfg=(0, 0)):
    """cfg = (bang, merge): Femio.Fistr.ReadCfg, upstream femio = (0, 0)"""
    rep = ctx.driver.ask(f'c01.read {cfg[0]} {cfg[1]} ' + C.enc_list(lines, C.esc))
    t = C.Toks(rep)
    if t.tok() != 'ok':
        raise RuntimeError('driver: ' + rep[:200])
    if t.nat() == 0:
        return None
    return _parse_mshread(t, rep)


def model_secmat(ctx, case):
    """section + material lines of a case with several sections (Femio.Fistr.secMatLines); None when a material value is
    not a 9-digit decimal"""
    secs, mats = secs_of(case)
    if any(y[0] == 'h' or q[0] == 'h' for y, q in mats.values()):
        return None
    line = 'c01.secmat ' + C.enc_list(secs, lambda x: f'{int(x[0])} {C.esc(x[1])} {C.esc(x[2])}') + ' ' + C.enc_list(
        list(mats.items()), lambda x: f'{C.esc(x[0])} {X.enc_sci((False, *x[1][0]))} {X.enc_sci((False, *x[1][1]))}')
    t = C.Toks(ctx.driver.ask(line))
    if t.tok() != 'ok':
        raise RuntimeError('driver: c01.secmat')
    return t.lst(lambda: C.unesc(t.tok()))


def model_assign(ctx, lines, cfg=(0, 0)):
    """Femio.Fistr.assignOfRead of the text as the model reader reads it: {element id: [young, poisson]} or None"""
    rep = ctx.driver.ask(f'c01.assign {cfg[0]} {cfg[1]} ' + C.enc_list(lines, C.esc))
    t = C.Toks(rep)
    if t.tok() != 'ok':
        raise RuntimeError('driver: ' + rep[:200])
    if t.nat() == 0:
        return None
    rows = t.lst(lambda: (t.nat(), t.lst(lambda: X.read_dec(t))))
    return {i: v for i, v in rows}


def tie_sections(ctx, case, lines, got, inp):
    """tie D of Model/FistrSections.lean on a case with sections: (a) several sections: the writer's section / material
    lines are the model's; (b) the reader's resolution of materials onto elements is `assignOfRead` of the same text"""
    if case.get('multi'):
        ml = model_secmat(ctx, case)
        k0 = next((k for k, ln in enumerate(lines) if ln.startswith('!SECTION')), len(lines))
        k1 = next((k for k, ln in enumerate(lines) if ln.startswith(('!INITIAL', '!END'))), len(lines))
        ctx.count('tie: section / material lines of several sections' + (' (skipped: value not a 9-digit decimal)' if ml is None else ''))
        if ml is not None and ml != lines[k0:k1]:
            ctx.disagree('msh text (section / material lines of several sections)', inp, first_diff(lines[k0:k1], ml), None)
    ma = model_assign(ctx, lines)
    ctx.count('tie: assignOfRead vs elemental_data')
    real = {}
    for k, prop in enumerate(('Young_modulus', 'Poisson_ratio')):
        for e, v in got['elemental'].get(prop, {}).items():
            real.setdefault(e, [None, None])[k] = v
    if ma is None or repr(_norm(ma)) != repr(_norm(real)):
        ctx.disagree('material assignment (Femio.Fistr.assignOfRead vs elemental_data of the real reader)', inp,
                     str(sorted(real.items()))[:300], None if ma is None else str(sorted(ma.items()))[:300])


def model_canon(ctx, case):
    """(decide (Femio.C01.WF m), Femio.C01.canon m): hypothesis and right-hand side of theorem C01_roundtrip"""
    rep = ctx.driver.ask('c01.canon ' + enc_case(case))
    t = C.Toks(rep)
    if t.tok() != 'ok':
        raise RuntimeError('driver: ' + rep[:200])
    wf = t.nat() == 1
    return wf, _parse_mshread(t, rep)


def _parse_mshread(t, rep):
    def row_d():
        i = t.nat()
        return i, t.lst(lambda: X.read_dec(t))

    def group():
        nm = C.unesc(t.tok())
        return nm, t.lst(t.nat)
    out = {}
    nodes = t.lst(row_d)
    out['node_order'] = [i for i, _ in nodes]
    out['nodes'] = {i: v for i, v in nodes}
    out['elems'] = {}
    out['elem_order'] = {}
    for _ in range(t.nat()):
        ty = G.ELEMENT_TYPES[t.nat()]
        rows = t.lst(lambda: (t.nat(), t.lst(t.nat)))
        out['elem_order'][ty] = [i for i, _ in rows]
        for i, c in rows:
            out['elems'][i] = [ty, c]
    out['ngroups'] = dict(t.lst(group))
    out['egroups'] = dict(t.lst(group))
    out['sections'] = []
    for _ in range(t.nat()):
        m, ty, g = C.unesc(t.tok()), C.unesc(t.tok()), C.unesc(t.tok())
        out['sections'].append([m, ty, g])
    out['materials'] = {}
    for _ in range(t.nat()):
        m = C.unesc(t.tok())
        out['materials'][m] = t.lst(lambda: X.read_dec(t))
    out['temp'] = None
    for _ in range(t.nat()):
        nm = C.unesc(t.tok())
        rows = t.lst(row_d)
        if nm == 'TEMPERATURE':
            out['temp'] = {i: v[0] for i, v in rows}
    assert t.done(), rep[:200]
    return out


MODEL_KEYS = ['node_order', 'nodes', 'elem_order', 'elems', 'egroups', 'sections', 'materials', 'temp']


def same_read(a, b, keys=MODEL_KEYS):
    """first key on which two canonical read results differ (floats exactly, nan == nan)"""
    for k in keys:
        if repr(_norm(a.get(k))) != repr(_norm(b.get(k))):
            return k
    return None


def _norm(x):
    if isinstance(x, dict):
        return sorted((str(k), _norm(v)) for k, v in x.items())
    if isinstance(x, (list, tuple)):
        return [_norm(v) for v in x]
    if isinstance(x, float):
        return 'nan' if x != x else (0.0 if x == 0 else x)
    return x


# ------------------------------------------------------------------ property oracle (real code only)

def expected_of(case):
    ref = {n for b in case['blocks'].values() for _, c in b for n in c}
    exp = {'nodes': {i: [num_float(v) for v in p] for i, p in case['nodes'] if i in ref},
           'elems': {e: [t, list(c)] for t, b in case['blocks'].items() for e, c in b},
           'egroups': {nm: sorted(ids) for nm, ids in case['groups']},
           'temp': None if case['temp'] is None else {i: num_float(v) for i, v in case['temp'] if i in ref}}
    exp['egroups']['ALL'] = sorted(exp['elems'])
    secs, mats = secs_of(case)
    exp['sections'] = sorted([m, 'SHELL' if sh else 'SOLID', g] for sh, g, m in secs)
    exp['materials'] = {m: [mat_float(y), mat_float(q)] for m, (y, q) in mats.items()}
    # element -> material value, resolved through section -> group -> members (the groups of the sections are disjoint)
    exp['assign'] = [{e: exp['materials'][m][k] for _, g, m in secs for e in exp['egroups'][g]} for k in range(2)]
    return exp, ref


def oracle_roundtrip(case, got):
    """list of (clause, detail) on which the read-back mesh differs from what was written"""
    exp, ref = expected_of(case)
    bad = []
    ids = set(got['nodes'])
    if not (ref <= ids and ids <= {i for i, _ in case['nodes']}):
        bad.append(('nodes', f'node id set {sorted(ids)[:8]}.. vs referenced {sorted(ref)[:8]}..'))
    else:
        for i in sorted(ref):
            if not all(X.close(r, o, 1e-12) for r, o in zip(got['nodes'][i], exp['nodes'][i])) or len(got['nodes'][i]) != 3:
                bad.append(('nodes', f'node {i}: read {got["nodes"][i]} written {exp["nodes"][i]}'))
                break
    if got['elems'] != exp['elems']:
        d = [e for e in sorted(set(got['elems']) | set(exp['elems'])) if got['elems'].get(e) != exp['elems'].get(e)]
        bad.append(('elements', f'element {d[0]}: read {got["elems"].get(d[0])} written {exp["elems"].get(d[0])}'))
    gg = {k: sorted(v) for k, v in got['egroups'].items()}
    if gg != exp['egroups']:
        bad.append(('egroups', f'read {gg} written {exp["egroups"]}'))
    if sorted(got['sections']) != exp['sections']:
        bad.append(('section', f'read {got["sections"]} written {exp["sections"]}'))
    if set(got['materials']) != set(exp['materials']) or any(
            len(got['materials'][m]) != 2 or not all(X.close(r, o, 1e-8) for r, o in zip(got['materials'][m], v))
            for m, v in exp['materials'].items()):
        bad.append(('material', f'read {got["materials"]} written {exp["materials"]}'))
    if exp['sections'] and not bad:
        for k, prop in enumerate(('Young_modulus', 'Poisson_ratio')):
            tab, want = got['elemental'].get(prop, {}), exp['assign'][k]
            if sorted(tab) != sorted(want) or not all(X.close(tab[e], v, 1e-8) for e, v in want.items()):
                e = next(e for e in sorted(set(tab) | set(want)) if e not in tab or e not in want or not X.close(tab[e], want[e], 1e-8))
                bad.append(('material-assignment', f'{prop} of element {e}: read {tab.get(e)} expected {want.get(e)} '
                                                   f'(sections {exp["sections"]}, elements with a value {sorted(tab)} expected {sorted(want)})'))
                break
    if exp['temp'] is None:
        if got['temp'] is not None:
            bad.append(('temperature', 'initial temperature appeared'))
    elif got['temp'] is None or set(got['temp']) != set(got['nodes']) or not all(
            i in got['temp'] and X.close(got['temp'][i], o, 1e-12) for i, o in exp['temp'].items()):
        bad.append(('temperature', f'read {got["temp"]} written {exp["temp"]}'))
    return bad


def other_read_paths(d, case, got):
    """the other observation points of the property on the directory `d` the writer filled: FEMData.read_directory must
    return what read_files returned, and read_mesh_only=True (no groups / materials, no removal of unreferenced nodes)
    the same node and element maps  -> [(clause, detail)]"""
    from femio import FEMData
    bad = []
    try:
        gd = canon_real(X.quiet(FEMData.read_directory, 'fistr', d, read_npy=False, save=False))
        k = same_read(got, gd, MODEL_KEYS + ['elemental'])
        if k:
            bad.append(('read_directory', f'read_directory returns another mesh than read_files ({k}): {str(gd.get(k))[:200]} vs {str(got.get(k))[:200]}'))
    except Exception as e:  # noqa
        bad.append(('read_directory-raises:' + type(e).__name__, f'read_directory of the written directory raised {e!r}'))
    try:
        gm = canon_real(X.quiet(FEMData.read_files, 'fistr', [str(d / 'mesh.msh')], read_mesh_only=True))
        exp, ref = expected_of(case)
        allpos = {i: [num_float(v) for v in p] for i, p in case['nodes']}
        if gm['elems'] != exp['elems']:
            bad.append(('read_mesh_only:elements', 'read_mesh_only=True returns other elements than were written'))
        if not (ref <= set(gm['nodes']) <= set(allpos)) or not all(
                len(r) == 3 and all(X.close(a, b, 1e-12) for a, b in zip(r, allpos[i])) for i, r in gm['nodes'].items()):
            bad.append(('read_mesh_only:nodes', f'read_mesh_only=True returns other nodes than were written: {str(gm["nodes"])[:200]}'))
    except Exception as e:  # noqa
        bad.append(('read_mesh_only-raises:' + type(e).__name__, f'read_files(read_mesh_only=True) of the written .msh raised {e!r}'))
    return bad


def tokenize(lines):
    """independent reader of the written file: node coordinates and (code, id, nodes) rows"""
    pos, rows, cur = {}, [], None
    for ln in lines:
        if ln.startswith('!'):
            head = ln[1:].split(',')[0].strip().upper()
            cur = (head, dict(p.strip().split('=') for p in ln.split(',')[1:] if '=' in p))
            continue
        if cur is None:
            continue
        f = [x.strip() for x in ln.split(',')]
        if cur[0] == 'NODE':
            pos[int(f[0])] = tuple(F(x) for x in f[1:4])
        elif cur[0] == 'ELEMENT':
            rows.append((int(cur[1]['TYPE']), int(f[0]), [int(x) for x in f[1:]]))
    return pos, rows


def fistr_signed(code, p):
    """sign convention of FrontISTR / HEC-MW solids: Jacobian at the centroid of the element in FrontISTR's
    own node numbering (341/342: 1-2-3 counter-clockwise seen from 4; 351: 1-2-3 bottom, 4-5-6 top, (2-1)x(3-1)
    pointing to the top; 361/362: 1-2-3-4 bottom, 5-6-7-8 top)"""
    def avg(pairs):
        return tuple(sum(p[b][k] - p[a][k] for a, b in pairs) / len(pairs) for k in range(3))
    if code in (341, 342):
        return G.det3(G.sub(p[1], p[0]), G.sub(p[2], p[0]), G.sub(p[3], p[0]))
    if code == 351:
        return G.det3(avg([(0, 1), (3, 4)]), avg([(0, 2), (3, 5)]), avg([(0, 3), (1, 4), (2, 5)]))
    if code in (361, 362):
        return G.det3(avg([(0, 1), (3, 2), (4, 5), (7, 6)]), avg([(0, 3), (1, 2), (4, 7), (5, 6)]),
                      avg([(0, 4), (1, 5), (2, 6), (3, 7)]))
    return None


def oracle_orientation(case, lines):
    pos, rows = tokenize(lines)
    want = {(CODE[t], e) for t, b in case['blocks'].items() for e, _ in b}
    if {(c, e) for c, e, _ in rows} != want:
        return [('file-codes', f'(code, element id) pairs in the file {sorted((c, e) for c, e, _ in rows)[:6]} expected {sorted(want)[:6]}')]
    bad = []
    positive = set(case['positive'])
    for code, e, conn in rows:
        if e in positive:
            s = fistr_signed(code, [pos[n] for n in conn])
            if s is not None and s <= 0:
                bad.append(('orientation', f'element {e} (code {code}) is positively oriented in femio but has FrontISTR '
                                           f'Jacobian {float(s):.3g} <= 0 in the written file'))
                break
    return bad


# ------------------------------------------------------------------ formatting variants

def blocks_of(lines):
    """[(header index, [data line indices])]"""
    out = []
    for k, ln in enumerate(lines):
        if ln.startswith('!'):
            out.append((k, []))
        elif out:
            out[-1][1].append(k)
    return out


def variant(rnd, lines, kind):
    ls = list(lines)
    if kind == 'G1':
        for _ in range(rnd.randint(1, 4)):
            ls.insert(rnd.randint(1, len(ls)), rnd.choice(['', ' ', '   ', '\t', ' \t ']))
    elif kind == 'G2':
        for _ in range(rnd.randint(1, 4)):
            ls.insert(rnd.randint(1, len(ls)), rnd.choice(['# comment', '#', '  # indented, with 1,2,3', '#!NODE', '## x']))
    elif kind == 'G3':
        def ws():
            return rnd.choice(['', '', ' ', '  ', '\t'])
        for k, ln in enumerate(ls):
            if k < 2:
                continue
            if ln.startswith('!'):
                ls[k] = ','.join([p if j == 0 else ws() + p.lstrip(' ') for j, p in enumerate(ln.split(','))])
            else:
                ls[k] = ','.join(ws() + p + ws() for p in ln.split(','))
    elif kind in ('G4', 'G6', 'G7'):
        want = {'G4': ('!NODE', '!ELEMENT'), 'G6': ('!EGROUP',), 'G7': ('!INITIAL CONDITION',)}[kind]
        cand = [(h, d) for h, d in blocks_of(ls) if ls[h].startswith(want) and len(d) >= 2]
        if not cand:
            return None
        ins = []
        for h, d in rnd.sample(cand, rnd.randint(1, len(cand))):
            for cut in sorted(rnd.sample(d[1:], rnd.randint(1, min(2, len(d) - 1)))):
                ins.append((cut, ls[h]))
        for cut, hdr in sorted(ins, reverse=True):
            ls.insert(cut, hdr)
    elif kind == 'G5':
        cand = [k for k in range(3, len(ls))]
        for k in sorted(rnd.sample(cand, min(len(cand), rnd.randint(1, 2))), reverse=True):
            ls.insert(k, rnd.choice(['!! comment', '!!', '!! NODE 1,2,3']))
    return ls


# ------------------------------------------------------------------ run

def signature(kind, clause):
    return f'{kind}:{clause}'


def count_round5(ctx, case, prefix=''):
    """input distribution of the dimensions added in round 5"""
    secs, mats = secs_of(case)
    if case.get('multi'):
        ctx.count(prefix + f'sections: {len(secs)}, materials: {len(mats)}')
        used = [m for _, _, m in secs]
        if len(set(used)) < len(used):
            ctx.count(prefix + 'sections: two sections share a material (many-to-one)')
        if set(mats) - set(used):
            ctx.count(prefix + 'sections: a material no section uses')
        if [m for m in mats if m in used] != list(dict.fromkeys(used)):
            ctx.count(prefix + 'sections: material table in another order than the sections')
        n_el = sum(len(b) for b in case['blocks'].values())
        if len(mats) == n_el:
            ctx.count(prefix + 'square: n_material == n_element')
        if len(mats) == len(case['nodes']):
            ctx.count(prefix + 'square: n_material == n_node')
    if len(case['nodes']) == sum(len(b) for b in case['blocks'].values()):
        ctx.count(prefix + 'square: n_node == n_element')
    members = [tuple(sorted(g[1])) for g in case['groups']]
    if len(set(members)) < len(members):
        ctx.count(prefix + 'groups: two groups with the same members')
    if case.get('temp_style'):
        ctx.count(prefix + 'temperature field style:' + case['temp_style'])
    if case.get('coord_style'):
        ctx.count(prefix + 'coordinate axis style:' + case['coord_style'])
    for part, kind in (case.get('arrays') or {}).items():
        ctx.count(prefix + f'array kind: {part} {kind}')


def eval_case(ctx, case, n_variants):
    rnd = ctx.rng
    desc = {'kind': case['kind'], 'order': case['order'], 'id_style': case['id_style'], 'decimal': case['decimal'],
            'n_nodes': len(case['nodes']), 'types': list(case['blocks']),
            'n_elems': sum(len(b) for b in case['blocks'].values()), 'groups': case['group_style'],
            'section': ('several' if case.get('multi') else None) if case['sec'] is None else ('SHELL' if case['sec']['shell'] else 'SOLID'),
            'temp': case['temp'] is not None}
    ids = [i for i, _ in case['nodes']]
    nontrivial = ids != list(range(1, len(ids) + 1)) or len(case['blocks']) > 1 or bool(case['groups']) \
        or case['sec'] is not None or case['temp'] is not None or bool(case.get('multi'))
    ctx.case(C.hashlib.sha1(C.json.dumps(case, sort_keys=True).encode()).hexdigest(), sample=desc, nontrivial=nontrivial)
    ctx.count('stream:' + case['kind'])
    ctx.count('order:' + case['order'])
    ctx.count('ids:' + str(case['id_style']))
    ctx.count('numbers:' + ('13-digit decimal' if case['decimal'] else 'arbitrary double'))
    ctx.count('branch:' + ('uniform' if len(case['blocks']) == 1 else 'mixed'))
    if len(case['blocks']) > 1:
        owner = [t for _, t in sorted((e, t) for t, b in case['blocks'].items() for e, _ in b)]
        ctx.count('element ids of the types interleave:' + str(sum(a != b for a, b in zip(owner, owner[1:])) >= len(case['blocks'])).lower())
    if any(len(b) == 1 for b in case['blocks'].values()):
        ctx.count('single-record: a one-element block')
    if any(len(g[1]) == 1 for g in case['groups']):
        ctx.count('single-record: a one-member group')
    gn = [g[0] for g in case['groups']]
    if any(a != b and a in b for a in gn for b in gn):
        ctx.count('group names: one contained in another')
    for t in case['blocks']:
        ctx.count('type:' + t)
    ctx.count('groups:' + case['group_style'] + ('+ALL' if case['has_all'] else ''))
    ctx.count('section:' + str(desc['section']))
    ctx.count('temp:' + str(desc['temp']))
    count_round5(ctx, case)
    ctx.count('unreferenced-nodes:' + str(len(ids) - len({n for b in case['blocks'].values() for _, c in b for n in c})))
    # 1. real write
    try:
        d, lines = real_write(ctx, case)
    except Exception as e:  # noqa
        ctx.fail(signature('roundtrip', 'write-raises:' + type(e).__name__), f'write("fistr") raised {e!r}', {'mesh': case}, repr(e))
        return
    # 2. model text == real text
    if ctx.driver is not None and case['decimal'] and not case.get('multi'):
        mlines = model_write(ctx, case)
        if mlines != lines:
            k = next((k for k, (a, b) in enumerate(zip(mlines or [], lines)) if a != b), min(len(mlines or []), len(lines)))
            ctx.disagree('msh text', {'mesh': case}, {'line': k, 'text': lines[k] if k < len(lines) else None},
                         {'line': k, 'text': (mlines[k] if mlines and k < len(mlines) else None)})
    # 3. real read + property oracle
    try:
        got = real_read(ctx, lines, cnt_from=d)
    except Exception as e:  # noqa
        ctx.fail(signature('roundtrip', 'read-raises:' + type(e).__name__), f'reading the written files raised {e!r}', {'mesh': case}, repr(e))
        return
    for clause, detail in oracle_roundtrip(case, got):
        ctx.fail(signature('roundtrip', clause), 'write -> read changed the mesh: ' + detail, {'mesh': case}, detail)
    if rnd.random() < .08:
        for clause, detail in other_read_paths(d, case, got):
            ctx.fail(signature('roundtrip', clause), detail, {'mesh': case, 'read_paths': True}, detail)
        ctx.count('read also through read_directory and with read_mesh_only=True')
    for clause, detail in oracle_orientation(case, lines):
        ctx.fail(signature('orientation', clause), detail, {'mesh': case}, detail)
    if case['positive']:
        ctx.count('orientation-checked-elements', len(case['positive']))
    # 4. model read == real read (written text)
    if ctx.driver is not None:
        mr = model_read(ctx, lines)
        k = 'model-raises' if mr is None else same_read(got, mr)
        if k:
            ctx.disagree('msh read: ' + k, {'mesh': case}, got.get(k), None if mr is None else mr.get(k))
        if case.get('multi') or (secs_of(case)[0] and len(lines) % 3 == 0):    # one section: a third of the cases
            tie_sections(ctx, case, lines, got, {'mesh': case})
    # 4b. theorem C01_roundtrip instantiated on this case: its hypothesis `WF m` must hold for the generated
    #     (in-quantifier) input and its right-hand side `canon m` must be what the REAL reader returned
    if ctx.driver is not None and case['decimal'] and not case.get('multi'):
        wf, canon = model_canon(ctx, case)
        ctx.count('theorem-hypothesis WF:' + str(wf).lower())
        if not wf:
            ctx.disagree('generated in-quantifier case is outside Femio.C01.WF (hypothesis of C01_roundtrip)',
                         {'mesh': case}, 'in quantifier', 'WF = false')
        else:
            k = same_read(got, canon)
            if k:
                ctx.disagree('msh canon (right-hand side of C01_roundtrip) vs real reader: ' + k, {'mesh': case},
                             got.get(k), canon.get(k))
    # 5. formatting variants
    for kind in rnd.sample(['G1', 'G2', 'G3', 'G4'], n_variants):
        run_variant(ctx, case, d, lines, got, kind)


def run_variant(ctx, case, d, lines, got, kind, finding=True):
    v = variant(ctx.rng, lines, kind)
    if v is None:
        ctx.count(f'variant:{kind}:not-applicable')
        return None
    ctx.count(f'variant:{kind}')
    inp = {'mesh': case, 'variant': kind, 'variant_text': v}
    report = ctx.fail if finding else (lambda sig, what, c, obs=None: ctx.count('observation:' + sig))
    gv = None
    try:
        gv = real_read(ctx, v, cnt_from=d, tag='v')
        k = same_read(got, gv, MODEL_KEYS + ['elemental'])
        if k:
            report(signature('format', kind), f'{kind} variant of the written file reads back differently ({k}): '
                   f'{str(gv.get(k))[:200]} vs {str(got.get(k))[:200]}', inp, {'differs': k})
    except Exception as e:  # noqa
        report(signature('format', kind),
               f'{kind} variant of the written file cannot be read: {e!r}', inp, repr(e))
    if ctx.driver is not None:
        flag = {'G5': 'bang', 'G6': 'merge'}.get(kind)
        if kind == 'G7':
            # Cfg pattern without a model flag: the model reader transcribes the current code (the last block of a TYPE wins,
            # zero padding, `initial-merge=0`); a reader repaired as findings/C01-split-initial-condition.diff proposes
            # returns what the model returns for the UNSPLIT text (`initial-merge=1`)
            tally = ctx.extra.setdefault('cfg_mismatches', {}).setdefault('initial-merge', {'0': 0, '1': 0})
            for val, mv in ((0, model_read(ctx, v)), (1, model_read(ctx, lines))):
                if check_model(ctx, inp, kind, gv, mv, report=False):
                    tally[str(val)] += 1
        elif flag is None:
            check_model(ctx, inp, kind, gv, model_read(ctx, v), report=True)
        else:
            # Cfg pattern: which repair configuration of the model reproduces the tree on this stream?
            tally = ctx.extra.setdefault('cfg_mismatches', {})
            tally.setdefault(flag, {'0': 0, '1': 0})
            for val in (0, 1):
                cfg = (val, 0) if flag == 'bang' else (0, val)
                if check_model(ctx, inp, kind, gv, model_read(ctx, v, cfg), report=False):
                    tally[flag][str(val)] += 1
                    ctx.extra.setdefault('cfg_mismatch_sample', {}).setdefault(f'{flag}={val}', inp if len(str(inp)) < 20000 else None)
    return gv


def check_model(ctx, inp, kind, gv, mv, report):
    """model reader vs real reader on one text; returns a description of the mismatch or None"""
    bad = None
    if gv is None:
        if mv is not None:
            bad = 'real reader raises, model does not'
    else:
        bad = 'model-raises' if mv is None else same_read(gv, mv)
    if bad and report:
        ctx.disagree(f'msh read ({kind}): {bad}', inp, 'raises' if gv is None else gv.get(bad), None if mv is None else mv.get(bad))
    return bad


def large_stream(ctx, n):
    """a few large-but-cheap meshes: more than 65536 nodes, elements, group members and temperature rows in one block each
    (oracle only: write -> read -> id-keyed maps; the text is not sent through the model)"""
    rnd = ctx.rng
    for _ in range(n):
        t = rnd.choice(['line', 'line', 'tri', 'tet'])
        prm = {'seed': rnd.randrange(10 ** 9), 'n_nodes': 65536 + ARITY[t] + rnd.choice([0, 1, 2, 7, 464, 1500]), 'type': t,
               'id_span': rnd.choice([1, 3]), 'order': rnd.choice(['ascending', 'descending', 'shuffled']), 'temp': rnd.random() < .7}
        case = expand({'large': prm})
        inp = {'mesh': {'large': prm}}
        ctx.case(('large', C.json.dumps(prm, sort_keys=True)), sample={'large': prm}, nontrivial=True)
        ctx.count(f'large: {t}, more than 65536 rows per block')
        try:
            d, lines = real_write(ctx, case, tag='L')
            got = real_read(ctx, lines, cnt_from=d, tag='L2')
        except Exception as e:  # noqa
            ctx.fail(signature('large', 'raises:' + type(e).__name__), f'write -> read of a mesh with more than 65536 rows raised {e!r}', inp, repr(e))
            continue
        for clause, detail in oracle_roundtrip(case, got):
            ctx.fail(signature('large', clause), 'write -> read of a mesh with more than 65536 rows changed the mesh: ' + detail[:400], inp, detail[:400])
        shutil.rmtree(ctx.tmp / 'L', ignore_errors=True)
        shutil.rmtree(ctx.tmp / 'L2', ignore_errors=True)


def outside_streams(ctx, n):
    """inputs outside the property's quantifier: observed and counted, never reported through ctx.fail"""
    rnd = ctx.rng
    for _ in range(n):
        case = gen_extras(rnd, gen_comb(rnd, round3=True))
        eids = [e for b in case['blocks'].values() for e, _ in b]
        case['groups'] = [[X.rand_name(rnd), eids], [X.rand_name(rnd, ()), []]]
        case['group_style'] = 'empty-group'
        case['sec'] = None
        try:
            d, lines = real_write(ctx, case, tag='o')
            got = real_read(ctx, lines, cnt_from=d, tag='o2')
            ok = {k: sorted(v) for k, v in got['egroups'].items() if k != 'ALL'} == {nm: sorted(i) for nm, i in case['groups']}
            ctx.count('outside:empty-group:' + ('round-trips' if ok else 'groups-changed'))
        except Exception as e:  # noqa
            ctx.count('outside:empty-group:raises:' + type(e).__name__)
    for _ in range(n):
        case = gen_extras(rnd, gen_comb(rnd, round3=True))
        if len(case['nodes']) < 3:
            continue
        order = [i for i, _ in case['nodes']]
        rnd.shuffle(order)
        case['temp'] = [[i, rand_num(rnd, True)] for i in order]
        try:
            d, lines = real_write(ctx, case, tag='o')
            got = real_read(ctx, lines, cnt_from=d, tag='o2')
            bad = [c for c, _ in oracle_roundtrip(case, got) if c == 'temperature']
            ctx.count('outside:temperature-in-own-order:' + ('binding-lost' if bad else 'round-trips'))
        except Exception as e:  # noqa
            ctx.count('outside:temperature-in-own-order:raises:' + type(e).__name__)


# ------------------------------------------------------------------ stream "same object written twice"

def _bits(a):
    """values of an array by bit pattern / exact text (floats as hex, everything else through str)"""
    return [float(x).hex() if isinstance(x, (float, np.floating)) else str(x) for x in np.ravel(np.asarray(a, dtype=object))]


def _table(attrs, names=None):
    return {str(k): {'ids': [str(i) for i in attrs[k].ids], 'data': _bits(attrs[k].data), 'shape': list(np.shape(attrs[k].data))}
            for k in (attrs.keys() if names is None else names) if k in attrs}


def canon_obj(fd):
    """the user data held by a live FEMData object (what the property calls "the mesh"): node ids and coordinates in storage
    order, per-type element ids and connectivity, element and node groups, sections, materials, nodal and elemental data -
    floats by bit pattern.  (Not part of "the mesh": dict insertion orders; settings, which the writer completes:
    solution_type, write_visual.)"""
    return {
        'node ids': [int(i) for i in fd.nodes.ids],
        'coordinates': [[float(x).hex() for x in r] for r in np.asarray(fd.nodes.data)],
        'elements': {str(t): [[int(i), [int(x) for x in r]] for i, r in zip(a.ids, a.data)] for t, a in fd.elements.items()},
        'element groups': {str(k): [int(x) for x in np.asarray(v).ravel()] for k, v in fd.element_groups.items()},
        'node groups': {str(k): [int(x) for x in np.asarray(v).ravel()] for k, v in fd.node_groups.items()},
        'sections': _table(fd.sections),
        'materials': _table(fd.materials),
        'nodal data': _table(fd.nodal_data),
        'elemental data': _table(fd.elemental_data),
    }


def obj_diff(before, after):
    """[(part, description)] for every part of canon_obj that differs"""
    out = []
    for part in before:
        if after[part] != before[part]:
            what = ''
            if isinstance(before[part], dict):
                key = next(x for x in sorted(set(before[part]) | set(after[part])) if before[part].get(x) != after[part].get(x))
                b, a = before[part].get(key), after[part].get(key)
                row = None
                if isinstance(b, list) and isinstance(a, list):
                    row = next((j for j, (p, q) in enumerate(zip(b, a)) if p != q), None)
                what = f' ({key}' + (f', row {row}: {b[row]} -> {a[row]})' if row is not None else f': {str(b)[:120]} -> {str(a)[:120]})')
            out.append((part, f'changed the {part} of the FEMData object it was called on{what}'))
    return out


def twice_check(ctx, case, n_writes=2, same_dir=False, pre_existing=None, texts=None):
    """ONE FEMData object written n_writes times (another directory each time, or the same one with overwrite=True; with
    `pre_existing` the directory holds an earlier export of ANOTHER mesh and files of an earlier analysis before the
    first write, which then also runs with overwrite=True); every written file set is read back and must be the mesh of
    the case (round trip + FrontISTR orientation), and the object's user data must be what it was before the write (a
    writer that alters the mesh it is handed writes a different mesh the next time).  -> [(clause, detail)]"""
    from femio import FEMData
    bad = []
    fd = build_fem(case)
    before = canon_obj(fd)
    for k in range(1, n_writes + 1):
        d = ctx.tmp / ('tw' if same_dir else f'tw{k}')
        if d.exists() and not (same_dir and k > 1):
            shutil.rmtree(d)
        d.mkdir(parents=True, exist_ok=True)
        pre = pre_existing is not None and (k == 1 or not same_dir)
        if pre:
            prepopulate(d, pre_existing)
        try:
            X.quiet(fd.write, 'fistr', d / 'mesh', overwrite=pre or (same_dir and k > 1))
            lines = (d / 'mesh.msh').read_text().split('\n')[:-1]
            if texts is not None:
                texts.append(lines)
        except Exception as e:  # noqa
            bad.append((f'write{k}:write-raises:{type(e).__name__}', f'write number {k} of the same object raised {e!r}'))
            break
        try:
            fdr = X.quiet(FEMData.read_files, 'fistr', [str(d / 'mesh.msh'), str(d / 'mesh.cnt')])
            got = canon_real(fdr)
        except Exception as e:  # noqa
            bad.append((f'write{k}:read-raises:{type(e).__name__}', f'reading the files of write number {k} raised {e!r}'))
            break
        for clause, detail in oracle_roundtrip(case, got) + oracle_orientation(case, lines):
            bad.append((f'write{k}:{clause}', f'write number {k} of the same object -> read: ' + detail))
        after = canon_obj(fd)
        for part, what in obj_diff(before, after):
            bad.append((f'object-altered-by-write:{part}', f'write number {k} ' + what))
        before = after      # every write is compared with the state it started from; later writes show the consequence
    return bad


def twice_stream(ctx, n):
    """property oracle on a history of writes of one object (inside the quantifier: "writing any mesh ... and reading
    the written files back" holds for every write, not only for the first one of a fresh object)"""
    rnd = ctx.rng
    for k in range(n):
        must = 'prism' if k % 2 == 0 else None     # the only type whose rows the writer permutes
        for _ in range(60):
            case = gen_case(rnd)
            if must is None or must in case['blocks']:
                break
        n_writes, same_dir = rnd.choice([2, 2, 3]), rnd.random() < .3
        other = gen_case(rnd) if rnd.random() < .4 else None      # an earlier export of another mesh is in the way
        ctx.case(('twice', n_writes, same_dir, C.json.dumps([case, other], sort_keys=True)), nontrivial=True)
        ctx.count('same-object-twice: cases')
        ctx.count(f'same-object-twice: {n_writes} writes, ' + ('same directory (overwrite=True)' if same_dir else 'another directory each')
                  + (', over an existing export of another mesh (overwrite=True)' if other else ''))
        ctx.count('same-object-twice: stream ' + case['kind'])
        for t in case['blocks']:
            ctx.count('same-object-twice: type ' + t)
        texts = []
        inp = {'mesh': case, 'twice': {'n_writes': n_writes, 'same_dir': same_dir, 'pre_existing': other}}
        for clause, detail in twice_check(ctx, case, n_writes, same_dir, other, texts):
            ctx.fail(signature('same-object', clause), detail, inp, detail)
        if any(t != texts[0] for t in texts[1:]):
            j = next(j for j, t in enumerate(texts) if t != texts[0])
            ctx.disagree(f'same-object: write number {j + 1} of the unmodified object writes another text than write 1', inp,
                         first_diff(texts[0], texts[j]), None)


# ------------------------------------------------------------------ stream "history": the object was modified through public
# means between its construction and the write (LESSONS class A / C / D; DESIGN section 8, round 3)

def num_of_float(v):
    """['s', neg, mant, exp] when v is the double nearest to a decimal with at most 13 significant digits (the model's
    input alphabet), else ['h', hex]"""
    v = float(v)
    if v != v or v in (float('inf'), float('-inf')):
        return ['h', v.hex()]
    if v == 0:
        return ['s', str(v).startswith('-'), 0, 0]
    sign, digits, exp = decimal.Decimal(repr(abs(v))).as_tuple()
    digits = list(digits)
    while len(digits) > 1 and digits[-1] == 0:
        digits.pop()
        exp += 1
    if len(digits) <= 13:
        cand = ['s', v < 0, int(''.join(map(str, digits))) * 10 ** (13 - len(digits)), exp + len(digits) - 1]
        if num_float(cand) == v:
            return cand
    return ['h', v.hex()]


def mat_of_float(v):
    n = num_of_float(v)
    if n[0] == 's' and not n[1] and n[2] % 10 ** 4 == 0 and n[2] != 0:
        cand = [n[2] // 10 ** 4, n[3]]
        if mat_float(cand) == float(v):
            return cand
    return ['h', float(v).hex()]


def snapshot_case(fd, base):
    """the mesh a live FEMData object holds NOW, read through its public attributes (ids / data of nodes, of every element
    block in items() order, element_groups, sections, materials, nodal_data) in the vocabulary of the generator, so that
    everything that can be done with a generated case (oracle, model ties, an independently built fresh object) can be
    done with the current state of an object that has a history"""
    nodes = [[int(i), [num_of_float(x) for x in r]] for i, r in zip(fd.nodes.ids, np.asarray(fd.nodes.data, dtype=float))]
    blocks = {str(t): [[int(e), [int(x) for x in r]] for e, r in zip(a.ids, np.asarray(a.data))] for t, a in fd.elements.items()}
    groups = [[str(k), [int(x) for x in np.asarray(v).ravel()]] for k, v in fd.element_groups.items() if k != 'ALL']
    sec = multi = None
    n_sec = len(fd.sections['TYPE'].ids) if 'TYPE' in fd.sections else 0
    n_mat = len(fd.materials['Young_modulus'].ids) if 'Young_modulus' in fd.materials else 0
    if n_sec == 1 and n_mat == 1 and not base.get('multi'):
        ty, eg = fd.sections['TYPE'], fd.sections['EGRP']
        mat = str(ty.ids[0])
        sec = {'shell': str(np.ravel(ty.data)[0]) == 'SHELL', 'egrp': str(np.ravel(eg.data)[0]), 'mat': mat,
               'young': mat_of_float(np.ravel(fd.materials['Young_modulus'].data)[0]),
               'poisson': mat_of_float(np.ravel(fd.materials['Poisson_ratio'].data)[0]),
               'mat_ids': sorted({str(x) for p in ('Young_modulus', 'Poisson_ratio') for x in fd.materials[p].ids})}
    elif n_sec or n_mat:
        ty, eg = fd.sections['TYPE'], fd.sections['EGRP']
        ym, pr = fd.materials['Young_modulus'], fd.materials['Poisson_ratio']
        multi = {'secs': [[str(t) == 'SHELL', str(g), str(m)] for m, t, g in zip(ty.ids, np.ravel(ty.data), np.ravel(eg.data))],
                 'mats': [[str(m), mat_of_float(y), mat_of_float(q)] for m, y, q in zip(ym.ids, np.ravel(ym.data), np.ravel(pr.data))],
                 'mat_ids_aligned': [str(x) for x in ym.ids] == [str(x) for x in pr.ids]}
    temp = None
    if 'INITIAL_TEMPERATURE' in fd.nodal_data:
        a = fd.nodal_data['INITIAL_TEMPERATURE']
        temp = [[int(i), num_of_float(v)] for i, v in zip(a.ids, np.ravel(np.asarray(a.data, dtype=float)))]
    dec = all(v[0] == 's' for _, p in nodes for v in p) and all(v[0] == 's' for _, v in temp or []) \
        and (sec is None or (sec['young'][0] != 'h' and sec['poisson'][0] != 'h'))
    base_pos = {i: p for i, p in base['nodes']}
    base_el = {e: c for b in base['blocks'].values() for e, c in b}
    now_pos = {i: p for i, p in nodes}
    positive = [e for b in blocks.values() for e, c in b if e in set(base['positive']) and base_el.get(e) == c
                and all(n in now_pos and num_float(now_pos[n][k]) == num_float(base_pos[n][k]) for n in c for k in range(3))]
    return {'kind': base['kind'], 'order': 'after-history', 'id_style': base['id_style'], 'decimal': dec, 'nodes': nodes,
            'blocks': blocks, 'positive': positive, 'group_style': 'after-history', 'groups': groups,
            'has_all': 'ALL' in fd.element_groups, 'sec': sec, 'multi': multi, 'temp': temp}


def in_quantifier(snap):
    """why the state reached by a history is outside the property's quantifier / the stated ASSUMPTIONS (None = inside)"""
    nid = [i for i, _ in snap['nodes']]
    eid = [e for b in snap['blocks'].values() for e, _ in b]
    if len(set(nid)) != len(nid) or len(set(eid)) != len(eid) or min(nid + eid) < 1:
        return 'ids not distinct positive'
    if not all(len(c) == ARITY[t] and set(c) <= set(nid) for t, b in snap['blocks'].items() for _, c in b):
        return 'connectivity'
    if not all(num_float(v) == num_float(v) and abs(num_float(v)) != float('inf') for _, p in snap['nodes'] for v in p):
        return 'non-finite coordinate'
    if snap['temp'] is not None and [i for i, _ in snap['temp']] != nid:
        return 'temperature not a full field in node order'
    if any(len(g) == 0 or not set(g) <= set(eid) for _, g in snap['groups']):
        return 'empty group / unknown member'
    s = snap['sec']
    if s is not None and (s['egrp'] != 'ALL' and s['egrp'] not in [g for g, _ in snap['groups']] or s['mat_ids'] != [s['mat']]):
        return 'section'
    m = snap.get('multi')
    if m:
        members = dict(snap['groups'])
        members['ALL'] = eid
        mnames = [x[0] for x in m['mats']]
        if not m['mat_ids_aligned'] or len(set(mnames)) != len(mnames) or not all(g in members and mt in mnames for _, g, mt in m['secs']):
            return 'section'
        covered = [e for _, g, _ in m['secs'] for e in members[g]]
        if len(set(covered)) != len(covered):
            return 'sections overlap (an element with two materials)'
    return None


def gen_op(rnd, cur):
    """one public modification of a live object whose current state is `cur` -> JSON-able op (row / column positions,
    ids and values spelled out, so that a replay re-executes exactly the same statements)"""
    dec = rnd.random() < .8
    nid = [i for i, _ in cur['nodes']]
    n = len(nid)
    types = list(cur['blocks'])
    gnames = [g for g, _ in cur['groups']]
    eid = [e for b in cur['blocks'].values() for e, _ in b]
    # first the part of the mesh (equal weights), then the way it is modified (in place through .data twice as likely)
    aspects = {'nodes': ['nodes.data[r,c]=', 'nodes.data[r,c]=', 'nodes.data[r]+=', 'nodes.data=', 'nodes.update_data',
                         'nodes.loc[i].data=', 'nodes.iloc[k].data='],
               'elements': ['elem.data[r,c]=', 'elem.data[r,c]=', 'elem.data=', 'elem.loc[e].data='],
               'groups': ['group=', 'group.add'] + (['group[j]=', 'group[j]=', 'group.del'] if gnames else []),
               'temperature': ['temp.add']}
    aligned = nid == sorted(nid)        # update() sorts by id: the temperature must stay a field in node order (ASSUMPTIONS)
    if cur['temp'] is None or aligned:
        aspects['nodes'].append('nodes.update')
    if cur['temp'] is not None:
        aspects['temperature'] = ['temp.data[r]=', 'temp.data[r]=', 'temp.overwrite', 'temp.loc[i].data='] + (['temp.update_data'] if aligned else [])
    if cur['sec'] is not None:
        aspects['material / section'] = ['mat.data=', 'mat.data=', 'mat.overwrite', 'mat.update_data', 'sec.egrp=']
    if cur.get('multi'):
        aspects['material / section'] = ['mat.data[r]=', 'mat.data[r]=', 'mat.overwrite[r]', 'mat.update_data[r]', 'sec.permute', 'sec.mat=']
    if len(types) == 1:
        aspects['elements'] += ['elements.data=', 'elements.update']
    k = rnd.choice(aspects[rnd.choice(sorted(aspects))])

    def row():
        return [rand_num(rnd, dec) for _ in range(3)]

    def conn(t):
        return rnd.sample(nid, ARITY[t])
    if k == 'nodes.data[r,c]=':
        return [k, rnd.randrange(n), rnd.randrange(3), rand_num(rnd, dec)]
    if k == 'nodes.data[r]+=':
        return [k, rnd.randrange(n), [['s'] + list(X.rand_sci(rnd, 12, rnd.choice(['unit', 'int', 'short']))) for _ in range(3)]]
    if k in ('nodes.data=', 'nodes.update_data'):
        return [k, [[r, row()] for r in sorted(rnd.sample(range(n), rnd.randint(1, min(3, n))))]]
    if k == 'nodes.loc[i].data=':
        return [k, rnd.choice(nid), row()]
    if k == 'nodes.iloc[k].data=':
        return [k, rnd.randrange(n), row()]
    if k == 'nodes.update':
        sel = rnd.sample(nid, rnd.randint(1, min(3, n)))
        return [k, sel, [row() for _ in sel]]
    if k in ('elem.data[r,c]=', 'elem.data=', 'elem.loc[e].data=', 'elements.data=', 'elements.update'):
        t = rnd.choice(types)
        b = cur['blocks'][t]
        r = rnd.randrange(len(b))
        if k == 'elem.data[r,c]=':
            c = rnd.randrange(ARITY[t])
            free = [i for i in nid if i not in b[r][1]] or [b[r][1][c]]
            return [k, t, r, c, rnd.choice(free)]
        if k in ('elem.data=', 'elements.data='):
            return [k, t, [[r2, conn(t)] for r2 in sorted(rnd.sample(range(len(b)), rnd.randint(1, min(2, len(b)))))]]
        if k == 'elem.loc[e].data=':
            return [k, t, b[r][0], conn(t)]
        sel = rnd.sample([e for e, _ in b], rnd.randint(1, min(2, len(b))))
        return [k, t, sel, [conn(t) for _ in sel]]
    secg = {x[1] for x in (cur.get('multi') or {'secs': []})['secs']}       # groups of several sections stay disjoint
    covered = {e for g, mem in cur['groups'] if g in secg for e in mem}
    if k == 'group[j]=':
        g, members = rnd.choice(cur['groups'])
        free = [e for e in eid if e not in members and not (g in secg and e in covered)]
        j = rnd.randrange(len(members))
        return [k, g, j, rnd.choice(free) if free else members[j]]
    if k in ('group=', 'group.add'):
        if k == 'group=' and gnames:
            g = rnd.choice(gnames)
        else:
            inside = [x for x in (gn[:-1] for gn in gnames) if x and x.upper() != 'ALL' and x not in gnames]
            more = [gn + t for gn in gnames for t in ('0', '1', '_') if gn + t not in gnames]
            g = rnd.choice(inside + more) if (inside + more) and rnd.random() < .6 else X.rand_name(rnd, gnames)
        if g in secg:
            own = [e for e in eid if e in dict(cur['groups'])[g] or e not in covered]
            return ['group=', g, rnd.sample(own, rnd.randint(1, len(own)))]
        return ['group=', g, rnd.sample(eid, rnd.randint(1, len(eid)))]
    if k == 'group.del':
        free = [g for g in gnames if (cur['sec'] is None or g != cur['sec']['egrp']) and g not in secg]
        return [k, rnd.choice(free)] if free else ['group=', gnames[0], rnd.sample(eid, rnd.randint(1, len(eid)))]
    if k == 'temp.add':
        return [k, [rand_num(rnd, dec) for _ in nid]]
    if k == 'temp.data[r]=':
        return [k, rnd.randrange(n), rand_num(rnd, dec)]
    if k == 'temp.overwrite':
        return [k, [[r, rand_num(rnd, dec)] for r in sorted(rnd.sample(range(n), rnd.randint(1, min(3, n))))]]
    if k == 'temp.loc[i].data=':
        return [k, rnd.choice(nid), rand_num(rnd, dec)]
    if k == 'temp.update_data':
        sel = rnd.sample(nid, rnd.randint(1, min(3, n)))
        return [k, sel, [rand_num(rnd, dec) for _ in sel]]
    if k in ('mat.data=', 'mat.overwrite', 'mat.update_data'):
        return [k, rnd.choice(['Young_modulus', 'Poisson_ratio']), list(X.rand_sci(rnd, 8, 'unit', allow_zero=False)[1:])]
    if k == 'sec.egrp=':
        return [k, rnd.choice(gnames + ['ALL'])]
    if k in ('mat.data[r]=', 'mat.overwrite[r]', 'mat.update_data[r]'):
        return [k, rnd.choice(['Young_modulus', 'Poisson_ratio']), rnd.randrange(len(cur['multi']['mats'])),
                list(X.rand_sci(rnd, 8, 'unit', allow_zero=False)[1:])]
    if k == 'sec.permute':          # the sections exchange their groups (stays a disjoint cover)
        perm = list(range(len(cur['multi']['secs'])))
        rnd.shuffle(perm)
        return [k, [cur['multi']['secs'][j][1] for j in perm]]
    if k == 'sec.mat=':             # the sections are assigned other materials: a new ids column of the section table
        mn = [m[0] for m in cur['multi']['mats']]
        return [k, [rnd.choice(mn) for _ in cur['multi']['secs']]]
    raise AssertionError(k)


def apply_op(fd, op):
    """execute one recorded modification through femio's public interface"""
    from femio import FEMAttribute
    k = op[0]

    def replaced(cur, rows, conv):
        a = np.array(cur)
        for r, v in rows:
            a[r] = conv(v)
        return a

    def coords(p):
        return [num_float(v) for v in p]
    if k == 'nodes.data[r,c]=':
        fd.nodes.data[op[1], op[2]] = num_float(op[3])
    elif k == 'nodes.data[r]+=':
        fd.nodes.data[op[1]] += np.array(coords(op[2]))
    elif k == 'nodes.data=':
        fd.nodes.data = replaced(fd.nodes.data, op[1], coords)
    elif k == 'nodes.update_data':
        fd.nodes.update_data(replaced(fd.nodes.data, op[1], coords))
    elif k == 'nodes.loc[i].data=':
        fd.nodes.loc[[op[1]]].data = np.array([coords(op[2])])
    elif k == 'nodes.iloc[k].data=':
        fd.nodes.iloc[[op[1]]].data = np.array([coords(op[2])])
    elif k == 'nodes.update':
        fd.nodes.update(np.array(op[1], dtype=np.int64), np.array([coords(p) for p in op[2]]), allow_overwrite=True)
    elif k == 'elem.data[r,c]=':
        fd.elements[op[1]].data[op[2], op[3]] = op[4]
    elif k == 'elem.data=':
        fd.elements[op[1]].data = replaced(fd.elements[op[1]].data, op[2], list)
    elif k == 'elements.data=':
        fd.elements.data = replaced(fd.elements[op[1]].data, op[2], list)
    elif k == 'elem.loc[e].data=':
        fd.elements[op[1]].loc[[op[2]]].data = np.array([op[3]], dtype=np.int64)
    elif k == 'elements.update':
        fd.elements.update(np.array(op[2], dtype=np.int64), np.array(op[3], dtype=np.int64), allow_overwrite=True)
    elif k == 'group[j]=':
        fd.element_groups[op[1]][op[2]] = op[3]
    elif k == 'group=':
        fd.element_groups[op[1]] = np.array(op[2], dtype=np.int64)
    elif k == 'group.del':
        del fd.element_groups[op[1]]
    elif k == 'temp.add':
        fd.nodal_data.update_data(np.array(fd.nodes.ids), {'INITIAL_TEMPERATURE': np.array([[num_float(v)] for v in op[1]])})
    elif k == 'temp.data[r]=':
        fd.nodal_data['INITIAL_TEMPERATURE'].data[op[1], 0] = num_float(op[2])
    elif k == 'temp.overwrite':
        fd.nodal_data.overwrite('INITIAL_TEMPERATURE', replaced(fd.nodal_data['INITIAL_TEMPERATURE'].data, op[1], lambda v: [num_float(v)]))
    elif k == 'temp.loc[i].data=':
        fd.nodal_data['INITIAL_TEMPERATURE'].loc[[op[1]]].data = np.array([[num_float(op[2])]])
    elif k == 'temp.update_data':
        fd.nodal_data.update_data(np.array(op[1], dtype=np.int64), {'INITIAL_TEMPERATURE': np.array([[num_float(v)] for v in op[2]])},
                                  allow_overwrite=True)
    elif k == 'mat.data=':
        fd.materials[op[1]].data[0, 0] = mat_float(op[2])
    elif k == 'mat.overwrite':
        fd.materials.overwrite(op[1], np.array([[mat_float(op[2])]]))
    elif k == 'mat.update_data':
        fd.materials.update_data([str(fd.materials[op[1]].ids[0])], {op[1]: np.array([[mat_float(op[2])]])}, allow_overwrite=True)
    elif k == 'sec.egrp=':
        a = fd.sections['EGRP']
        a.data = np.reshape(np.array([op[1]], dtype=object), np.shape(a.data))
    elif k == 'mat.data[r]=':
        fd.materials[op[1]].data[op[2], 0] = mat_float(op[3])
    elif k == 'mat.overwrite[r]':
        a = np.array(fd.materials[op[1]].data, dtype=float)
        a[op[2], 0] = mat_float(op[3])
        fd.materials.overwrite(op[1], a)
    elif k == 'mat.update_data[r]':
        fd.materials.update_data([str(fd.materials[op[1]].ids[op[2]])], {op[1]: np.array([[mat_float(op[3])]])}, allow_overwrite=True)
    elif k == 'sec.permute':
        a = fd.sections['EGRP']
        a.data = np.reshape(np.array(op[1], dtype=object), np.shape(a.data))
    elif k == 'sec.mat=':
        from femio import FEMAttributes
        ty, eg = np.ravel(fd.sections['TYPE'].data), np.ravel(fd.sections['EGRP'].data)
        fd.sections = FEMAttributes(names=['TYPE', 'EGRP'], ids=list(op[1]), list_arrays=[np.array(ty), np.array(eg)])
    else:
        raise AssertionError(k)


STRAY = {'mesh.log': 'FrontISTR run log of an earlier analysis\n', 'notes.txt': '!NODE\n1,0,0,0\n!END\n',
         'mesh.msh.bak': '!HEADER\nold\n!NODE\n1,0.0,0.0,0.0\n!END\n', 'other.msh': '!HEADER\n!NODE\n7,1.0,1.0,1.0\n!END\n'}


def fresh_dir(ctx, tag):
    d = ctx.tmp / tag
    if d.exists():
        shutil.rmtree(d)
    d.mkdir(parents=True)
    return d


def prepopulate(d, other):
    """an earlier export of ANOTHER mesh under the same name (as a re-run of a user's script leaves it), plus files an
    analysis directory typically holds"""
    X.quiet(build_fem(other).write, 'fistr', d / 'mesh')
    for name, text in STRAY.items():
        (d / name).write_text(text)


def history_check(ctx, case0, hist, rnd=None, n_ops=0):
    """[history of public modifications on ONE live object] -> write -> read.  Expectation: the object's state as its public
    attributes show it JUST BEFORE the write (snapshot_case), cross-checked against an independently built fresh object
    with that content and against the model.  When hist['ops'] is None, n_ops operations are drawn with rnd against the
    live object and recorded in hist.  -> [('fail' | 'disagree' | 'note', clause, detail)]"""
    from femio import FEMData
    out = []
    d0 = fresh_dir(ctx, 'h0')
    origin = hist['origin']
    draw = hist.get('ops') is None
    if draw:
        hist['ops'] = []
    try:
        if origin == 'read':        # read -> modify -> write -> read
            X.quiet(build_fem(case0).write, 'fistr', d0 / 'mesh')
            fd = X.quiet(FEMData.read_files, 'fistr', [str(d0 / 'mesh.msh'), str(d0 / 'mesh.cnt')])
        else:
            fd = build_fem(case0)
            if origin == 'written-once':    # write -> modify -> write
                X.quiet(fd.write, 'fistr', d0 / 'mesh')
    except Exception as e:  # noqa  (the main stream reports it)
        return [('note', 'setup-raises', repr(e))]
    for j in range(n_ops if draw else len(hist['ops'])):
        if draw:
            op = gen_op(rnd, snapshot_case(fd, case0))
            hist['ops'].append(op)
        else:
            op = hist['ops'][j]
        try:
            X.quiet(apply_op, fd, op)
        except Exception as e:  # noqa  a modifier that raises is not this property's matter; the state reached is what counts
            out.append(('note', 'modifier-raises:' + op[0], repr(e)))
    snap = snapshot_case(fd, case0)
    why = in_quantifier(snap)
    if why:
        return out + [('note', 'outside:' + why, '')]
    hist['state_before_write'] = snap
    if hist['target'] == 'same-dir' and origin != 'constructed':
        d1, overwrite = d0, True       # e.g. read -> modify -> write back over the files it came from
    elif hist['target'] == 'other-mesh':
        d1, overwrite = fresh_dir(ctx, 'h1'), True
        prepopulate(d1, hist['other'])
    else:
        d1, overwrite = fresh_dir(ctx, 'h1'), False
    before = canon_obj(fd)
    if overwrite:
        # tie of the guard in Hist.written: without overwrite=True the writer refuses the existing file and leaves it alone
        # (the statement itself is property C07; here it is only what the history model assumes)
        held = (d1 / 'mesh.msh').read_bytes()
        try:
            X.quiet(fd.write, 'fistr', d1 / 'mesh')
            out.append(('disagree', 'write without overwrite=True onto an existing .msh does not raise (Hist.written)', None))
        except Exception:  # noqa
            if (d1 / 'mesh.msh').read_bytes() != held:
                out.append(('disagree', 'refused write without overwrite=True changed the existing .msh (Hist.written)', None))
    try:
        X.quiet(fd.write, 'fistr', d1 / 'mesh', overwrite=overwrite)
        lines = (d1 / 'mesh.msh').read_text().split('\n')[:-1]
    except Exception as e:  # noqa
        return out + [('fail', 'write-raises:' + type(e).__name__, f'write("fistr") of the modified object raised {e!r}')]
    out += [('fail', 'object-altered-by-write:' + part, what) for part, what in obj_diff(before, canon_obj(fd))]
    try:
        got = canon_real(X.quiet(FEMData.read_files, 'fistr', [str(d1 / 'mesh.msh'), str(d1 / 'mesh.cnt')]))
    except Exception as e:  # noqa
        return out + [('fail', 'read-raises:' + type(e).__name__, f'reading the files written from the modified object raised {e!r}')]
    for clause, detail in oracle_roundtrip(snap, got) + oracle_orientation(snap, lines):
        out.append(('fail', clause, 'write of an object modified through its public attributes -> read: ' + detail))
    # the written text is a function of the object's current public state: (a) a second write of the unmodified object,
    # (b) an independently constructed fresh object with the same content, (c) the model
    try:
        if len(lines) % 3 == 0:         # (a) in a third of the cases: the stream same-object-twice does this on every case
            d2 = fresh_dir(ctx, 'h2')
            X.quiet(fd.write, 'fistr', d2 / 'mesh')
            if (d2 / 'mesh.msh').read_text().split('\n')[:-1] != lines:
                out.append(('disagree', 'second write of the unmodified object writes another text', first_diff(lines, (d2 / 'mesh.msh').read_text().split('\n')[:-1])))
        _, flines = real_write(ctx, snap, tag='hf')
        if flines != lines:
            out.append(('disagree', 'a fresh object with the same public content writes another text', first_diff(lines, flines)))
    except Exception as e:  # noqa
        out.append(('disagree', 'second / fresh write raises', repr(e)))
    if ctx.driver is not None and snap['decimal'] and not snap.get('multi'):
        mlines = model_write(ctx, snap)
        if mlines != lines:
            out.append(('disagree', 'msh text (model on the state before the write)', first_diff(lines, mlines or [])))
        wf, canon = model_canon(ctx, snap)
        k = 'WF' if not wf else same_read(got, canon)
        if k:
            out.append(('disagree', 'msh canon (right-hand side of C01_roundtrip on the state before the write): ' + k,
                        str(got.get(k))[:200] + ' vs ' + str(canon.get(k))[:200]))
    return out


def first_diff(a, b):
    k = next((k for k, (x, y) in enumerate(zip(a, b)) if x != y), min(len(a), len(b)))
    return {'line': k, 'real': a[k] if k < len(a) else None, 'other': b[k] if k < len(b) else None}


def history_stream(ctx, n):
    rnd = ctx.rng
    for k in range(n):
        must = 'prism' if k % 4 == 0 else None
        for _ in range(60):
            case = gen_case(rnd)
            if must is None or must in case['blocks']:
                break
        origin = rnd.choice(['constructed', 'constructed', 'written-once', 'read'])
        target = rnd.choice(['fresh', 'same-dir', 'other-mesh'])
        if origin == 'constructed' and target == 'same-dir':
            target = 'other-mesh'
        hist = {'origin': origin, 'target': target, 'ops': None, 'other': gen_case(rnd) if target == 'other-mesh' else None}
        res = history_check(ctx, case, hist, rnd, rnd.choice([1, 1, 2, 3, 4]))
        inp = {'mesh': case, 'history': hist}
        ctx.case(('history', C.json.dumps(inp, sort_keys=True, default=str)), nontrivial=True)
        ctx.count('history: cases')
        ctx.count(f'history: object {origin}, written to ' + {'fresh': 'a fresh directory', 'same-dir': 'the directory it was written to / read from (overwrite=True)',
                                                               'other-mesh': 'a directory holding another mesh (overwrite=True)'}[target])
        for op in hist['ops']:
            ctx.count('history: op ' + op[0])
        for kind, clause, detail in res:
            if kind == 'fail':
                ctx.fail(signature('history', clause), detail, inp, detail)
            elif kind == 'disagree':
                ctx.disagree('history: ' + clause, inp, detail, None)
            else:
                ctx.count('history: ' + clause)


def run(ctx):
    import time
    t0 = time.time()

    def lap(label):
        nonlocal t0
        ctx.extra.setdefault('stream_seconds', {})[label] = round(time.time() - t0, 1)
        t0 = time.time()
    n = ctx.n(300, 3000)
    if ctx.driver is None:
        n *= 2
    # corpus first
    for name, obj in C.corpus_cases(PROP):
        r = replay(ctx, obj)
        if r.get('fails'):
            ctx.fail(obj.get('signature', 'corpus:' + name), 'corpus case fails: ' + name, obj.get('input'), r)
    for _ in range(n):
        eval_case(ctx, gen_case(ctx.rng), 2 if ctx.quick else 4)
    lap('main')
    # G5 / G6: comment lines starting with `!!`, an !EGROUP block split in two
    m = ctx.n(25, 200)
    done = {'G5': 0, 'G6': 0, 'G7': 0}
    tries = 0
    want = {'G5': m, 'G6': m, 'G7': ctx.n(12, 200)}
    while any(done[x] < want[x] for x in done) and tries < 20 * m:
        tries += 1
        case = gen_case(ctx.rng)
        kind = min((x for x in done if done[x] < want[x]), key=lambda x: (done[x], x))
        if kind == 'G7' and (case['temp'] is None or len(case['nodes']) < 2):
            continue
        if kind == 'G6' and not any(len(g[1]) >= 2 for g in case['groups']):
            continue
        if kind == 'G6' and case['group_style'] == 'singletons':
            continue
        try:
            d, lines = real_write(ctx, case)
            got = real_read(ctx, lines, cnt_from=d)
        except Exception:  # noqa  (reported by the main stream)
            continue
        ctx.case(('fmt', kind, C.json.dumps(case, sort_keys=True)), nontrivial=True)
        run_variant(ctx, case, d, lines, got, kind, finding=FINDING_STREAMS[kind])
        done[kind] += 1
    lap('G5/G6')
    outside_streams(ctx, ctx.n(6, 40))
    lap('outside')
    large_stream(ctx, ctx.n(1, 4))
    lap('large')
    # the same FEMData object written two or three times (half of the cases with prisms)
    twice_stream(ctx, ctx.n(50, 400))
    lap('same-object-twice')
    # one live object modified through its public attributes (in place through .data, setters, loc / iloc write-through,
    # update / overwrite), possibly read from files or written before, then written and read back
    history_stream(ctx, ctx.n(70, 800))
    lap('history')
    # which ReadCfg does the working tree implement?  (upstream: bang=0, merge=0; both repairs: 1, 1)
    if ctx.driver is not None:
        det = {}
        for flag, t in ctx.extra.get('cfg_mismatches', {}).items():
            ok = [int(v) for v, n_bad in t.items() if n_bad == 0]
            det[flag] = ok
            if len(ok) == 0:
                ctx.disagree(f'no ReadCfg value of `{flag}` reproduces the reader on the G5/G6/G7 stream', {'tally': t}, None, None)
        ctx.extra['cfg_detected'] = det


def replay(ctx, obj):
    inp = obj['input']
    case = expand(inp['mesh'])
    res = {'case': {k: case[k] for k in ('kind', 'order', 'id_style')}}
    if 'large' in case:
        d, lines = real_write(ctx, case, tag='L')
        bad = oracle_roundtrip(case, real_read(ctx, lines, cnt_from=d, tag='L2'))
        return {**res, 'roundtrip': [[c, x[:300]] for c, x in bad], 'fails': bool(bad)}
    if 'twice' in inp:      # stream "same object written twice"
        bad = twice_check(ctx, case, inp['twice']['n_writes'], inp['twice']['same_dir'], inp['twice'].get('pre_existing'))
        return {**res, 'same_object_written_repeatedly': [list(b) for b in bad], 'fails': bool(bad)}
    if 'history' in inp:    # stream "object modified through public means before the write"
        hist = {k: v for k, v in inp['history'].items() if k != 'state_before_write'}
        out = history_check(ctx, case, hist)
        return {**res, 'history': {'origin': hist['origin'], 'ops': hist['ops'], 'target': hist['target']},
                'observed': [list(o) for o in out if o[0] != 'note'][:10], 'fails': any(o[0] == 'fail' for o in out)}
    try:
        d, lines = real_write(ctx, case)
        got = real_read(ctx, lines, cnt_from=d)
    except Exception as e:  # noqa
        return {**res, 'fails': True, 'raised': repr(e)}
    bad = oracle_roundtrip(case, got) + oracle_orientation(case, lines)
    if inp.get('read_paths'):
        bad += other_read_paths(d, case, got)
    res['roundtrip'] = bad
    fails = bool(bad)
    if 'variant_text' in inp:
        try:
            gv = real_read(ctx, inp['variant_text'], cnt_from=d, tag='v')
            k = same_read(got, gv, MODEL_KEYS + ['elemental'])
            res['variant'] = {'kind': inp['variant'], 'differs_in': k,
                              'read_variant': str(gv.get(k))[:300] if k else None, 'read_written': str(got.get(k))[:300] if k else None}
            fails = fails or bool(k)
        except Exception as e:  # noqa
            res['variant'] = {'kind': inp['variant'], 'raised': repr(e)}
            fails = True
        if ctx.driver is not None:
            mv = model_read(ctx, inp['variant_text'])
            res['model_read_variant'] = 'raises / outside the model' if mv is None else {k: mv[k] for k in ('node_order', 'egroups')}
    if ctx.driver is not None and case.get('decimal') and not case.get('multi'):
        ml = model_write(ctx, case)
        res['model_text_equals_written_text'] = ml == lines
    res['fails'] = fails
    return res
