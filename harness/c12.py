"""C12 - signed cell-facet incidence obeys the discrete divergence theorem (DESIGN.md section 4, C12).

Tie D: facet list of `to_facets(remove_duplicates=True)` and the (cell, facet, sign) triples of
       `calculate_normal_incidence_matrix()` vs the Lean model (`c12.incidence`), which also evaluates the Boolean
       hypotheses of `C12_structure` on every mesh.
Tie P: exact-rational area vectors / centres / volumes / per-cell sums of the model (`c12.geom`) vs the float
       results of the real kernels, within the scale-relative tolerance of DESIGN 2.3.
Oracle: the clauses of the property evaluated on the three returned objects only; the metric clauses a second time against
       an exact integer reference geometry with tolerances derived from conditioning (`metric_oracle`), and in the streams
       `absolute-scale` / `far-offset` (the main-loop meshes scaled by 2^e / translated far from the origin) together with the
       metamorphic relation "same facets, incidence, signs, normals and (scaled) areas as at unit scale near the origin".
       Stream `warped-layers`: thin layered hexahedra whose shared faces are skew quads warped by more than half the cell
       thickness (sign / opposite-sign / closure clauses; exact convexity tests; hypothesis of C12_hex_sign_meanplane).
"""
import math
from fractions import Fraction as F

import numpy as np

from . import common as C
from . import meshgen as G
from . import d_util as U

PROP = 'C12'
LEAN_MODULES = ['Femio.Props.C12']
THEOREMS = ['C12_structure', 'C12_structure_count', 'C12_tet_sign', 'C12_hex_sign_convex', 'C12_mirror_sign',
            'C12_area_sum_zero', 'C12_divergence', 'C12_normal_is_area_vector', 'C12_similarity_area', 'C12_similarity_sign',
            'C12_affine_sign', 'C12_hex_sign_meanplane', 'C12_first_node_reference_counterexample', 'C12_planar_reference_point']
PARTIAL = [
    'C12_hex_sign_convex needs convexity as an explicit hypothesis (every cell vertex on the inner side of the '
    'facet plane); for tetrahedra the sign is derived from positivity of the volume alone (C12_tet_sign)',
    'C12_divergence for hexahedra needs planarity of each face as an explicit hypothesis; the facet area is the norm '
    'of the vector area, which equals femio\'s scalar "centroid" area only for planar facets',
    'hexahedra with SKEW faces: C12_hex_sign_convex is vacuous there (two vertices of a skew face lie outside the plane through its centre); '
    'C12_hex_sign_meanplane proves the sign under the explicit hypothesis that the four cell vertices NOT on the face lie on the inner side of the '
    'MEAN plane of the face (through the vertex mean, perpendicular to the vector area); the hypothesis is evaluated exactly per cell by the '
    'model (c12.meanplane) and by the harness on every mesh of the stream `warped-layers`; that convexity of the cell (its hull has the cell\'s '
    'faces, skew ones folded along a diagonal) implies the (sufficient, strict) mean-plane hypothesis is NOT proved and not true in general '
    '(hull-convex cells with a small opposite face under a high corner of a skew face violate it; a random search of 60000 such cells found none '
    'whose centre-based sign is wrong) - so clauses on skew-faced cells are asserted only where BOTH hold; the divergence / area clauses '
    'are not stated for skew faces and are not asserted there',
    'square roots / normalisation of normals are not modelled: the model works with un-normalised area vectors',
    'floating point is not modelled: in exact arithmetic the clauses are invariant under x -> s x + t (C12_similarity_area, '
    'C12_similarity_sign), so the model cannot see the clamp of functions.normalize on small facets or cancellation far from the origin; '
    'those are covered by the oracle + metamorphic streams `absolute-scale` and `far-offset` on the real code only (bounded testing, not proof)',
    'likewise the computed sign is invariant under every affine map with positive determinant (C12_affine_sign): a thin layer (stretch '
    'diag(1,1,tau)) or a cell of a graded grid gets the signs of the unit cell for EVERY tau / size ratio, so single-precision positions or a '
    'clamp relative to the largest facet of the batch are invisible to the model; stream `extreme-geometry` covers them on the real code '
    '(oracle with exact reference + D tie of facets / incidence / signs; bounded testing, not proof)',
]
RULE = ('seeded conforming tet or hex meshes from harness/meshgen.gen_geometric (1..3 cells per axis, thorough ..4; '
        'affine map, optional jitter, voids / several components, unreferenced nodes, arbitrary node / element ids and '
        'storage order); non-trivial = the mesh has at least one interior facet; distinct = distinct (connectivity, '
        'ids, storage order, coordinates). Jittered hex meshes (non-planar faces) form the labelled stream '
        '`hex-warped`: incidence structure and signs are checked there, the two metric identities are not (they are '
        'stated for planar faces / need the vector area); stream `ids-pow2` (inside the quantifier): the same generator with node ids '
        'of meshgen.random_ids style "pow2" (parts offset by multiples of 2^o, equal local indices in several parts, max id + 1 = '
        '2^k; (o, k) from (20,22) (18,23) (16,24) (20,23) (13,17) (10,18) (4,20) (20,31)); stream `int-coords` (inside the '
        'quantifier): meshes all of whose coordinates are integers handed to femio as an int64 node array - `voxel` (axis-aligned, '
        'cell sizes 1 / 3 / 5 so that cell and facet centres are not integers) and `int-affine` (4 x the generator\'s affine image), '
        'a quarter of them with pow2 ids; '
        'stream `absolute-scale` (inside the quantifier, "any size"): every main-loop mesh with k % 5 == 0 scaled EXACTLY by 2^e, '
        'e from -13 .. 10: 60 % `small` (e such that every facet stays inside the clamp-free range of functions.normalize, 2 x area >= '
        '1e-9, and every facet area is <= 1e-6 where the mesh allows it - millimetre cells in metres), the rest from -7 .. -1 and 1 .. 10; '
        'stream `far-offset` (inside the quantifier): every main-loop mesh with k % 5 == 2 translated by an offset of 2^r x longest edge, '
        'r from 10, 13, 17, 20, 23 (|p| / h ~ 1e3 .. 1e7), per-axis anisotropy factors 1 / 2^-3 / 2^-10 / 0, two thirds with offsets '
        'k 2^(E-50) that fill the whole mantissa and keep the translation exact, one third with two-decimal offsets (UTM-like; the mesh is '
        'then DEFINED by the rounded float64 coordinates); in both streams: structure clauses, metric_oracle, metamorphic relation against '
        'the observation of the untransformed mesh (facet rows, facet ids, incidence triples and signs identical; normals, areas and area '
        'vectors equal up to the exact factor); no model correspondence there (the exact model cannot see float effects); '
        'stream `extreme-geometry` (inside the quantifier, "any size, any boundary shape"; 42 quick / 420 thorough cases): tensor-product grids of '
        '1..3 (thorough ..4) cells per axis, hex or Kuhn-split into tets, voids, unreferenced nodes outside the body, arbitrary ids / storage '
        'order, whose spacings are extreme WITHIN one mesh - `thin` (1-2 layers of one axis of thickness tau x extent), `thin2` (thin layers in '
        '2-3 axes: edge / corner cells with facets tau x tau), `graded` (1-3 axes with neighbouring regions whose sizes differ by the factor '
        'rho, up to two steps), `thin+graded`; tau cycled through 1/2^13 1e-4 1/2^17 3e-5 1/2^20 1e-6 1/2^23 3.7e-7 1/2^26 2e-8 1e-8 1/2^30 '
        '1e-9 3e-9 (dyadic and non-dyadic), rho through 1e2 1e6 2^10 1e4 2^20 1e3 2^13 1e5 317 2^17 2^7; mapped by an exact rational map '
        '(signed axis permutation x identity / dyadic shear / rotations with entries k/3, k/5, k/7), placed at the corner / centred / offset by '
        '<= 2 x size, multiplied by 2^e with e chosen from the mesh so that 2 x area of the SMALLEST facet is in [4e-9, 1.6e-8) (`edge`, 3/7), '
        'up to 4^24 larger (`inside`, 3/7) or 4^2..4^8 below the clamp-free range of functions.normalize (`below`, 1/7: those facets and their '
        'cells are classified and counted, nothing metric is asserted on them), then rounded to float64 - the mesh is DEFINED by the rounded '
        'coordinates; judged by the structure clauses, the D tie to the exact model (facet rows, incidence, signs, theorem hypotheses) and the '
        'metric clauses against the exact integer reference with LOCAL conditioning tolerances (length = diameter of the facet / cell itself: '
        'relative to the largest cell a tolerance judges nothing on the small cells); '
        'stream `warped-layers` (inside the quantifier under the reading of "convex" for cells with skew faces stated in ASSUMPTIONS; 32 quick / '
        '320 thorough cases): 1..3 x 1..3 x 2..3 (thorough ..4) hexahedra in layers of thickness tau x lateral spacing (tau cycled through 1/8 1/4 '
        '1/16 1/2 1/128 1 1/32 1/1024; style `decimal`, every 4th case: 1/10 1/20 3/10 1/100) whose node layers are displaced along the stacking '
        'axis by `ratio` x layer thickness (3/4 7/8 5/8 1/4 13/16 9/16 15/16 1/2; decimal 0.7 0.9 0.6 0.2) in the patterns `alternating` (+-w '
        'checkerboard: every face between two layers is a skew quad whose corners are +-w off its mean plane, w > half the cell thickness), `random` '
        '(multiples of w/2 per node), `peak` (one node per layer), `+outer` (outer node layers displaced too: skew BOUNDARY facets), `+inplane` '
        '(lateral jitter: skew lateral faces), the same pattern on all layers (60 %) or independent ones; amplitudes halved until every cell is '
        'positive, hull-convex and mean-plane convex (exact rational test hex_cell_flags); voids, unreferenced nodes, arbitrary ids / storage order / '
        'layout; mapped by an exact INTEGER map (signed axis permutation x identity / shear / 3 x, 5 x, 7 x a rotation), dyadic offset and scale, so '
        'the coordinates are exact float64 values (decimal style: axis map, the mesh is DEFINED by the rounded coordinates); non-trivial = some face '
        'vertex is further from the mean plane of its face than the cell centre (lever > 1: another reference point than the face centre flips the '
        'sign); judged by the structure clauses (interior facet: two cells, opposite signs), the closure clause in exact integer arithmetic on EVERY '
        'cell (sign x exact vector area in the direction of the returned normal sums to zero - this is what constrains the sign of skew boundary '
        'facets), the D tie to the exact model (facet rows, incidence, signs, hypotheses incl. the per-cell hypothesis of C12_hex_sign_meanplane, '
        'command c12.meanplane), unit normals on every facet, and the planar-face clauses (normal perpendicular, area, closure of area x normal, '
        'divergence = volume) on the exactly planar facets / the cells all of whose facets are exactly planar; '
        'stream `square-shapes` (8 quick / 80 thorough): a generator mesh padded with unreferenced nodes until n_node == n_cell (Kuhn tets) or '
        'n_node == n_facet, so that the node-cell / node-facet incidence matrices are square; judged like a main-loop case; '
        'dimension `layout` (a storage detail of the same mesh): every third case of the streams ids-pow2 / int-coords / extreme-geometry hands '
        'femio ids and connectivity as int32 / uint32 / uint64 / int16 / uint16 / uint8 (when the values fit) and all arrays Fortran-ordered / as '
        'transposed views / as non-contiguous slices of larger arrays / read-only')
ASSUMPTIONS = [
    'cells are convex and non-overlapping (generator: positive affine images of bricks, jitter accepted only if every '
    'face-fan sub-tet stays positive); the model decides `faceDeterminedB`, `ownNodesB`, `distinctKeysB`, '
    '`mirrorConformingB` per mesh',
    'reading of "convex hex cell" for cells with skew (non-planar) faces - the statement singles out "planar-faced cells" for the volume identity, '
    'so cells with skew faces are inside the quantifier of the other clauses, although no trilinear cell with a skew face is a convex SET: a cell '
    'is taken as convex when its 8 vertices are in convex position and each of its faces is a face of their convex hull (a skew face folded along '
    'one diagonal), decided in exact rational arithmetic (hex_cell_flags.hull); the stream `warped-layers` asserts only on meshes all of whose '
    'cells are positive, hull-convex AND satisfy the hypothesis of C12_hex_sign_meanplane strictly (generator: amplitudes halved until they do; '
    'replay files that do not are classified, not asserted); the area vector of a skew facet in the closure clause is its vector area 1/2 d1 x d2 '
    '(= area x normal for a planar facet; femio\'s quad normal is its direction: C12_normal_is_area_vector), oriented by the returned normal',
    'the dtype of the node array (float64 / int64) is a storage detail of a conforming mesh: integer-coordinate meshes are inside '
    'the quantifier and are built directly with an int64 FEMAttribute (not through the float-only meshgen.to_femio); so are the integer dtype '
    'of ids / connectivity and the memory layout of every array (dimension `layout`)',
    'stream extreme-geometry: the mesh is the one DEFINED by the float64 coordinates femio is given (rounding a rotated tensor grid leaves '
    'faces planar and cells convex up to 2^-53 of the coordinates, at least 1e-7 of the thinnest layer; the exact deviation of every cell from '
    'planar faces enters the tolerance of the divergence clause as `defect`); clauses are asserted only where the sign is well conditioned '
    '(distance cell centre - facet plane > 1024 x 2^-52 x max|coordinate|; by construction always) and only on facets inside the clamp-free '
    'range of the unchanged functions.normalize (2 x area >= 1e-9); local conditioning tolerance C 2^-52 max(|p| d, d^2) (d^3 for volumes), '
    'd = diameter of the facet / cell, C = 32: the unchanged tree stays below 0.02 of it',
]
TRUSTED = ['C12: harness/meshgen.py face tables are the oracle\'s independent definition of "own faces of a cell"']


def gen(ctx, k):
    kind = 'tet' if k % 2 == 0 else 'hex'
    big = (not ctx.quick) and k % 7 == 0
    return G.gen_geometric(ctx.rng, kind=kind, max_cells=(4 if big else 3) if kind == 'hex' else (3 if big else 2))


MEMORY_LAYOUTS = ['fortran', 'noncontig', 'transposed', 'readonly']
INT_DTYPES = ['int32', 'uint32', 'uint64', 'int16', 'uint16', 'int64', 'uint8']


def layout_for(k):
    """dtype / memory layout of the arrays handed to femio (a storage detail of the same mesh), cycled with the case index"""
    return {'memory': MEMORY_LAYOUTS[k % 4], 'ids': INT_DTYPES[(k // 4) % 7], 'conn': INT_DTYPES[(k // 2) % 7]}


def _lay(a, memory):
    if memory == 'fortran':
        return np.asfortranarray(a)
    if memory == 'transposed':                       # a transposed view of a C-ordered array
        return np.ascontiguousarray(a.T).T
    if memory == 'noncontig':                        # every second row (and the inner columns) of a larger array
        if a.ndim == 1:
            big = np.zeros(2 * len(a) + 1, a.dtype)
            big[1::2] = a
            return big[1::2]
        big = np.zeros((2 * a.shape[0], a.shape[1] + 2), a.dtype)
        big[::2, 1:-1] = a
        return big[::2, 1:-1]
    if memory == 'readonly':
        a = a.copy()
        a.setflags(write=False)
    return a


def build(m):
    """FEMData of the mesh dict on cleared caches.  `int_coords`: the node table is handed to femio as an int64 array (what
    np.arange / np.meshgrid produce for a voxel or integer grid); `layout`: ids / connectivity in another integer dtype (the
    requested one if it can hold the values, else int64), all arrays Fortran-ordered / transposed views / non-contiguous slices /
    read-only - built directly, not through the float-only G.to_femio"""
    lay = m.get('layout')
    if not m.get('int_coords') and not lay:
        return U.fresh(m)
    from femio import FEMData, FEMAttribute, FEMElementalAttribute
    U.clear_caches()
    lay = lay or {}
    mem = lay.get('memory')

    def ints(vals, want):
        v = np.array(vals, dtype=np.int64)
        dt = np.dtype(want or 'int64')
        if len(v) and (v.max() > np.iinfo(dt).max or v.min() < np.iinfo(dt).min):
            dt = np.dtype('int64')
        return _lay(v.astype(dt), mem)
    if m.get('int_coords'):
        assert all(F(v).denominator == 1 for _, p in m['nodes'] for v in p)
        xyz = np.array([[int(v) for v in p] for _, p in m['nodes']], dtype=np.int64)
    else:
        xyz = np.array([[float(v) for v in p] for _, p in m['nodes']])
    nodes = FEMAttribute('NODE', ids=ints([i for i, _ in m['nodes']], lay.get('ids')), data=_lay(xyz, mem), silent=True)
    el = {t: FEMAttribute(t, ids=ints([e for e, _ in b], lay.get('ids')), data=ints([c for _, c in b], lay.get('conn')), silent=True)
          for t, b in m['blocks'].items()}
    fd = G.quiet(lambda: FEMData(nodes=nodes, elements=FEMElementalAttribute('ELEMENT', G.insertion_order(el))))
    assert not m.get('int_coords') or fd.nodes.data.dtype.kind == 'i'
    return fd


def gen_int(ctx, k):
    """stream `int-coords`: conforming tet / hex meshes all of whose coordinates are integers, stored as int64.
    `voxel`: axis-aligned grid with ODD cell sizes (1, 3, 5 per axis), so that cell / facet centres are not integers;
    `int-affine`: the generator's affine image (entries k / {1, 2, 4}) multiplied by 4."""
    kind = 'tet' if k % 2 == 0 else 'hex'
    voxel = k % 4 < 2
    m = G.gen_geometric(ctx.rng, kind=kind, max_cells=3 if kind == 'hex' else 2, jitter=False, affine=not voxel,
                        id_style=('pow2' if k % 8 >= 6 else None))
    if voxel:
        import math
        d = [ctx.rng.choice([1, 1, 3, 5]) for _ in range(3)]
        sh = [ctx.rng.randint(-9, 9) for _ in range(3)]
        m['nodes'] = [(i, tuple(F(d[j] * math.floor(p[j]) + sh[j]) for j in range(3))) for i, p in m['nodes']]
    else:
        m['nodes'] = [(i, tuple(4 * v for v in p)) for i, p in m['nodes']]
    m['int_coords'] = True
    m['int_style'] = 'voxel' if voxel else 'int-affine'
    return m


def real_obs(ctx, m):
    fd = build(m)
    if m.get('reuse'):
        # thin history layer (labelled stream 'same-object-after-coordinate-assignment'): the object first holds other
        # coordinates and is queried, then the coordinates of `m` are assigned through the public setter and the
        # query is repeated on the SAME object without clearing any cache; the result must be that of `m`
        import numpy as np
        target = fd.nodes.data.copy()
        fd.nodes.data = target * 0.5 + np.array([1.0, -2.0, 0.5])
        U.stage('calculate_normal_incidence_matrix() before the coordinate assignment')
        G.quiet(fd.calculate_normal_incidence_matrix)
        fd.nodes.data = target
    U.stage('calculate_normal_incidence_matrix()')
    ffd, inc, normals = G.quiet(fd.calculate_normal_incidence_matrix)
    coo = inc.tocoo()
    obs = {'facets': U.rows(ffd.elements.data), 'facet_ids': [int(i) for i in ffd.elements.ids],
           'triples': sorted((int(r), int(c), int(v)) for r, c, v in zip(coo.row, coo.col, coo.data)),
           'shape': tuple(int(x) for x in inc.shape), 'normals': normals.tolist(),
           'cells': U.flat_ids(fd)}
    f2 = build(m)
    U.stage('to_facets() / areas / centres / volumes')
    ffd2 = G.quiet(f2.to_facets)
    obs['areas'] = [float(x) for x in G.quiet(ffd2.calculate_element_areas)[:, 0]]
    obs['centres'] = G.quiet(lambda: ffd2.convert_nodal2elemental(ffd2.nodes.data, calc_average=True)).tolist()
    f3 = build(m)
    obs['vols'] = [float(x) for x in G.quiet(f3.calculate_element_volumes, raise_negative_volume=False)[:, 0]]
    return obs


def oracle(ctx, m, obs, case, planar, ref=None):
    """the clauses of the property on the returned objects: structure, then (planar-faced cells) the two metric identities with the
    DESIGN 2.3 tolerances against femio's own volumes, then `metric_oracle` against the exact reference"""
    rows = structure_oracle(ctx, m, obs, case)
    if rows is None:
        return
    if not planar:
        ctx.count('stream:hex-warped (metric identities not evaluated)')
    else:
        sc2, sc3 = U.scale(m, 2), U.scale(m, 3)
        A = np.array(obs['areas'])[:, None] * np.array(obs['normals'])
        Cn = np.array(obs['centres'])
        for i, e in enumerate(obs['cells']):
            s = sum((v * A[j] for j, v in rows[i]), np.zeros(3))
            if not np.all(np.abs(s) <= U.TOL_LINEAR * sc2 * 10):
                ctx.fail('identity:area-vectors-do-not-sum-to-zero', 'signed area vectors of a cell do not sum to zero', case,
                         {'cell': e, 'sum': s.tolist(), 'tolerance': U.TOL_LINEAR * sc2 * 10})
                return
            d = sum(v * float(A[j] @ Cn[j]) for j, v in rows[i]) / 3
            if not U.close(d, obs['vols'][i], U.TOL_CENTROID * sc3):
                ctx.fail('identity:divergence', 'one third of the signed sum of area x (normal . centre) differs from the cell volume',
                         case, {'cell': e, 'divergence_sum': d, 'volume': obs['vols'][i]})
                return
    metric_oracle(ctx, m, obs, case, planar, rows, ref)


def structure_oracle(ctx, m, obs, case):
    """structure clauses; returns {cell row: [(facet column, sign)]} or None after a failure"""
    els = U.elem_list(m)
    by_id = {e: (t, c) for t, e, c in els}
    nf = len(obs['facets'])
    if obs['shape'] != (len(els), nf):
        ctx.fail('incidence:shape', 'signed incidence matrix has the wrong shape', case, {'shape': obs['shape'], 'cells': len(els), 'facets': nf})
        return
    fkey = [tuple(sorted(f)) for f in obs['facets']]
    if len(set(fkey)) != nf:
        ctx.fail('facets:duplicate', 'to_facets(remove_duplicates=True) kept two facets with the same nodes', case, None)
        return
    use = {}
    for t, e, c in els:
        for f in G.FACES[t]:
            k = tuple(sorted(c[i] for i in f))
            use[k] = use.get(k, 0) + 1
    if sorted(use) != sorted(fkey):
        ctx.fail('facets:not-the-cell-faces', 'the facet mesh is not the set of faces of the cells', case,
                 {'missing': [k for k in use if k not in set(fkey)][:4], 'extra': [k for k in fkey if k not in use][:4]})
        return
    rows, cols = {}, {}
    for r, c, v in obs['triples']:
        rows.setdefault(r, []).append((c, v))
        cols.setdefault(c, []).append((r, v))
    # every cell is incident to exactly its own faces
    for i, e in enumerate(obs['cells']):
        t, c = by_id[e]
        own = sorted(tuple(sorted(c[k] for k in f)) for f in G.FACES[t])
        got = sorted(fkey[j] for j, _ in rows.get(i, []))
        if own != got:
            ctx.fail('structure:cell-not-incident-to-own-faces', 'a cell is not incident to exactly its own faces', case,
                     {'cell': e, 'own': own, 'incident': got})
            return
    # interior facet: two cells, opposite signs; boundary facet: one cell
    for j in range(nf):
        inc = cols.get(j, [])
        if any(v not in (1, -1) for _, v in inc):
            ctx.fail('structure:value-not-sign', 'an incidence entry is not +1 / -1', case, {'facet': obs['facets'][j], 'entries': inc})
            return
        if use[fkey[j]] == 2:
            if len(inc) != 2 or inc[0][1] + inc[1][1] != 0:
                ctx.fail('structure:interior-facet-signs', 'an interior facet is not incident to its two cells with opposite signs',
                         case, {'facet': obs['facets'][j], 'entries': [(obs['cells'][r], v) for r, v in inc]})
                return
        elif len(inc) != 1:
            ctx.fail('structure:boundary-facet', 'a boundary facet is not incident to exactly one cell', case,
                     {'facet': obs['facets'][j], 'entries': [(obs['cells'][r], v) for r, v in inc]})
            return
    return rows


# ---------------------------------------------------------------------------------------------------------------------
# exact reference geometry and the metric clauses with tolerances derived from conditioning (ASSUMPTIONS)
# ---------------------------------------------------------------------------------------------------------------------
EPS52 = 2.0 ** -52
C_COND = 32                # calibrated: the unchanged tree stays below 0.3 in every stream (ASSUMPTIONS)
ASSERT_NEEDLE = __import__('os').environ.get('C12_ASSERT_NEEDLE') == '1'    # findings/C12-needle-cell-sign.md: promote the classified stream
SIGN_RISK_K = 8            # the sign clauses are asserted where 8 x (float64 risk of the sign, exact_ref) <= 1
RAW_NORMAL_MIN = 1e-9      # clamp-free range of functions.normalize: 2 x facet area >= 1e-9 (clamp below EPSILON^2 = 1e-10)


WORST = {}                 # clause -> largest observed deviation / tolerance (diagnostic, goes into the evidence)


def _worst(key, dev, tol, mask=None):
    r = np.asarray(dev, dtype=float) / np.asarray(tol, dtype=float)
    if mask is not None:
        r = r[mask]
    if r.size:
        WORST[key] = max(WORST.get(key, 0.0), float(np.max(r)))


def _icross(a, b):
    return (a[1] * b[2] - a[2] * b[1], a[2] * b[0] - a[0] * b[2], a[0] * b[1] - a[1] * b[0])


def _idot(a, b):
    return a[0] * b[0] + a[1] * b[1] + a[2] * b[2]


def exact_ref(m, facets):
    """Exact reference geometry of the mesh femio holds (every float64 coordinate is k / 2^g: integer arithmetic in a local frame).
    `facets`: the rows of the returned facet mesh.  Quantities that do not depend on the frame (vector areas, volumes, the distance
    of a cell centre from a facet plane, the divergence sum of a closed cell) are evaluated relative to the first referenced node."""
    pos = dict(m['nodes'])
    els = U.elem_list(m)
    used = sorted({n for _, _, c in els for n in c})
    pos = {n: tuple(F(float(v)) for v in pos[n]) for n in used}      # what femio holds
    D = max(v.denominator for n in used for v in pos[n])
    assert D & (D - 1) == 0, 'coordinates are not float64 values'
    o = pos[used[0]]
    X = {n: tuple(int((v - w) * D) for v, w in zip(pos[n], o)) for n in used}
    P = float(max(abs(v) for n in used for v in pos[n]))
    L2 = 0
    for t, e, c in els:
        for f in G.FACES[t]:
            for a, b in U.dir_edges([c[i] for i in f]):
                d = tuple(x - y for x, y in zip(X[a], X[b]))
                L2 = max(L2, _idot(d, d))
    L = math.sqrt(L2) / float(D)

    def varea2(f):      # twice the vector area x D^2 of the closed polygon f (node ids)
        tot = (0, 0, 0)
        for i in range(len(f)):
            tot = tuple(x + y for x, y in zip(tot, _icross(X[f[i - 1]], X[f[i]])))
        return tot

    def csum(f):        # sum of the local integer coordinates (centre = csum / len)
        return tuple(sum(X[n][k] for n in f) for k in range(3))
    def longest(f):     # largest distance between two nodes of f (facet: edges and diagonals; cell: its diameter), coordinate units
        return math.sqrt(max(_idot(d, d) for d in (tuple(x - y for x, y in zip(X[a], X[b]))
                                                    for i, a in enumerate(f) for b in f[i + 1:]))) / float(D)
    lf = np.array([longest(f) for f in facets])
    S2 = [varea2(f) for f in facets]
    N2 = [_idot(s, s) for s in S2]
    rt = [math.sqrt(n2) for n2 in N2]                       # |2 x vector area| x D^2 (int -> float is correctly rounded)
    Df = float(D)
    A = np.array(rt) / (2 * Df * Df)
    unit = np.array([[x / r if r else 0.0 for x in s] for s, r in zip(S2, rt)])
    vol, defect, margin, lc, risk = {}, {}, float('inf'), {}, {}
    vcache = {}
    for t, e, c in els:
        cs, nc = csum(c), len(c)
        lc[e] = longest(c)
        v72 = 0         # 72 x volume x D^3, face by face (centroid fan of every face; the exact volume for planar faces)
        d72 = 0         # 72 x (1/3 sum S_out . centre) x D^3 in the local frame (= volume for planar faces: C12_divergence)
        for fl in G.FACES[t]:
            f = tuple(c[i] for i in fl)
            n = len(f)
            if f not in vcache:
                s2, g = varea2(f), csum(f)
                fan = 12 * U.det3(*[X[x] for x in f]) if n == 3 else 3 * sum(U.det3(g, X[f[i - 1]], X[f[i]]) for i in range(n))
                vcache[f] = (s2, g, fan, (12 // n) * _idot(s2, g), math.sqrt(_idot(s2, s2)), longest(f))
            s2, g, fan, flux, r2, lface = vcache[f]
            v72 += fan
            d72 += flux
            if r2:
                # distance of the cell centre from the facet plane, in units of the coordinates
                rel = (nc * g[0] - n * cs[0], nc * g[1] - n * cs[1], nc * g[2] - n * cs[2])   # n nc D (facet centre - cell centre)
                mg = abs(_idot(rel, s2)) / (n * nc * Df * r2)
                margin = min(margin, mg)
                # float64 risk of the sign of (facet centre - cell centre) . unit normal when the normal is a normalised cross product
                # of two edge vectors: direction error of the normal ~ 2^-52 l^2 / A (cancellation on a needle-shaped facet) times the
                # length of the relative vector, plus the rounding of the centres, over the exact distance from the facet plane
                rl = math.sqrt(_idot(rel, rel)) / (n * nc * Df)
                risk[e] = max(risk.get(e, 0.0), (EPS52 * lface * lface / (r2 / (2 * Df * Df)) * rl + EPS52 * P) / mg if mg else float('inf'))
        vol[e] = v72 / (72 * D ** 3)
        defect[e] = abs((d72 - v72) / (72 * D ** 3))
    # exactly planar facets (triangles; quads with det(b - a, c - a, d - a) = 0 on the float64 coordinates femio holds)
    flat = np.array([len(f) == 3 or U.det3(*[tuple(x - y for x, y in zip(X[q], X[f[0]])) for q in f[1:]]) == 0 for f in facets], dtype=bool)
    return {'P': P, 'L': L, 'kappa': max(P / L, 1.0), 'A': A, 'unit': unit, 'vol': vol, 'defect': defect, 'margin': margin,
            'in_range': 2 * A >= RAW_NORMAL_MIN, 'lf': lf, 'lc': lc, 'sign_risk': risk, 'S2': S2, 'planar': flat}


def metric_oracle(ctx, m, obs, case, planar, rows, ref=None, label='', local=False, planar_mask=None):
    """metric clauses against the exact reference; `rows` from structure_oracle.  Every assertion is a clause of the property
    (area x normal is the area vector of the facet: the normal is a unit vector perpendicular to the facet and the area is the
    facet's area; closure; divergence) with a tolerance that follows from the conditioning of the clause (ASSUMPTIONS).
    `local`: the length in the tolerance is the diameter of the facet / cell itself instead of the longest edge of the mesh (on a
    graded mesh a tolerance relative to the largest cell is an absolute tolerance for the small ones and judges nothing there);
    elsewhere the local ratios are recorded as a diagnostic only.
    `planar_mask` (per facet, exact): the clauses the property states for planar faces (normal perpendicular to the facet, area, and - on
    cells ALL of whose facets are planar - closure of area x normal and the divergence identity) are asserted on those facets / cells only;
    the unit length of the normal is asserted on every facet."""
    R = obs['_ref'] = ref or obs.get('_ref') or exact_ref(m, obs['facets'])
    L, kap, P = R['L'], R['kappa'], R['P']
    lf = R['lf']
    lcs = np.array([R['lc'][e] for e in obs['cells']])
    g2f, g2c = C_COND * EPS52 * np.maximum(P * lf, lf * lf), C_COND * EPS52 * np.maximum(P * lcs, lcs * lcs)   # local h^2 units
    g3c = g2c * lcs
    if local:
        t2f, t2c, t3c = g2f, g2c, g3c
    else:
        t2 = C_COND * EPS52 * kap * L * L
        t2f, t2c, t3c = np.full(len(lf), t2), np.full(len(lcs), t2), np.full(len(lcs), C_COND * EPS52 * kap * L ** 3)
    pre = label + ':' if local else ''
    n = np.array(obs['normals'], dtype=float).reshape(-1, 3)
    a = np.array(obs['areas'], dtype=float)
    ok = R['in_range']
    if not ok.all():
        ctx.count('facets-below-the-clamp-range (nothing metric asserted)', int((~ok).sum()))
    info = {'stream': label or 'main', 'max_abs_coordinate': P, 'longest_edge': L, 'kappa': kap,
            'tolerance_length': 'diameter of the facet / cell' if local else 'longest edge of the mesh'}
    if R['margin'] <= 64 * EPS52 * P:
        ctx.count('sign-ill-conditioned (metric clauses not asserted)')
        return
    tn = t2f / np.maximum(R['A'], 1e-300) + 1e-12
    ln = np.linalg.norm(n, axis=1)
    _worst(pre + 'normal-length', np.abs(ln - 1.0), tn, ok)
    bad = np.nonzero(ok & ~(np.abs(ln - 1.0) <= tn))[0]
    if len(bad):
        j = int(bad[0])
        ctx.fail('normal:not-a-unit-vector', f'{len(bad)} returned facet normal(s) are not unit vectors although 2 x area >= {RAW_NORMAL_MIN:g}',
                 case, {**info, 'facet': obs['facets'][j], 'normal': n[j].tolist(), 'length': float(ln[j]), 'exact_area': float(R['A'][j]),
                        'tolerance': float(tn[j])})
        return
    if not planar:
        return
    if planar_mask is not None:
        ok = ok & np.asarray(planar_mask, dtype=bool)
    par = np.einsum('ij,ij->i', n, R['unit'])
    off = np.abs(n - par[:, None] * R['unit']).max(axis=1)
    _worst(pre + 'normal-direction', off, tn, ok)
    bad = np.nonzero(ok & ~(off <= tn))[0]
    if len(bad):
        j = int(bad[0])
        ctx.fail('normal:not-perpendicular-to-the-facet', f'{len(bad)} returned facet normal(s) are not perpendicular to their planar facet',
                 case, {**info, 'facet': obs['facets'][j], 'normal': n[j].tolist(), 'exact_unit_normal': R['unit'][j].tolist(),
                        'tangential_part': float(off[j]), 'tolerance': float(tn[j])})
        return
    _worst(pre + 'facet-area', np.abs(a - R['A']), t2f, ok)
    bad = np.nonzero(ok & ~(np.abs(a - R['A']) <= t2f))[0]
    if len(bad):
        j = int(bad[0])
        ctx.fail('facet-area:wrong', f'area of {len(bad)} planar facet(s) of the returned facet mesh differs from the exact area', case,
                 {**info, 'facet': obs['facets'][j], 'area': float(a[j]), 'exact_area': float(R['A'][j]), 'tolerance': float(t2f[j])})
        return
    if not local:
        _worst('local(diagnostic):facet-area', np.abs(a - R['A']), g2f, ok)
        _worst('local(diagnostic):normal-direction', off, g2f / np.maximum(R['A'], 1e-300) + 1e-12, ok)
    Av = a[:, None] * n
    Cn = np.array(obs['centres'], dtype=float)
    n_cells = 0
    for i, e in enumerate(obs['cells']):
        if not all(ok[j] for j, _ in rows[i]):
            continue
        n_cells += 1
        s = sum((v * Av[j] for j, v in rows[i]), np.zeros(3))
        _worst(pre + 'closure', np.abs(s), t2c[i])
        if not np.all(np.abs(s) <= t2c[i]):
            ctx.fail('identity:area-vectors-do-not-sum-to-zero', 'signed area vectors of a cell do not sum to zero', case,
                     {**info, 'cell': e, 'sum': s.tolist(), 'tolerance': float(t2c[i]),
                      'largest_facet_area': float(max(R['A'][j] for j, _ in rows[i]))})
            return
        d = sum(v * float(Av[j] @ Cn[j]) for j, v in rows[i]) / 3
        tol = float(t3c[i]) + R['defect'][e]
        _worst(pre + 'divergence', abs(d - R['vol'][e]), tol)
        if not abs(d - R['vol'][e]) <= tol:
            ctx.fail('identity:divergence', 'one third of the signed sum of area x (normal . centre) differs from the cell volume',
                     case, {**info, 'cell': e, 'divergence_sum': d, 'exact_volume': R['vol'][e], 'tolerance': tol})
            return
        if not local:
            _worst('local(diagnostic):closure', np.abs(s), g2c[i])
            _worst('local(diagnostic):divergence', abs(d - R['vol'][e]), float(g3c[i]) + R['defect'][e])
    if local:
        ctx.count(f'{label}:cells with both metric identities asserted', n_cells)
        ctx.count(f'{label}:cells touching a facet below the clamp-free range' + (' or a skew facet' if planar_mask is not None else '')
                  + ' (identities not asserted)', len(obs['cells']) - n_cells)
    ctx.count('metric-oracle:cases' + (':' + label if label else ''))


# ---------------------------------------------------------------------------------------------------------------------
# streams `absolute-scale` and `far-offset`: the main-loop meshes at another absolute scale / far from the origin
# ---------------------------------------------------------------------------------------------------------------------
def light_obs(ctx, m, vols):
    """observation on ONE object: the three returned objects, areas / centres of the returned facet mesh"""
    fd = build(m)
    U.stage('calculate_normal_incidence_matrix()')
    ffd, inc, normals = G.quiet(fd.calculate_normal_incidence_matrix)
    coo = inc.tocoo()
    obs = {'facets': U.rows(ffd.elements.data), 'facet_ids': [int(i) for i in ffd.elements.ids],
           'triples': sorted((int(r), int(c), int(v)) for r, c, v in zip(coo.row, coo.col, coo.data)),
           'shape': tuple(int(x) for x in inc.shape), 'normals': normals.tolist(), 'cells': U.flat_ids(fd)}
    U.stage('areas / centres of the returned facet mesh')
    obs['areas'] = [float(x) for x in G.quiet(ffd.calculate_element_areas)[:, 0]]
    obs['centres'] = G.quiet(lambda: ffd.convert_nodal2elemental(ffd.nodes.data, calc_average=True)).tolist()
    if vols:
        f3 = build(m)
        U.stage('calculate_element_volumes()')
        obs['vols'] = [float(x) for x in G.quiet(f3.calculate_element_volumes, raise_negative_volume=False)[:, 0]]
    return obs


def transformed(m, tr):
    """the mesh under x -> 2^e x + offset; coordinates = the float64 values femio will hold (exact unless tr says `rounded`)"""
    s = F(2) ** tr.get('scale_exp', 0)
    off = [F(x) for x in tr.get('offset', ['0', '0', '0'])]
    out = {k: v for k, v in m.items() if k not in ('reuse', 'int_coords', 'int_style')}
    out['nodes'] = [(i, tuple(F(float(s * v + o)) for v, o in zip(p, off))) for i, p in m['nodes']]
    exact = all(q == tuple(s * v + o for v, o in zip(p, off)) for (_, q), (_, p) in zip(out['nodes'], m['nodes']))
    return out, exact


def draw_scale(rng, k, Rb):
    """exponent of the `absolute-scale` stream (RULE); k = index within the stream"""
    if k % 5 < 3:
        lo = max(-13, math.ceil(math.log(RAW_NORMAL_MIN / (2 * float(Rb['A'].min())), 4) + 1e-9))
        hi = math.floor(math.log(1e-6 / float(Rb['A'].max()), 4))
        return {'scale_exp': rng.randint(lo, max(lo, min(hi, -1))), 'class': 'small'}
    return {'scale_exp': rng.choice([-7, -6, -5, -4, -3, -2, -1, 1, 2, 3, 5, 8, 10]), 'class': 'other'}


def draw_offset(rng, k, Rb):
    """offset of the `far-offset` stream (RULE): magnitude 2^r x longest edge on the leading axes"""
    r = [10, 13, 17, 20, 23][k % 5]
    E = r + math.ceil(math.log2(Rb['L']))
    an = rng.choice([(0, 0, 0), (0, 0, 0), (0, 3, 10), (0, None, 3), (0, 0, None), (3, 0, 10)])
    an = rng.sample(an, 3)
    decimal = k % 3 == 2
    off = []
    for d in an:
        if d is None:
            off.append(F(0))
        elif decimal:
            off.append(F(round(rng.choice([-1, 1]) * rng.uniform(0.5, 1.0) * 2.0 ** (E - d) * 100)) / 100)
        else:
            off.append(rng.choice([-1, 1]) * rng.randint(2 ** 49, 2 ** 50) * F(2) ** (E - d - 50))
    return {'offset': [str(x) for x in off], 'r': r, 'style': 'decimal' if decimal else 'full-mantissa'}


def metamorphic(ctx, stream, tr, obs0, R0, obs2, R2, case, part):
    """facet rows, facet ids, incidence matrix and signs of the transformed mesh are those of the original one; normals, areas
    and area vectors are equal up to the exact factor 4^e, within the conditioning tolerances of both observations"""
    for key, what in (('cells', 'cell order'), ('shape', 'shape of the incidence matrix'), ('facets', 'rows of the facet mesh'),
                      ('facet_ids', 'facet ids'), ('triples', 'signed incidence entries (cell, facet, sign)')):
        if part == 'combinatorial' and obs0[key] != obs2[key]:
            d = None
            if key in ('facets', 'triples'):
                d = {'only_original': [x for x in obs0[key] if x not in obs2[key]][:4],
                     'only_transformed': [x for x in obs2[key] if x not in obs0[key]][:4]}
            ctx.fail(f'metamorphic:{stream}:{key}', f'{what} of the {"scaled" if stream == "absolute-scale" else "translated"} mesh '
                     f'differ from those of the original mesh', case, d)
            return
    if part == 'combinatorial':
        return
    s2 = 4.0 ** tr.get('scale_exp', 0)
    ok = R0['in_range'] & R2['in_range']
    t2 = C_COND * EPS52 * (R0['kappa'] + R2['kappa']) * R2['L'] ** 2
    tn = t2 / np.maximum(R2['A'], 1e-300) + 1e-12
    n0, n2 = np.array(obs0['normals'], dtype=float), np.array(obs2['normals'], dtype=float)
    a0, a2 = np.array(obs0['areas'], dtype=float) * s2, np.array(obs2['areas'], dtype=float)
    for sig, what, dev, tol in (('normals', 'facet normals', np.abs(n2 - n0).max(axis=1), tn),
                                ('areas', 'facet areas', np.abs(a2 - a0), t2),
                                ('area-vectors', 'area vectors area x normal', np.abs(a2[:, None] * n2 - a0[:, None] * n0).max(axis=1), t2)):
        _worst(f'metamorphic:{stream}:{sig}', dev, tol, ok)
        bad = np.nonzero(ok & ~(dev <= tol))[0]
        if len(bad):
            j = int(bad[0])
            ctx.fail(f'metamorphic:{stream}:{sig}', f'{what} of {len(bad)} facet(s) change under an exact '
                     f'{"scaling by a power of two" if stream == "absolute-scale" else "translation"}', case,
                     {'facet': obs0['facets'][j], 'original (x factor)': (n0[j].tolist(), float(a0[j])), 'transformed': (n2[j].tolist(), float(a2[j])),
                      'deviation': float(dev[j]), 'tolerance': float(np.broadcast_to(tol, dev.shape)[j]), 'kappa': R2['kappa']})
            return


def variant_case(ctx, stream, base, obs0, tr, k=None):
    """one case of the streams `absolute-scale` / `far-offset`: `base` is a main-loop mesh, `obs0` its observation"""
    m2, exact = transformed(base, tr)
    tr = dict(tr, exact=exact)
    planar = base['kind'] == 'tet' or set(base['blocks']) == {'tet'} or not base.get('jittered')
    case = U.mesh_case(m2, jittered=bool(base.get('jittered')), stream=stream, transform=tr, base=G.to_json(base))
    key = (stream, tuple(m2['nodes']), tuple((t, tuple((e, tuple(c)) for e, c in b)) for t, b in m2['blocks'].items()))
    obs2 = U.guarded(ctx, case, key, light_obs, ctx, m2, stream == 'absolute-scale')
    if obs2 is None:
        return
    # the reference is evaluated on the facet rows of the ORIGINAL observation (valid: the original case passed); the first clause of
    # the metamorphic relation says that the transformed mesh has exactly these rows
    R0 = obs0.get('_ref') or exact_ref(base, obs0['facets'])
    R2 = exact_ref(m2, obs0['facets'])
    n_int = sum(len(G.FACES[t]) for t, _, _ in U.elem_list(m2)) - len(obs2['facets'])
    ctx.case(key, sample={**G.describe(m2), 'stream': stream, 'transform': tr, 'kappa': R2['kappa'], 'longest_edge': R2['L'],
                          'planar_faces': planar} if ctx.dist.get('stream:' + stream, 0) <= 1 else None, nontrivial=n_int > 0)
    ctx.count(f'{stream}:kind:{base["kind"]}{"" if planar else " (warped)"}')
    ctx.count(f'{stream}:coordinates {"exact" if exact else "rounded to float64"}')
    if stream == 'absolute-scale':
        ctx.count(f'absolute-scale:2^{tr["scale_exp"]}')
        ctx.count(f'absolute-scale:largest facet area ~1e{math.floor(math.log10(float(R2["A"].max())))}')
    else:
        ctx.count(f'far-offset:{tr.get("style")}:|p|/h ~1e{math.floor(math.log10(R2["kappa"]))}')
    n0 = len(ctx.failures)
    metamorphic(ctx, stream, tr, obs0, R0, obs2, R2, case, part='combinatorial')
    if len(ctx.failures) > n0:
        return
    rows = structure_oracle(ctx, m2, obs2, case)
    if rows is None:
        return
    metric_oracle(ctx, m2, obs2, case, planar, rows, R2, label=stream)
    if len(ctx.failures) > n0:
        return
    if stream == 'absolute-scale' and planar:
        # femio's own cell volumes at that scale (scale-relative tolerance of DESIGN 2.3; float32 accumulation in the hex kernel)
        tol = U.TOL_CENTROID * R2['P'] ** 3
        for i, e in enumerate(obs2['cells']):
            if not abs(obs2['vols'][i] - R2['vol'][e]) <= tol + R2['defect'][e]:
                ctx.fail('identity:divergence:cell-volume', 'calculate_element_volumes() of the scaled mesh is not the cell volume', case,
                         {'cell': e, 'volume': obs2['vols'][i], 'exact_volume': R2['vol'][e], 'tolerance': tol})
                return
    metamorphic(ctx, stream, tr, obs0, R0, obs2, R2, case, part='metric')


# ---------------------------------------------------------------------------------------------------------------------
# stream `extreme-geometry`: extreme but legal geometry within ONE mesh - very thin layers, strong grading
# ---------------------------------------------------------------------------------------------------------------------
LINEAR_MAPS = {       # exact rational maps applied to the tensor grid; `rot-*` are rotations with non-dyadic entries
    'axis': [[1, 0, 0], [0, 1, 0], [0, 0, 1]],
    'shear': [[1, F(1, 4), F(-1, 2)], [0, 1, F(3, 4)], [0, 0, 1]],
    'rot-3': [[F(2, 3), F(-1, 3), F(2, 3)], [F(2, 3), F(2, 3), F(-1, 3)], [F(-1, 3), F(2, 3), F(2, 3)]],
    'rot-5': [[F(3, 5), F(-4, 5), 0], [F(4, 5), F(3, 5), 0], [0, 0, 1]],
    'rot-7': [[F(2, 7), F(3, 7), F(6, 7)], [F(6, 7), F(2, 7), F(-3, 7)], [F(-3, 7), F(6, 7), F(-2, 7)]],
}
THIN_RATIOS = [(-4, F(1, 2 ** 13)), (-4, F(1, 10 ** 4)), (-5, F(1, 2 ** 17)), (-5, F(3, 10 ** 5)), (-6, F(1, 2 ** 20)), (-6, F(1, 10 ** 6)),
               (-7, F(1, 2 ** 23)), (-7, F(37, 10 ** 8)), (-8, F(1, 2 ** 26)), (-8, F(2, 10 ** 8)), (-9, F(1, 2 ** 30)), (-9, F(1, 10 ** 9)),
               (-8, F(1, 10 ** 8)), (-9, F(3, 10 ** 9))]
GRADE_RATIOS = [F(10 ** 2), F(10 ** 6), F(2 ** 10), F(10 ** 4), F(2 ** 20), F(10 ** 3), F(2 ** 13), F(10 ** 5), F(317), F(2 ** 17), F(2 ** 7)]
EXTREME_STYLES = ['thin', 'graded', 'thin', 'graded', 'thin2', 'thin+graded', 'graded']


def gen_extreme(ctx, k, layout=None):
    """stream `extreme-geometry` (RULE): a tensor-product grid (hex cells, or their Kuhn split into tets) whose spacings are extreme
    within ONE mesh, mapped by an exact rational linear map + offset, placed at an absolute scale 2^e and rounded to float64 (the
    mesh is DEFINED by the rounded coordinates: the reference is evaluated on them).  k = index within the stream."""
    rng = ctx.rng
    kind = 'tet' if k % 2 == 0 else 'hex'
    style = EXTREME_STYLES[(k // 2) % 7]
    # position of this case among the thin / graded cases of its kind: the ratio tables are cycled, not sampled
    j_thin = sum('thin' in EXTREME_STYLES[(q // 2) % 7] for q in range(k % 2, k, 2))
    j_grad = sum('graded' in EXTREME_STYLES[(q // 2) % 7] for q in range(k % 2, k, 2))
    big = (not ctx.quick) and k % 5 == 0
    nmax = (4 if big else 3) if kind == 'hex' else (3 if big else 2)
    n = [rng.randint(1, nmax) for _ in range(3)]
    axes = rng.sample(range(3), 3)
    role = {a: 'plain' for a in range(3)}
    if style in ('thin', 'thin+graded'):
        role[axes[0]] = 'thin'
    if style == 'thin2':
        for a in axes[:rng.choice([2, 2, 3])]:
            role[a] = 'thin'
            if a != axes[0]:
                n[a] = max(n[a], 2)                      # at most one axis consists of thin layers only (a sheet)
    if style == 'thin+graded':
        role[axes[1]] = 'graded'
    if style == 'graded':
        for a in axes[:rng.choice([1, 2, 2, 3])]:
            role[a] = 'graded'
    tau_exp, tau = THIN_RATIOS[(5 * j_thin + (k % 2) * 7) % len(THIN_RATIOS)] if 'thin' in style else (0, None)
    rho = GRADE_RATIOS[(3 * j_grad + (k % 2) * 5) % len(GRADE_RATIOS)] if 'graded' in style else None
    sp = {}
    for a in range(3):
        if role[a] == 'graded':
            n[a] = max(n[a], 2)
            # neighbouring regions whose sizes differ by the factor rho (at most two steps; rho >= 1e5 one step: the cells of one
            # mesh then span up to 8 orders of magnitude in length, 16 in facet area)
            pats = {2: [[0, 1], [1, 0]], 3: [[0, 1, 2], [2, 1, 0], [1, 0, 1], [0, 0, 1], [1, 0, 0], [0, 1, 0]],
                    4: [[0, 0, 1, 1], [0, 1, 2, 2], [1, 0, 0, 1], [2, 1, 0, 0], [0, 1, 1, 2]]}[n[a]]
            pat = rng.choice([q for q in pats if max(q) < 2 or rho <= 10 ** 4])
            sp[a] = [rng.choice([F(1), F(1), F(3, 2), F(7, 10)]) * rho ** g for g in pat]
        else:
            sp[a] = [rng.choice([F(1), F(1), F(3, 2), F(2), F(7, 10)]) for _ in range(n[a])]
    if tau is not None:
        # thickness of the thin layers = tau x extent of the model (largest side of the grid without the thin layers)
        thin = {a: sorted(rng.sample(range(n[a]), rng.randint(1, max(1, n[a] - 1)))) for a in range(3) if role[a] == 'thin'}
        ext = max(sum(h for j, h in enumerate(sp[a]) if j not in thin.get(a, [])) for a in range(3))
        for a, js in thin.items():
            for j in js:
                sp[a][j] = tau * ext * rng.choice([1, 1, 2])
    lev = [[sum(sp[a][:j], F(0)) for j in range(n[a] + 1)] for a in range(3)]
    nx, ny, nz = n

    def idx(x, y, z):
        return x + (nx + 1) * (y + (ny + 1) * z)
    cells = [(x, y, z) for z in range(nz) for y in range(ny) for x in range(nx)]
    if rng.random() < .35 and len(cells) > 2:           # voids / re-entrant boundary shapes
        cells = rng.sample(cells, rng.randint(max(1, len(cells) // 2), len(cells) - 1))
    elems = []
    for (x, y, z) in cells:
        c = [idx(x, y, z), idx(x + 1, y, z), idx(x + 1, y + 1, z), idx(x, y + 1, z),
             idx(x, y, z + 1), idx(x + 1, y, z + 1), idx(x + 1, y + 1, z + 1), idx(x, y + 1, z + 1)]
        elems += [('tet', [c[i] for i in t]) for t in G.KUHN] if kind == 'tet' else [('hex', c)]
    mname = ['axis', 'axis', 'shear', 'rot-3', 'rot-5', 'rot-7'][(k // 2 + k // 12) % 6]
    perm, sg = rng.sample(range(3), 3), [rng.choice([1, -1]) for _ in range(3)]
    M = [[LINEAR_MAPS[mname][r][perm[c]] * sg[c] for c in range(3)] for r in range(3)]
    size = max(lv[-1] for lv in lev)
    where = rng.choice(['corner', 'centred', 'offset', 'offset'])
    off = {'corner': [F(0)] * 3, 'centred': None,
           'offset': [F(rng.randint(-200, 200), 100) * size for _ in range(3)]}[where]
    raw = {idx(x, y, z): tuple(sum(M[r][c] * q for c, q in enumerate((lev[0][x], lev[1][y], lev[2][z]))) for r in range(3))
           for z in range(nz + 1) for y in range(ny + 1) for x in range(nx + 1)}
    used = sorted({v for _, c in elems for v in c})
    if off is None:
        off = [-(max(raw[v][r] for v in used) + min(raw[v][r] for v in used)) / 2 for r in range(3)]
    raw = {v: tuple(x + o for x, o in zip(q, off)) for v, q in raw.items()}
    n_unref = 0
    if rng.random() < .25:                              # unreferenced nodes, outside the body (they enlarge the bounding box)
        for j in range(rng.randint(1, 2)):
            raw[-1 - j] = tuple(x + size * F(rng.randint(5, 30), 10) * rng.choice([1, -1]) for x in raw[rng.choice(used)])
            used.append(-1 - j)
            n_unref += 1
    # ---- absolute scale 2^e: smallest facet just inside / well inside / below the clamp-free range of the unchanged tree
    fl = {v: np.array([float(x) for x in q]) for v, q in raw.items()}
    a2 = []
    for t, c in elems:
        for f in G.FACES[t]:
            q = [fl[c[i]] for i in f]
            a2.append(np.linalg.norm(np.cross(q[1] - q[0], q[2] - q[0])) if len(q) == 3 else np.linalg.norm(np.cross(q[2] - q[0], q[3] - q[1])))
    e_min = math.ceil(math.log(4 * RAW_NORMAL_MIN / min(a2), 4))          # 2 x area of the smallest facet in [4e-9, 1.6e-8)
    cls = ['edge', 'inside', 'edge', 'inside', 'inside', 'edge', 'below'][(k // 2 + k // 14) % 7]
    e = e_min + {'edge': 0, 'inside': rng.randint(1, 24), 'below': -rng.randint(2, 8)}[cls]
    pts = {v: tuple(F(float(x * F(2) ** e)) for x in q) for v, q in raw.items()}
    fixed = []
    for ty, c in elems:
        if G.signed(ty, [pts[v] for v in c]) < 0:
            c = [c[i] for i in {'tet': [0, 2, 1, 3], 'hex': [0, 3, 2, 1, 4, 7, 6, 5]}[ty]]
        assert G.signed(ty, [pts[v] for v in c]) > 0
        fixed.append((ty, c))
    small = bool(layout) and any(np.iinfo(np.dtype(layout[w])).max < 2 ** 31 - 1 for w in ('ids', 'conn'))    # 8 / 16-bit ids: dense
    id_list, id_style = G.random_ids(rng, len(used), 'dense' if small else 'pow2' if k % 9 == 8 else None)
    rng.shuffle(id_list)
    ids = dict(zip(used, id_list))
    keys, order = G.order_ids(rng, used, ids)
    eid_list, _ = G.random_ids(rng, len(fixed), 'dense' if small else rng.choice(['dense', 'sparse', 'large']))
    rng.shuffle(eid_list)
    blk = [(eid, [ids[v] for v in c]) for (ty, c), eid in zip(fixed, eid_list)]
    rng.shuffle(blk)
    ratio = max(a2) / min(a2)
    return {'kind': kind, 'order': order, 'id_style': id_style, 'jittered': False, 'n_unref': n_unref, 'layout': layout,
            'nodes': [(ids[v], pts[v]) for v in keys], 'blocks': {kind: blk},
            'extreme': {'style': style, 'map': mname, 'where': where, 'scale_class': cls, 'scale_exp': e, 'cells_per_axis': n,
                        'roles': [role[a] for a in range(3)], 'thin_ratio': str(tau) if tau is not None else None,
                        'thin_ratio_exp': tau_exp if tau is not None else None, 'thin_dyadic': (tau.denominator & (tau.denominator - 1) == 0)
                        if tau is not None else None, 'grading_ratio': str(rho) if rho is not None else None,
                        'facet_area_ratio': float(ratio), 'voids': len(cells) < nx * ny * nz}}


def extreme_case(ctx, m, replaying=False):
    """one case of the stream `extreme-geometry`: structure clauses (asserted whenever the sign is well conditioned), the exact
    model's facets / incidence / signs (D tie), metric clauses with LOCAL conditioning tolerances"""
    X = m.get('extreme') or {}
    case = U.mesh_case(m, stream='extreme-geometry', extreme=X, layout=m.get('layout'))
    if m.get('layout'):
        _count_layout(ctx, m)
    key = ('extreme', tuple(m['nodes']), tuple((t, tuple((e, tuple(c)) for e, c in b)) for t, b in m['blocks'].items()))
    obs = U.guarded(ctx, case, key, light_obs, ctx, m, False)
    if obs is None:
        return None
    n_int = sum(len(G.FACES[t]) for t, _, _ in U.elem_list(m)) - len(obs['facets'])
    ctx.case(key, sample={**G.describe(m), 'stream': 'extreme-geometry', **X, 'facets': len(obs['facets']), 'interior_facets': n_int}
             if ctx.dist.get('stream:extreme-geometry', 0) <= 3 else None, nontrivial=n_int > 0)
    for lab in ('style', 'map', 'where', 'scale_class', 'thin_dyadic'):
        if X.get(lab) is not None:
            ctx.count(f'extreme-geometry:{lab}:{X[lab]}')
    ctx.count(f'extreme-geometry:kind:{m["kind"]}')
    if X.get('thin_ratio_exp') is not None:
        ctx.count(f'extreme-geometry:layer thickness / extent ~1e{X["thin_ratio_exp"]}')
    if X.get('grading_ratio') is not None:
        ctx.count(f'extreme-geometry:size ratio of neighbouring regions ~1e{round(math.log10(float(F(X["grading_ratio"]))))}')
    if X.get('facet_area_ratio'):
        ctx.count(f'extreme-geometry:largest / smallest facet area ~1e{math.floor(math.log10(X["facet_area_ratio"]))}')
    # facets of the cells themselves (not of the returned facet mesh): the reference must not depend on the observation
    own, seen = [], set()
    for t, _, c in U.elem_list(m):
        for f in G.FACES[t]:
            q = tuple(c[i] for i in f)
            if tuple(sorted(q)) not in seen:
                seen.add(tuple(sorted(q)))
                own.append(q)
    R0 = exact_ref(m, own)
    if R0['margin'] <= 1024 * EPS52 * R0['P']:
        ctx.count('extreme-geometry:sign-ill-conditioned (classified, nothing asserted)')
        return None
    worst_risk = max(R0['sign_risk'].values())
    WORST['extreme-geometry:sign-risk of the asserted meshes'] = max(WORST.get('extreme-geometry:sign-risk of the asserted meshes', 0.0),
                                                                     worst_risk if SIGN_RISK_K * worst_risk <= 1 else 0.0)
    if SIGN_RISK_K * worst_risk > 1:
        # needle cells (thin in TWO directions, aspect >= ~1e8, Kuhn tets of the crossing of two thin layers): the sign of a float64
        # cross-product normal is not determined there although the exact sign is stable under perturbation of the coordinates
        # (findings/C12-needle-cell-sign.md).  Classified and counted, never asserted.
        label = 'extreme-geometry:needle cells (float64 sign of a cross-product normal ill-conditioned; not asserted)'
        ctx.count(label)
        sh = _Shadow(ctx, label, report_as=('needle-cell:', case) if ASSERT_NEEDLE else None)
        rows = structure_oracle(sh, m, obs, None)
        if rows is not None:
            pos = {tuple(sorted(q)): j for j, q in enumerate(own)}
            ix = np.array([pos[tuple(sorted(f))] for f in obs['facets']], dtype=int)
            metric_oracle(sh, m, obs, None, True, rows, dict(R0, **{key: R0[key][ix] for key in ('A', 'unit', 'lf', 'in_range')}),
                          label='needle', local=True)
        ctx.count(f'{label}:{"clauses hold" if not sh.failures else "clauses fail"}')
        return None
    n0 = len(ctx.failures)
    if ctx.driver is not None and len(U.elem_list(m)) <= 60:
        d0 = len(ctx.disagreements)
        flags = correspond(ctx, m, obs, case, True, p_tie=False)
        ctx.count('extreme-geometry:model correspondence (facets, incidence, signs)')
        if flags is not None and not all(flags.values()) and len(ctx.disagreements) == d0:
            ctx.disagree('a theorem hypothesis evaluates to false on a generator-conforming mesh', case, None, flags)
    rows = structure_oracle(ctx, m, obs, case)
    if rows is None:
        return None
    # the reference in the order of the returned facet rows (structure_oracle has established that they are the cells' faces; the
    # orientation of a row does not enter the metric clauses: |normal|, tangential part, area)
    pos = {tuple(sorted(q)): j for j, q in enumerate(own)}
    ix = np.array([pos[tuple(sorted(f))] for f in obs['facets']], dtype=int)
    R = dict(R0, **{key: R0[key][ix] for key in ('A', 'unit', 'lf', 'in_range')})
    metric_oracle(ctx, m, obs, case, True, rows, R, label='extreme-geometry', local=True)
    return obs if len(ctx.failures) == n0 else None


# ---------------------------------------------------------------------------------------------------------------------
# stream `warped-layers`: hexahedra with SKEW faces whose warp is a large fraction of the local cell thickness
# ---------------------------------------------------------------------------------------------------------------------
INT_MAPS = {          # exact integer maps with positive determinant (multiples of rotations / a shear): everything stays exact in float64
    'axis': [[1, 0, 0], [0, 1, 0], [0, 0, 1]],
    'shear': [[4, 1, -2], [0, 4, 3], [0, 0, 4]],
    '3rot': [[2, -1, 2], [2, 2, -1], [-1, 2, 2]],
    '5rot': [[3, -4, 0], [4, 3, 0], [0, 0, 5]],
    '7rot': [[2, 3, 6], [6, 2, -3], [-3, 6, -2]],
}
WARP_TAUS = [F(1, 8), F(1, 4), F(1, 16), F(1, 2), F(1, 128), F(1), F(1, 32), F(1, 1024)]          # layer thickness / lateral spacing
WARP_TAUS_DEC = [F(1, 10), F(1, 20), F(3, 10), F(1, 100)]
WARP_RATIOS = [F(3, 4), F(7, 8), F(5, 8), F(1, 4), F(13, 16), F(9, 16), F(15, 16), F(1, 2)]       # warp amplitude / layer thickness
WARP_RATIOS_DEC = [F(7, 10), F(9, 10), F(3, 5), F(2, 10)]
WARP_STYLES = ['alternating', 'random', 'alternating', 'peak', 'random', 'alternating+inplane', 'random+outer', 'alternating+outer']
HEX_DIAGS = (((0, 1, 2), (0, 2, 3)), ((0, 1, 3), (1, 2, 3)))     # the two ways of folding a quadrilateral [0, 1, 2, 3] into triangles


def hex_cell_flags(P):
    """exact shape flags of ONE hexahedron with vertices P (Fractions, femio node order):
    positive   - 6 x volume of femio's decomposition > 0;
    hull       - the cell is convex in the sense that covers skew faces: its 8 vertices are in convex position and every face is a
                 face of the convex hull - a planar face as it is, a skew face folded along one of its diagonals (for one diagonal both
                 triangles have every other cell vertex on their inner side);
    meanplane  - hypothesis of the theorem C12_hex_sign_meanplane, strict form: the four vertices that are not on the face lie strictly
                 on the inner side of the plane through the face centre perpendicular to its outward vector area;
    lever      - max over the faces of (largest distance of a face vertex from the mean plane) / (distance of the cell centre from it):
                 > 1 means that some point of the face other than its centre would give the wrong sign."""
    if G.signed('hex', P) <= 0:
        return {'positive': False, 'hull': False, 'meanplane': False, 'lever': None}
    cs = tuple(sum(q[k] for q in P) for k in range(3))
    hull = mean = True
    lever = F(0)
    for f in G.FACES['hex']:
        Q = [P[i] for i in f]
        rest = [P[i] for i in range(8) if i not in f]
        fold = False
        for tris in HEX_DIAGS:
            good = True
            for tr in tris:
                u, v, w = (Q[i] for i in tr)
                e1, e2 = U.sub(v, u), U.sub(w, u)
                other = [Q[i] for i in range(4) if i not in tr][0]
                if U.det3(e1, e2, U.sub(other, u)) > 0 or any(U.det3(e1, e2, U.sub(p, u)) >= 0 for p in rest):
                    good = False
            fold = fold or good
        hull = hull and fold
        S2 = U.cross(U.sub(Q[2], Q[0]), U.sub(Q[3], Q[1]))                   # outward doubled vector area
        g = tuple(sum(q[k] for q in Q) for k in range(3))
        if any(U.dot(tuple(a - 4 * b for a, b in zip(g, p)), S2) <= 0 for p in rest):
            mean = False
        den = U.dot(tuple(2 * a - b for a, b in zip(g, cs)), S2)                # 8 (facet centre - cell centre) . S2
        if den > 0:
            lever = max(lever, max(2 * abs(U.dot(tuple(4 * a - b for a, b in zip(q, g)), S2)) for q in Q) / den)
        else:
            lever = None
            mean = False
            break
    return {'positive': True, 'hull': hull, 'meanplane': mean, 'lever': lever}


def warped_flags(m):
    """per-cell shape flags of a hex mesh on the float64 coordinates femio will hold; {element id: flags}"""
    pos = {i: tuple(F(float(v)) for v in p) for i, p in m['nodes']}
    return {e: hex_cell_flags([pos[n] for n in c]) for _, e, c in U.elem_list(m)}


def gen_warped(ctx, k, layout=None):
    """stream `warped-layers` (RULE): nx x ny x nz hexahedra in layers (stacking axis = a random axis after the map) of thickness
    tau x lateral spacing whose node layers are displaced ALONG the stacking axis by up to `ratio` x layer thickness: the faces between
    the layers become skew quadrilaterals warped by more than half the cell thickness (lateral faces stay planar unless `+inplane`).
    Exact integer map, dyadic offset and scale: the coordinates are exact float64 values (style `decimal`: decimal thickness / warp as
    in engineering input, axis map; the mesh is then DEFINED by the rounded coordinates).  Amplitudes are halved until every cell is
    positive, hull-convex and mean-plane convex (hex_cell_flags); k = index within the stream."""
    rng = ctx.rng
    style = WARP_STYLES[k % len(WARP_STYLES)]
    decimal = k % 4 == 3
    big = (not ctx.quick) and k % 5 == 0
    nx, ny = rng.randint(1, 4 if big else 3), rng.randint(1, 4 if big else 3)
    nz = rng.choice([2, 2, 3, 4] if big else [2, 2, 3])
    if decimal:
        tau, ratio = WARP_TAUS_DEC[(k // 4) % len(WARP_TAUS_DEC)], WARP_RATIOS_DEC[(k // 4) % len(WARP_RATIOS_DEC)]
    else:
        tau, ratio = WARP_TAUS[(3 * k // 4) % len(WARP_TAUS)], WARP_RATIOS[k % len(WARP_RATIOS)]
    sx = [rng.choice([F(1), F(1), F(3, 2), F(2), F(3, 4)]) for _ in range(nx)]
    sy = [rng.choice([F(1), F(1), F(3, 2), F(2), F(3, 4)]) for _ in range(ny)]
    h = min(sx + sy)
    tz = [tau * h * rng.choice([1, 1, 2]) for _ in range(nz)]
    lx = [sum(sx[:i], F(0)) for i in range(nx + 1)]
    ly = [sum(sy[:i], F(0)) for i in range(ny + 1)]
    lz = [sum(tz[:i], F(0)) for i in range(nz + 1)]
    outer = '+outer' in style
    layers = [l for l in range(nz + 1) if outer or 0 < l < nz]
    # one displacement pattern (in units of the amplitude) per warped node layer; `parallel`: the same pattern on all of them
    parallel = rng.random() < .6

    def pattern():
        if style.startswith('alternating'):
            s0 = rng.choice([1, -1])
            return {(i, j): s0 * (-1) ** (i + j) for i in range(nx + 1) for j in range(ny + 1)}
        if style.startswith('random'):
            return {(i, j): F(rng.randint(-2, 2), 2) for i in range(nx + 1) for j in range(ny + 1)}
        pk = (rng.randint(0, nx), rng.randint(0, ny))                       # `peak`: one displaced node per layer
        sg = rng.choice([1, -1])
        return {(i, j): (sg if (i, j) == pk else 0) for i in range(nx + 1) for j in range(ny + 1)}
    p0 = pattern()
    pats = {l: (p0 if parallel else pattern()) for l in layers}
    amp = {l: ratio * min(tz[max(l - 1, 0)], tz[min(l, nz - 1)]) for l in layers}
    jit = {}
    if '+inplane' in style:
        jit = {(i, j, l): (F(rng.randint(-1, 1), 16) * h, F(rng.randint(-1, 1), 16) * h)
               for i in range(nx + 1) for j in range(ny + 1) for l in range(nz + 1)}

    def idx(x, y, z):
        return x + (nx + 1) * (y + (ny + 1) * z)
    cells = [(x, y, z) for z in range(nz) for y in range(ny) for x in range(nx)]
    if rng.random() < .3 and len(cells) > 2:           # voids / re-entrant boundary shapes
        cells = rng.sample(cells, rng.randint(max(2, len(cells) // 2), len(cells) - 1))
    elems = [[idx(x, y, z), idx(x + 1, y, z), idx(x + 1, y + 1, z), idx(x, y + 1, z),
              idx(x, y, z + 1), idx(x + 1, y, z + 1), idx(x + 1, y + 1, z + 1), idx(x, y + 1, z + 1)] for (x, y, z) in cells]
    mname = 'axis' if decimal else ['axis', 'shear', '3rot', 'axis', '5rot', '7rot'][(k // 2) % 6]
    perm, sg = rng.sample(range(3), 3), [rng.choice([1, -1]) for _ in range(3)]
    M = [[INT_MAPS[mname][r][perm[c]] * sg[c] for c in range(3)] for r in range(3)]
    off = [F(rng.randint(-64, 64), 8) for _ in range(3)] if rng.random() < .6 else [F(0)] * 3
    scale = F(2) ** rng.choice([0, 0, -3, 3, -6, 1])
    shrink = F(1)
    for attempt in range(7):
        raw = {}
        for z in range(nz + 1):
            for y in range(ny + 1):
                for x in range(nx + 1):
                    dx, dy = jit.get((x, y, z), (0, 0))
                    q = (lx[x] + dx * shrink, ly[y] + dy * shrink,
                         lz[z] + (shrink * amp[z] * pats[z][(x, y)] if z in pats and attempt < 6 else 0))
                    v = tuple(scale * (sum(M[r][c] * q[c] for c in range(3)) + off[r]) for r in range(3))
                    raw[idx(x, y, z)] = tuple(F(float(a)) for a in v)
        fixed = []
        for c in elems:
            if G.signed('hex', [raw[v] for v in c]) < 0:
                c = [c[i] for i in [0, 3, 2, 1, 4, 7, 6, 5]]
            fixed.append(c)
        fl = [hex_cell_flags([raw[v] for v in c]) for c in fixed]
        if all(f['positive'] and f['hull'] and f['meanplane'] for f in fl):
            break
        shrink /= 2
    exact = decimal is False
    used = sorted({v for c in fixed for v in c})
    n_unref = 0
    if rng.random() < .2:
        raw[-1] = tuple(a + scale * 40 for a in raw[used[0]])
        used.append(-1)
        n_unref = 1
    small = bool(layout) and any(np.iinfo(np.dtype(layout[w])).max < 2 ** 31 - 1 for w in ('ids', 'conn'))
    id_list, id_style = G.random_ids(rng, len(used), 'dense' if small else 'pow2' if k % 9 == 8 else None)
    rng.shuffle(id_list)
    ids = dict(zip(used, id_list))
    keys, order = G.order_ids(rng, used, ids)
    eid_list, _ = G.random_ids(rng, len(fixed), 'dense' if small else rng.choice(['dense', 'sparse', 'large']))
    rng.shuffle(eid_list)
    blk = [(eid, [ids[v] for v in c]) for c, eid in zip(fixed, eid_list)]
    rng.shuffle(blk)
    return {'kind': 'hex', 'order': order, 'id_style': id_style, 'jittered': True, 'n_unref': n_unref, 'layout': layout,
            'nodes': [(ids[v], raw[v]) for v in keys], 'blocks': {'hex': blk},
            'warped': {'style': style, 'map': mname, 'decimal': decimal, 'cells_per_axis': [nx, ny, nz], 'thickness_over_spacing': str(tau),
                       'warp_over_thickness': str(ratio * shrink if attempt < 6 else 0), 'parallel': parallel, 'coordinates_exact': exact,
                       'voids': len(cells) < nx * ny * nz}}


def vector_closure(ctx, m, obs, case, rows, R):
    """closure clause on cells with skew faces: the signed area vectors of the facets of a cell sum to zero, where the area vector
    of a facet is its exact VECTOR area (for a skew quadrilateral 1/2 d1 x d2; equal to area x normal when the facet is planar) in the
    direction of the returned normal and the sign is the incidence entry.  Exact integer arithmetic: the sum must be (0, 0, 0)."""
    n = np.array(obs['normals'], dtype=float).reshape(-1, 3)
    par = np.einsum('ij,ij->i', n, R['unit'])
    n_cells = 0
    for i, e in enumerate(obs['cells']):
        if any(not R['in_range'][j] or abs(par[j]) < 1e-3 for j, _ in rows[i]):
            ctx.count('warped-layers:cells with a facet whose returned normal gives no orientation (closure not asserted)')
            continue
        n_cells += 1
        tot = [0, 0, 0]
        for j, v in rows[i]:
            o = 1 if par[j] > 0 else -1
            for c in range(3):
                tot[c] += v * o * R['S2'][j][c]
        if any(tot):
            ctx.fail('identity:vector-areas-do-not-sum-to-zero', 'the signed area vectors (sign x exact vector area in the direction of the '
                     'returned normal) of the facets of a cell do not sum to zero', case,
                     {'cell': e, 'facets': [(obs['facets'][j], v, 'normal along' if par[j] > 0 else 'normal against',
                                             [float(x) / 2 for x in R['S2'][j]]) for j, v in rows[i]],
                      'sum (x 2 x denominator^2)': [str(x) for x in tot]})
            return False
    ctx.count('warped-layers:cells with the vector-area closure asserted', n_cells)
    return True


def warped_case(ctx, m, replaying=False):
    """one case of the stream `warped-layers`: structure clauses (interior facets: opposite signs), vector-area closure on every cell,
    the exact model's facets / incidence / signs (D tie) and the hypothesis of C12_hex_sign_meanplane evaluated by the model, the
    planar-face clauses on the exactly planar facets / planar-faced cells"""
    W = m.get('warped') or {}
    case = U.mesh_case(m, stream='warped-layers', warped=W, layout=m.get('layout'), jittered=True)
    flags = warped_flags(m)
    if not all(f['positive'] and f['hull'] and f['meanplane'] for f in flags.values()):
        # outside the asserted class (cannot happen for generated meshes; a hand-edited replay file may get here)
        ctx.count('warped-layers:not positive / hull-convex / mean-plane convex (classified, nothing asserted)')
        return None
    if m.get('layout'):
        _count_layout(ctx, m)
    key = ('warped', tuple(m['nodes']), tuple((t, tuple((e, tuple(c)) for e, c in b)) for t, b in m['blocks'].items()))
    obs = U.guarded(ctx, case, key, light_obs, ctx, m, False)
    if obs is None:
        return None
    lever = max(f['lever'] for f in flags.values())
    n_int = sum(len(G.FACES[t]) for t, _, _ in U.elem_list(m)) - len(obs['facets'])
    ctx.case(key, sample={**G.describe(m), 'stream': 'warped-layers', **W, 'facets': len(obs['facets']), 'interior_facets': n_int,
                          'max vertex deviation from the mean plane / distance of the cell centre': float(lever)}
             if ctx.dist.get('stream:warped-layers', 0) <= 3 else None, nontrivial=n_int > 0 and lever > 1)
    for lab in ('style', 'map', 'decimal', 'parallel'):
        ctx.count(f'warped-layers:{lab}:{W.get(lab)}')
    for lab in ('order', 'id_style'):
        ctx.count(f'warped-layers:{lab}:{m.get(lab)}')
    ctx.count('warped-layers:max (vertex deviation from the mean plane) / (distance of the cell centre): '
              + ('0 (planar)' if lever == 0 else '<= 1/2' if 2 * lever <= 1 else '<= 1' if lever <= 1 else '<= 2' if lever <= 2 else '> 2'))
    own, seen = [], set()
    for t, _, c in U.elem_list(m):
        for f in G.FACES[t]:
            q = tuple(c[i] for i in f)
            if tuple(sorted(q)) not in seen:
                seen.add(tuple(sorted(q)))
                own.append(q)
    R0 = exact_ref(m, own)
    if R0['margin'] <= 1024 * EPS52 * R0['P'] or SIGN_RISK_K * max(R0['sign_risk'].values()) > 1:
        ctx.count('warped-layers:sign-ill-conditioned (classified, nothing asserted)')
        return None
    ctx.count('warped-layers:skew facets', int((~R0['planar']).sum()))
    n0 = len(ctx.failures)
    if ctx.driver is not None and len(U.elem_list(m)) <= 60:
        d0 = len(ctx.disagreements)
        hyp = correspond(ctx, m, obs, case, False, p_tie=False)
        ctx.count('warped-layers:model correspondence (facets, incidence, signs)')
        if hyp is not None and not all(hyp.values()) and len(ctx.disagreements) == d0:
            ctx.disagree('a theorem hypothesis evaluates to false on a generator-conforming mesh', case, None, hyp)
        t = C.Toks(ctx.driver.ask('c12.meanplane ' + G.enc_mesh(m)))
        if t.tok() != 'ok':
            ctx.disagree('meanplane: model error', case, 'ok', ' '.join(t.t[:3]))
        else:
            mp = t.lst(t.nat)
            want = [int(flags[e]['meanplane']) for _, e, _ in U.elem_list(m)]
            ctx.count('warped-layers:hyp:mean_plane_convex=' + ('1' if all(mp) else '0'))
            if mp != want:
                ctx.disagree('hypothesis of C12_hex_sign_meanplane per cell (model vs exact evaluation of the harness)', case, want, mp)
    rows = structure_oracle(ctx, m, obs, case)
    if rows is None:
        return None
    pos = {tuple(sorted(q)): j for j, q in enumerate(own)}
    ix = np.array([pos[tuple(sorted(f))] for f in obs['facets']], dtype=int)
    # reference in the order of the returned facet rows; the vector area in the orientation of the returned ROW (a row is a cyclic
    # rotation / the mirror image of the cell's own face: the exact vector area is recomputed from the row itself)
    R = dict(R0, **{key: R0[key][ix] for key in ('A', 'unit', 'lf', 'in_range', 'planar')})
    Rr = exact_ref(m, obs['facets'])
    R['S2'], R['unit'] = Rr['S2'], Rr['unit']
    if not vector_closure(ctx, m, obs, case, rows, R):
        return None
    metric_oracle(ctx, m, obs, case, True, rows, R, label='warped-layers', local=True, planar_mask=R['planar'])
    return obs if len(ctx.failures) == n0 else None


class _Shadow:
    """ctx stand-in for a labelled stream whose classification is open: failures are counted, never reported"""

    def __init__(self, ctx, label, report_as=None):
        self.ctx, self.label, self.failures, self.dist, self.report_as = ctx, label, [], ctx.dist, report_as

    def fail(self, signature, what, case, observed=None):
        self.failures.append(signature)
        self.ctx.count(f'{self.label}:would-fail:{signature}')
        if self.report_as:      # promoted by the integrator (C12_ASSERT_NEEDLE=1): reported under its own stable signature prefix
            self.ctx.fail(self.report_as[0] + signature, what, self.report_as[1], observed)

    def count(self, key, k=1):
        self.ctx.count(f'{self.label}:{key}', k)


def mixed_components_stream(ctx, n):
    """labelled stream `tet+hex-components` (classification open, NOT asserted): a tet component and a hex component in one mesh
    (conforming: they share nothing) - the only input that reaches the `mix` branch of extract_facets from this API.  Whether "a mesh
    of convex tet or hex cells" includes a mesh with both is not decided by the property text; on this tree the call raises inside
    convert_nodal2elemental(calc_average=True) (ragged np.array, rejected by numpy >= 1.24).  Outcomes are counted only."""
    label = 'stream:tet+hex-components (not asserted)'
    for k in range(n):
        a = G.gen_geometric(ctx.rng, kind='tet', max_cells=2, unref=False)
        b = G.gen_geometric(ctx.rng, kind='hex', max_cells=2, unref=False, jitter=False)
        noff = max(i for i, _ in a['nodes']) + 1 + ctx.rng.randint(0, 9)
        eoff = max(e for e, _ in a['blocks']['tet']) + 1 + ctx.rng.randint(0, 9)
        m = {'kind': 'tet+hex', 'order': 'parts', 'id_style': 'parts', 'jittered': a['jittered'],
             'nodes': a['nodes'] + [(i + noff, tuple(v + 64 for v in p)) for i, p in b['nodes']],
             'blocks': {'tet': a['blocks']['tet'], 'hex': [(e + eoff, [x + noff for x in c]) for e, c in b['blocks']['hex']]}}
        ctx.count(label)
        try:
            obs = light_obs(ctx, m, False)
        except Exception as e:  # noqa
            ctx.count(f'{label}:raises:{type(e).__name__} in {U.STAGE[0]}')
            continue
        sh = _Shadow(ctx, label)
        rows = structure_oracle(sh, m, obs, None)
        if rows is not None:
            metric_oracle(sh, m, obs, None, True, rows)
        ctx.count(f'{label}:{"clauses hold" if not sh.failures else "clauses fail"}')


def gen_square(ctx, k):
    """stream `square-shapes` (inside the quantifier: unreferenced nodes are part of "any mesh"): a generator mesh padded with
    unreferenced nodes (fresh ids, random storage positions, outside the body) until n_node == n_cell (k even, where the mesh has at
    least as many cells as nodes: Kuhn tets) or n_node == n_facet - the node-cell and node-facet incidence matrices are then SQUARE,
    which is where code that infers an axis from a length goes wrong.  Returns None when the mesh has too many nodes already."""
    kind = 'tet' if k % 4 < 3 else 'hex'
    m = G.gen_geometric(ctx.rng, kind=kind, max_cells=3 if kind == 'hex' else 2, unref=False, jitter=False)
    els = U.elem_list(m)
    n_facet = len({tuple(sorted(c[i] for i in f)) for t, _, c in els for f in G.FACES[t]})
    target, what = (len(els), 'n_node == n_cell') if k % 2 == 0 and len(els) >= len(m['nodes']) else (n_facet, 'n_node == n_facet')
    extra = target - len(m['nodes'])
    if extra < 0:
        return None
    have = {i for i, _ in m['nodes']}
    top = max(have)
    for j in range(extra):
        i = top + 1 + j if k % 3 else next(x for x in range(1 + 7 * j, 10 ** 9) if x not in have)
        have.add(i)
        m['nodes'].insert(ctx.rng.randint(0, len(m['nodes'])), (i, (F(90 + j), F(95 - 2 * j, 2), F(99))))
    m['n_unref'] = extra
    m['order'] = m['order'] + '+padded' if extra else m['order']
    m['square'] = what
    return m


def correspond(ctx, m, obs, case, planar, p_tie=True):
    enc = G.enc_mesh(m)
    t = C.Toks(ctx.driver.ask('c12.incidence ' + enc))
    if t.tok() != 'ok':
        ctx.disagree('incidence: model error', case, 'ok', ' '.join(t.t[:3]))
        return None
    flags = dict(zip(['wf', 'face_determined', 'own_nodes', 'distinct_keys', 'mirror_conforming'], [t.nat() for _ in range(5)]))
    for k, v in flags.items():
        ctx.count(f'hyp:{k}={v}')
    mf = U.parse_faces(t)
    mt = t.lst(lambda: (t.nat(), t.nat(), int(t.tok())))
    if mf != obs['facets']:
        k = next((i for i, (a, b) in enumerate(zip(mf, obs['facets'])) if a != b), min(len(mf), len(obs['facets'])))
        ctx.disagree('to_facets() rows', case, obs['facets'][k:k + 3], mf[k:k + 3])
        return flags
    if obs['facet_ids'] != list(range(1, len(mf) + 1)):
        ctx.disagree('facet element ids', case, obs['facet_ids'][:5], list(range(1, 6)))
    if sorted(mt) != obs['triples']:
        diff = sorted(set(mt) ^ set(obs['triples']))[:6]
        ctx.disagree('signed incidence triples (cell, facet, sign)', case, [x for x in diff if x in set(obs['triples'])],
                     [x for x in diff if x in set(mt)])
    if not p_tie:
        return flags
    # P tie
    t = C.Toks(ctx.driver.ask('c12.geom ' + enc))
    t.tok()
    pf = t.lst(lambda: ([t.rat() for _ in range(3)], [t.rat() for _ in range(3)], t.nat()))
    pc = t.lst(lambda: ([t.rat() for _ in range(3)], t.rat(), t.rat(), [t.rat() for _ in range(3)]))
    sc1, sc2, sc3 = U.scale(m, 1), U.scale(m, 2), U.scale(m, 3)
    for j, (a2, vs, n) in enumerate(pf):
        cen = [x / n for x in vs]
        if any(not U.close(c, r, U.TOL_LINEAR * sc1) for c, r in zip(cen, obs['centres'][j])):
            ctx.disagree('facet centre', case, obs['centres'][j], [float(x) for x in cen])
            break
        nrm = float(sum(x * x for x in a2)) ** 0.5
        if nrm == 0:
            ctx.notes.append('degenerate facet in generated mesh')
            continue
        unit = [float(x) / nrm for x in a2]
        if any(abs(u - r) > 1e-9 for u, r in zip(unit, obs['normals'][j])):
            ctx.disagree('facet normal (model: normalised exact area vector)', case, obs['normals'][j], unit)
            break
        if planar and not U.close(nrm / 2, obs['areas'][j], U.TOL_LINEAR * sc2 * 10):
            ctx.disagree('facet area (planar facet: norm of the exact vector area)', case, obs['areas'][j], nrm / 2)
            break
    for i, (s, d, v, _) in enumerate(pc):
        if not U.close(v, obs['vols'][i], U.TOL_CENTROID * sc3):
            ctx.disagree('cell volume', case, obs['vols'][i], float(v))
            break
        if flags['mirror_conforming'] and flags['face_determined'] and any(x != 0 for x in s):
            ctx.disagree('model: signed area vectors of a cell do not cancel exactly (C12_area_sum_zero instance)', case, None, [str(x) for x in s])
            break
        if planar and flags['mirror_conforming'] and flags['face_determined'] and d != v:
            ctx.disagree('model: divergence sum != volume exactly on a planar-faced cell (C12_divergence instance)', case, None, [str(d), str(v)])
            break
    return flags


def _centres(m):
    pos = dict(m['nodes'])
    return [[pos[n][j] for n in c] for _, _, c in U.elem_list(m) for j in range(3)]


def _count_layout(ctx, m):
    ly = m['layout']
    mx = max(max(i for i, _ in m['nodes']), max(e for b in m['blocks'].values() for e, _ in b))
    ctx.count('layout:memory:' + ly['memory'])
    for what in ('ids', 'conn'):
        fits = mx <= np.iinfo(np.dtype(ly[what])).max
        ctx.count(f'layout:{what} dtype:{ly[what] if fits else "int64 (requested dtype too small)"}')


def one_case(ctx, m):
    case = U.mesh_case(m, jittered=bool(m.get('jittered')), reuse=bool(m.get('reuse')), int_coords=bool(m.get('int_coords')),
                       layout=m.get('layout'))
    if m.get('layout'):
        _count_layout(ctx, m)
    planar = m['kind'] == 'tet' or not m.get('jittered')
    key = (tuple(m['nodes']), tuple((t, tuple((e, tuple(c)) for e, c in b)) for t, b in m['blocks'].items()))
    n_fail = len(ctx.failures)
    obs = U.guarded(ctx, case, key, real_obs, ctx, m)
    if obs is None:
        return None
    n_int = sum(len(G.FACES[t]) for t, _, _ in U.elem_list(m)) - len(obs['facets'])
    ctx.case(key, sample={**G.describe(m), 'facets': len(obs['facets']), 'interior_facets': n_int, 'planar_faces': planar},
             nontrivial=n_int > 0)
    for lab in ('kind', 'order', 'id_style', 'jittered'):
        ctx.count(f'{lab}:{m.get(lab)}')
    if m.get('n_unref'):
        ctx.count('has-unreferenced-nodes')
    if m.get('int_coords'):
        ctx.count('stream:int-coords:' + m['int_style'])
        ctx.count('stream:int-coords:' + ('some' if any(F(sum(c), len(c)).denominator != 1 for c in _centres(m)) else 'no')
                  + ' non-integer cell centre coordinate')
    if ctx.driver is not None:
        flags = correspond(ctx, m, obs, case, planar)
        if flags is not None and not all(flags.values()):
            # generator meshes are conforming and non-overlapping: a false hypothesis is a changed table / model
            ctx.disagree('a theorem hypothesis evaluates to false on a generator-conforming mesh', case, None, flags)
    oracle(ctx, m, obs, case, planar)
    return obs if len(ctx.failures) == n_fail else None


def run(ctx):
    WORST.clear()
    n = ctx.n(200, 3000) if ctx.driver is not None else ctx.n(300, 1500)
    for name, obj in C.corpus_cases(PROP):
        try:
            mm = G.from_json(obj['input']['mesh'])
            if obj['input'].get('stream') == 'warped-layers':
                mm['jittered'], mm['warped'], mm['layout'] = True, obj['input'].get('warped') or {}, obj['input'].get('layout')
                ctx.count('stream:warped-layers')
                warped_case(ctx, mm)
                ctx.count('corpus')
                continue
            mm['jittered'] = obj['input'].get('jittered', False)
            mm['reuse'] = obj['input'].get('reuse', False)
            if obj['input'].get('int_coords'):
                mm['int_coords'], mm['int_style'] = True, 'corpus'
            mm['layout'] = obj['input'].get('layout')
            one_case(ctx, mm)
            ctx.count('corpus')
        except Exception as e:  # noqa
            ctx.notes.append(f'corpus case {name}: {e!r}')
    bases = {'absolute-scale': [], 'far-offset': []}
    for k in range(n):
        m = gen(ctx, k)
        if k % 5 == 4:
            m['reuse'] = True
            ctx.count('stream:same-object-after-coordinate-assignment')
        obs = one_case(ctx, m)
        if obs is not None and k % 5 in (0, 2):
            bases['absolute-scale' if k % 5 == 0 else 'far-offset'].append((m, obs))
    # ---- drawn after the main loop (its cases are unchanged for a given seed); both streams are inside the quantifier
    for k in range(ctx.n(48, 500) if ctx.driver is not None else ctx.n(96, 600)):
        # ids with a binary structure (parts offset by multiples of 2^o, max id + 1 = 2^k), see meshgen.random_ids
        kind = 'tet' if k % 2 == 0 else 'hex'
        m = G.gen_geometric(ctx.rng, kind=kind, max_cells=3 if kind == 'hex' else 2, id_style='pow2')
        ctx.count('stream:ids-pow2')
        if k % 3 == 1:
            m['layout'] = layout_for(k // 3)
        one_case(ctx, m)
    for k in range(ctx.n(40, 400) if ctx.driver is not None else ctx.n(80, 500)):
        m = gen_int(ctx, k)
        if k % 3 == 2:
            m['layout'] = layout_for(k // 3 + 1)
        one_case(ctx, m)
    for k in range(ctx.n(8, 80)):
        m = gen_square(ctx, k)
        if m is not None:
            ctx.count('stream:square-shapes:' + m['square'])
            one_case(ctx, m)
    # ---- the main-loop meshes at another absolute scale / far from the origin (inside the quantifier: "any size"); drawn last
    for stream, draw in (('absolute-scale', draw_scale), ('far-offset', draw_offset)):
        for j, (m, obs) in enumerate(bases[stream]):
            ctx.count('stream:' + stream)
            Rb = obs.get('_ref') or exact_ref(m, obs['facets'])
            tr = draw(ctx.rng, j, Rb)
            variant_case(ctx, stream, m, obs, tr)
    # ---- extreme but legal geometry within one mesh (inside the quantifier: "any size, any boundary shape"); drawn last
    import time
    t_ext = time.time()
    for k in range(ctx.n(42, 420) if ctx.driver is not None else ctx.n(84, 600)):
        ctx.count('stream:extreme-geometry')
        extreme_case(ctx, gen_extreme(ctx, k, layout_for(k // 3 + 2) if k % 3 == 0 else None))
    ctx.extra['extreme_geometry_wall_s'] = round(time.time() - t_ext, 2)
    # ---- hexahedra with skew faces warped by a large fraction of the cell thickness (inside the quantifier, see ASSUMPTIONS); drawn last
    t_w = time.time()
    for k in range(ctx.n(32, 320) if ctx.driver is not None else ctx.n(64, 480)):
        ctx.count('stream:warped-layers')
        warped_case(ctx, gen_warped(ctx, k, layout_for(k // 5 + 1) if k % 5 == 4 else None))
    ctx.extra['warped_layers_wall_s'] = round(time.time() - t_w, 2)
    mixed_components_stream(ctx, ctx.n(2, 20))
    ctx.extra['conditioning'] = {'C': C_COND, 'unit': '2^-52 * max(|p| / h, 1) * h^d', 'raw_normal_min': RAW_NORMAL_MIN,
                                 'largest_observed_deviation_over_tolerance': {k: round(v, 6) for k, v in sorted(WORST.items())}}
    ctx.extra['p_tie'] = {'tolerance_float64': U.TOL_LINEAR, 'tolerance_float32_volume': U.TOL_CENTROID,
                          'scale': 'max|coordinate|^d (d = 1 centres, 2 areas, 3 volumes)'}


def replay(ctx, obj):
    if obj['input'].get('stream') in ('absolute-scale', 'far-offset'):
        base = G.from_json(obj['input']['base'])
        base['jittered'] = obj['input'].get('jittered', False)
        n0 = len(ctx.failures)
        obs0 = U.guarded(ctx, {'mesh': obj['input']['base']}, 'replay', real_obs, ctx, base)
        if obs0 is not None:
            variant_case(ctx, obj['input']['stream'], base, obs0, obj['input']['transform'])
        return {'describe': G.describe(base), 'stream': obj['input']['stream'], 'transform': obj['input']['transform'],
                'failures': [{'signature': f['signature'], 'what': f['what'], 'observed': f['observed']} for f in ctx.failures[n0:]],
                'fails': len(ctx.failures) > n0}
    if obj['input'].get('stream') == 'warped-layers':
        m = G.from_json(obj['input']['mesh'])
        m['jittered'], m['warped'], m['layout'] = True, obj['input'].get('warped') or {}, obj['input'].get('layout')
        n0, d0 = len(ctx.failures), len(ctx.disagreements)
        warped_case(ctx, m, replaying=True)
        fl = warped_flags(m)
        return {'describe': G.describe(m), 'stream': 'warped-layers', 'warped': m['warped'],
                'cells positive / hull-convex / mean-plane convex': [all(f[q] for f in fl.values()) for q in ('positive', 'hull', 'meanplane')],
                'failures': [{'signature': f['signature'], 'what': f['what'], 'observed': f['observed']} for f in ctx.failures[n0:]],
                'model_disagreements': [{'what': d['what'], 'impl': d['impl'], 'model': d['model']} for d in ctx.disagreements[d0:]],
                'fails': len(ctx.failures) > n0}
    if obj['input'].get('stream') == 'extreme-geometry':
        m = G.from_json(obj['input']['mesh'])
        m['jittered'], m['extreme'], m['layout'] = False, obj['input'].get('extreme') or {}, obj['input'].get('layout')
        n0, d0 = len(ctx.failures), len(ctx.disagreements)
        extreme_case(ctx, m, replaying=True)
        return {'describe': G.describe(m), 'stream': 'extreme-geometry', 'extreme': m['extreme'],
                'failures': [{'signature': f['signature'], 'what': f['what'], 'observed': f['observed']} for f in ctx.failures[n0:]],
                'model_disagreements': [{'what': d['what'], 'impl': d['impl'], 'model': d['model']} for d in ctx.disagreements[d0:]],
                'fails': len(ctx.failures) > n0}
    m = G.from_json(obj['input']['mesh'])
    m['jittered'] = obj['input'].get('jittered', False)
    m['reuse'] = obj['input'].get('reuse', False)
    m['int_coords'] = obj['input'].get('int_coords', False)
    m['layout'] = obj['input'].get('layout')
    planar = m['kind'] == 'tet' or set(m['blocks']) == {'tet'} or not m['jittered']
    case = U.mesh_case(m, jittered=m['jittered'], int_coords=m['int_coords'], layout=m['layout'])
    n0 = len(ctx.failures)
    obs = U.guarded(ctx, case, 'replay', real_obs, ctx, m)
    if obs is None:
        return {'describe': G.describe(m), 'failures': [{'signature': f['signature'], 'what': f['what'], 'observed': f['observed']}
                                                        for f in ctx.failures[n0:]], 'fails': True}
    oracle(ctx, m, obs, case, planar)
    res = {'describe': G.describe(m), 'facets': obs['facets'][:8], 'triples': obs['triples'][:12],
           'failures': [{'signature': f['signature'], 'what': f['what'], 'observed': f['observed']} for f in ctx.failures[n0:]],
           'fails': len(ctx.failures) > n0}
    if ctx.driver is not None:
        d0 = len(ctx.disagreements)
        correspond(ctx, m, obs, case, planar)
        res['model_disagreements'] = [{'what': d['what'], 'impl': d['impl'], 'model': d['model']} for d in ctx.disagreements[d0:]]
    return res
