"""C12 - signed cell-facet incidence obeys the discrete divergence theorem (DESIGN.md section 4, C12).

Tie D: facet list of `to_facets(remove_duplicates=True)` and the (cell, facet, sign) triples of
       `calculate_normal_incidence_matrix()` vs the Lean model (`c12.incidence`), which also evaluates the Boolean
       hypotheses of `C12_structure` on every mesh.
Tie P: exact-rational area vectors / centres / volumes / per-cell sums of the model (`c12.geom`) vs the float
       results of the real kernels, within the scale-relative tolerance of DESIGN 2.3.
Oracle: the clauses of the property evaluated on the three returned objects only.
"""
from fractions import Fraction as F

import numpy as np

from . import common as C
from . import meshgen as G
from . import d_util as U

PROP = 'C12'
LEAN_MODULES = ['Femio.Props.C12']
THEOREMS = ['C12_structure', 'C12_structure_count', 'C12_tet_sign', 'C12_hex_sign_convex', 'C12_mirror_sign',
            'C12_area_sum_zero', 'C12_divergence', 'C12_normal_is_area_vector']
PARTIAL = [
    'C12_hex_sign_convex needs convexity as an explicit hypothesis (every cell vertex on the inner side of the '
    'facet plane); for tetrahedra the sign is derived from positivity of the volume alone (C12_tet_sign)',
    'C12_divergence for hexahedra needs planarity of each face as an explicit hypothesis; the facet area is the norm '
    'of the vector area, which equals femio\'s scalar "centroid" area only for planar facets',
    'square roots / normalisation of normals are not modelled: the model works with un-normalised area vectors',
]
RULE = ('seeded conforming tet or hex meshes from harness/meshgen.gen_geometric (1..3 cells per axis, thorough ..4; '
        'affine map, optional jitter, voids / several components, unreferenced nodes, arbitrary node / element ids and '
        'storage order); non-trivial = the mesh has at least one interior facet; distinct = distinct (connectivity, '
        'ids, storage order, coordinates). Jittered hex meshes (non-planar faces) form the labelled stream '
        '`hex-warped`: incidence structure and signs are checked there, the two metric identities are not (they are '
        'stated for planar faces / need the vector area); stream `ids-pow2` (inside the quantifier): the same generator with node ids '
        'of meshgen.random_ids style "pow2" (parts offset by multiples of 2^o, equal local indices in several parts, max id + 1 = '
        '2^k; (o, k) from (20,22) (18,23) (16,24) (20,23) (13,17) (10,18) (4,20) (20,31)); stream `int-coords` (inside the '
        'quantifier): meshes all of whose coordinates are integers handed to femio as an int64 node array - `voxel` (axis-aligned, '
        'cell sizes 1 / 3 / 5 so that cell and facet centres are not integers) and `int-affine` (4 x the generator\'s affine image), '
        'a quarter of them with pow2 ids')
ASSUMPTIONS = [
    'cells are convex and non-overlapping (generator: positive affine images of bricks, jitter accepted only if every '
    'face-fan sub-tet stays positive); the model decides `faceDeterminedB`, `ownNodesB`, `distinctKeysB`, '
    '`mirrorConformingB` per mesh',
    'the dtype of the node array (float64 / int64) is a storage detail of a conforming mesh: integer-coordinate meshes are inside '
    'the quantifier and are built directly with an int64 FEMAttribute (not through the float-only meshgen.to_femio)',
]
TRUSTED = ['C12: harness/meshgen.py face tables are the oracle\'s independent definition of "own faces of a cell"']


def gen(ctx, k):
    kind = 'tet' if k % 2 == 0 else 'hex'
    big = (not ctx.quick) and k % 7 == 0
    return G.gen_geometric(ctx.rng, kind=kind, max_cells=(4 if big else 3) if kind == 'hex' else (3 if big else 2))


def build(m):
    """FEMData of the mesh dict on cleared caches.  `int_coords`: the node table is handed to femio as an int64 array (what
    np.arange / np.meshgrid produce for a voxel or integer grid) - built directly, not through the float-only G.to_femio"""
    if not m.get('int_coords'):
        return U.fresh(m)
    from femio import FEMData, FEMAttribute, FEMElementalAttribute
    U.clear_caches()
    assert all(F(v).denominator == 1 for _, p in m['nodes'] for v in p)
    nodes = FEMAttribute('NODE', ids=np.array([i for i, _ in m['nodes']]),
                         data=np.array([[int(v) for v in p] for _, p in m['nodes']], dtype=np.int64), silent=True)
    el = {t: FEMAttribute(t, ids=np.array([e for e, _ in b]), data=np.array([c for _, c in b]), silent=True)
          for t, b in m['blocks'].items()}
    fd = G.quiet(lambda: FEMData(nodes=nodes, elements=FEMElementalAttribute('ELEMENT', G.insertion_order(el))))
    assert fd.nodes.data.dtype.kind == 'i'
    return fd


def gen_int(ctx, k):
    """stream `int-coords`: conforming tet / hex meshes all of whose coordinates are integers, stored as int64.
    `voxel`: axis-aligned grid with ODD cell sizes (1, 3, 5 per axis), so that cell / facet centres are not integers;
    `int-affine`: the generator's affine image (entries k / {1, 2, 4}) multiplied by 4."""
    kind = 'tet' if k % 2 == 0 else 'hex'
    voxel = k % 4 < 2
    m = G.gen_geometric(ctx.rng, kind=kind, max_cells=3 if kind == 'hex' else 2, jitter=False, affine=not voxel,
                        id_style=('pow2' if k % 8 >= 6 else None))
    if voxel:
        import math
        d = [ctx.rng.choice([1, 1, 3, 5]) for _ in range(3)]
        sh = [ctx.rng.randint(-9, 9) for _ in range(3)]
        m['nodes'] = [(i, tuple(F(d[j] * math.floor(p[j]) + sh[j]) for j in range(3))) for i, p in m['nodes']]
    else:
        m['nodes'] = [(i, tuple(4 * v for v in p)) for i, p in m['nodes']]
    m['int_coords'] = True
    m['int_style'] = 'voxel' if voxel else 'int-affine'
    return m


def real_obs(ctx, m):
    fd = build(m)
    if m.get('reuse'):
        # thin history layer (labelled stream 'same-object-after-coordinate-assignment'): the object first holds other
        # coordinates and is queried, then the coordinates of `m` are assigned through the public setter and the
        # query is repeated on the SAME object without clearing any cache; the result must be that of `m`
        import numpy as np
        target = fd.nodes.data.copy()
        fd.nodes.data = target * 0.5 + np.array([1.0, -2.0, 0.5])
        U.stage('calculate_normal_incidence_matrix() before the coordinate assignment')
        G.quiet(fd.calculate_normal_incidence_matrix)
        fd.nodes.data = target
    U.stage('calculate_normal_incidence_matrix()')
    ffd, inc, normals = G.quiet(fd.calculate_normal_incidence_matrix)
    coo = inc.tocoo()
    obs = {'facets': U.rows(ffd.elements.data), 'facet_ids': [int(i) for i in ffd.elements.ids],
           'triples': sorted((int(r), int(c), int(v)) for r, c, v in zip(coo.row, coo.col, coo.data)),
           'shape': tuple(int(x) for x in inc.shape), 'normals': normals.tolist(),
           'cells': U.flat_ids(fd)}
    f2 = build(m)
    U.stage('to_facets() / areas / centres / volumes')
    ffd2 = G.quiet(f2.to_facets)
    obs['areas'] = [float(x) for x in G.quiet(ffd2.calculate_element_areas)[:, 0]]
    obs['centres'] = G.quiet(lambda: ffd2.convert_nodal2elemental(ffd2.nodes.data, calc_average=True)).tolist()
    f3 = build(m)
    obs['vols'] = [float(x) for x in G.quiet(f3.calculate_element_volumes, raise_negative_volume=False)[:, 0]]
    return obs


def oracle(ctx, m, obs, case, planar):
    els = U.elem_list(m)
    by_id = {e: (t, c) for t, e, c in els}
    sc2, sc3 = U.scale(m, 2), U.scale(m, 3)
    nf = len(obs['facets'])
    if obs['shape'] != (len(els), nf):
        ctx.fail('incidence:shape', 'signed incidence matrix has the wrong shape', case, {'shape': obs['shape'], 'cells': len(els), 'facets': nf})
        return
    fkey = [tuple(sorted(f)) for f in obs['facets']]
    if len(set(fkey)) != nf:
        ctx.fail('facets:duplicate', 'to_facets(remove_duplicates=True) kept two facets with the same nodes', case, None)
        return
    use = {}
    for t, e, c in els:
        for f in G.FACES[t]:
            k = tuple(sorted(c[i] for i in f))
            use[k] = use.get(k, 0) + 1
    if sorted(use) != sorted(fkey):
        ctx.fail('facets:not-the-cell-faces', 'the facet mesh is not the set of faces of the cells', case,
                 {'missing': [k for k in use if k not in set(fkey)][:4], 'extra': [k for k in fkey if k not in use][:4]})
        return
    rows, cols = {}, {}
    for r, c, v in obs['triples']:
        rows.setdefault(r, []).append((c, v))
        cols.setdefault(c, []).append((r, v))
    # every cell is incident to exactly its own faces
    for i, e in enumerate(obs['cells']):
        t, c = by_id[e]
        own = sorted(tuple(sorted(c[k] for k in f)) for f in G.FACES[t])
        got = sorted(fkey[j] for j, _ in rows.get(i, []))
        if own != got:
            ctx.fail('structure:cell-not-incident-to-own-faces', 'a cell is not incident to exactly its own faces', case,
                     {'cell': e, 'own': own, 'incident': got})
            return
    # interior facet: two cells, opposite signs; boundary facet: one cell
    for j in range(nf):
        inc = cols.get(j, [])
        if any(v not in (1, -1) for _, v in inc):
            ctx.fail('structure:value-not-sign', 'an incidence entry is not +1 / -1', case, {'facet': obs['facets'][j], 'entries': inc})
            return
        if use[fkey[j]] == 2:
            if len(inc) != 2 or inc[0][1] + inc[1][1] != 0:
                ctx.fail('structure:interior-facet-signs', 'an interior facet is not incident to its two cells with opposite signs',
                         case, {'facet': obs['facets'][j], 'entries': [(obs['cells'][r], v) for r, v in inc]})
                return
        elif len(inc) != 1:
            ctx.fail('structure:boundary-facet', 'a boundary facet is not incident to exactly one cell', case,
                     {'facet': obs['facets'][j], 'entries': [(obs['cells'][r], v) for r, v in inc]})
            return
    if not planar:
        ctx.count('stream:hex-warped (metric identities not evaluated)')
        return
    A = np.array(obs['areas'])[:, None] * np.array(obs['normals'])
    Cn = np.array(obs['centres'])
    for i, e in enumerate(obs['cells']):
        s = sum((v * A[j] for j, v in rows[i]), np.zeros(3))
        if not np.all(np.abs(s) <= U.TOL_LINEAR * sc2 * 10):
            ctx.fail('identity:area-vectors-do-not-sum-to-zero', 'signed area vectors of a cell do not sum to zero', case,
                     {'cell': e, 'sum': s.tolist(), 'tolerance': U.TOL_LINEAR * sc2 * 10})
            return
        d = sum(v * float(A[j] @ Cn[j]) for j, v in rows[i]) / 3
        if not U.close(d, obs['vols'][i], U.TOL_CENTROID * sc3):
            ctx.fail('identity:divergence', 'one third of the signed sum of area x (normal . centre) differs from the cell volume',
                     case, {'cell': e, 'divergence_sum': d, 'volume': obs['vols'][i]})
            return


def correspond(ctx, m, obs, case, planar):
    enc = G.enc_mesh(m)
    t = C.Toks(ctx.driver.ask('c12.incidence ' + enc))
    if t.tok() != 'ok':
        ctx.disagree('incidence: model error', case, 'ok', ' '.join(t.t[:3]))
        return None
    flags = dict(zip(['wf', 'face_determined', 'own_nodes', 'distinct_keys', 'mirror_conforming'], [t.nat() for _ in range(5)]))
    for k, v in flags.items():
        ctx.count(f'hyp:{k}={v}')
    mf = U.parse_faces(t)
    mt = t.lst(lambda: (t.nat(), t.nat(), int(t.tok())))
    if mf != obs['facets']:
        k = next((i for i, (a, b) in enumerate(zip(mf, obs['facets'])) if a != b), min(len(mf), len(obs['facets'])))
        ctx.disagree('to_facets() rows', case, obs['facets'][k:k + 3], mf[k:k + 3])
        return flags
    if obs['facet_ids'] != list(range(1, len(mf) + 1)):
        ctx.disagree('facet element ids', case, obs['facet_ids'][:5], list(range(1, 6)))
    if sorted(mt) != obs['triples']:
        diff = sorted(set(mt) ^ set(obs['triples']))[:6]
        ctx.disagree('signed incidence triples (cell, facet, sign)', case, [x for x in diff if x in set(obs['triples'])],
                     [x for x in diff if x in set(mt)])
    # P tie
    t = C.Toks(ctx.driver.ask('c12.geom ' + enc))
    t.tok()
    pf = t.lst(lambda: ([t.rat() for _ in range(3)], [t.rat() for _ in range(3)], t.nat()))
    pc = t.lst(lambda: ([t.rat() for _ in range(3)], t.rat(), t.rat(), [t.rat() for _ in range(3)]))
    sc1, sc2, sc3 = U.scale(m, 1), U.scale(m, 2), U.scale(m, 3)
    for j, (a2, vs, n) in enumerate(pf):
        cen = [x / n for x in vs]
        if any(not U.close(c, r, U.TOL_LINEAR * sc1) for c, r in zip(cen, obs['centres'][j])):
            ctx.disagree('facet centre', case, obs['centres'][j], [float(x) for x in cen])
            break
        nrm = float(sum(x * x for x in a2)) ** 0.5
        if nrm == 0:
            ctx.notes.append('degenerate facet in generated mesh')
            continue
        unit = [float(x) / nrm for x in a2]
        if any(abs(u - r) > 1e-9 for u, r in zip(unit, obs['normals'][j])):
            ctx.disagree('facet normal (model: normalised exact area vector)', case, obs['normals'][j], unit)
            break
        if planar and not U.close(nrm / 2, obs['areas'][j], U.TOL_LINEAR * sc2 * 10):
            ctx.disagree('facet area (planar facet: norm of the exact vector area)', case, obs['areas'][j], nrm / 2)
            break
    for i, (s, d, v, _) in enumerate(pc):
        if not U.close(v, obs['vols'][i], U.TOL_CENTROID * sc3):
            ctx.disagree('cell volume', case, obs['vols'][i], float(v))
            break
        if flags['mirror_conforming'] and flags['face_determined'] and any(x != 0 for x in s):
            ctx.disagree('model: signed area vectors of a cell do not cancel exactly (C12_area_sum_zero instance)', case, None, [str(x) for x in s])
            break
        if planar and flags['mirror_conforming'] and flags['face_determined'] and d != v:
            ctx.disagree('model: divergence sum != volume exactly on a planar-faced cell (C12_divergence instance)', case, None, [str(d), str(v)])
            break
    return flags


def _centres(m):
    pos = dict(m['nodes'])
    return [[pos[n][j] for n in c] for _, _, c in U.elem_list(m) for j in range(3)]


def one_case(ctx, m):
    case = U.mesh_case(m, jittered=bool(m.get('jittered')), reuse=bool(m.get('reuse')), int_coords=bool(m.get('int_coords')))
    planar = m['kind'] == 'tet' or not m.get('jittered')
    key = (tuple(m['nodes']), tuple((t, tuple((e, tuple(c)) for e, c in b)) for t, b in m['blocks'].items()))
    obs = U.guarded(ctx, case, key, real_obs, ctx, m)
    if obs is None:
        return
    n_int = sum(len(G.FACES[t]) for t, _, _ in U.elem_list(m)) - len(obs['facets'])
    ctx.case(key, sample={**G.describe(m), 'facets': len(obs['facets']), 'interior_facets': n_int, 'planar_faces': planar},
             nontrivial=n_int > 0)
    for lab in ('kind', 'order', 'id_style', 'jittered'):
        ctx.count(f'{lab}:{m.get(lab)}')
    if m.get('n_unref'):
        ctx.count('has-unreferenced-nodes')
    if m.get('int_coords'):
        ctx.count('stream:int-coords:' + m['int_style'])
        ctx.count('stream:int-coords:' + ('some' if any(F(sum(c), len(c)).denominator != 1 for c in _centres(m)) else 'no')
                  + ' non-integer cell centre coordinate')
    if ctx.driver is not None:
        flags = correspond(ctx, m, obs, case, planar)
        if flags is not None and not all(flags.values()):
            # generator meshes are conforming and non-overlapping: a false hypothesis is a changed table / model
            ctx.disagree('a theorem hypothesis evaluates to false on a generator-conforming mesh', case, None, flags)
    oracle(ctx, m, obs, case, planar)


def run(ctx):
    n = ctx.n(200, 3000) if ctx.driver is not None else ctx.n(300, 1500)
    for name, obj in C.corpus_cases(PROP):
        try:
            mm = G.from_json(obj['input']['mesh'])
            mm['jittered'] = obj['input'].get('jittered', False)
            mm['reuse'] = obj['input'].get('reuse', False)
            if obj['input'].get('int_coords'):
                mm['int_coords'], mm['int_style'] = True, 'corpus'
            one_case(ctx, mm)
            ctx.count('corpus')
        except Exception as e:  # noqa
            ctx.notes.append(f'corpus case {name}: {e!r}')
    for k in range(n):
        m = gen(ctx, k)
        if k % 5 == 4:
            m['reuse'] = True
            ctx.count('stream:same-object-after-coordinate-assignment')
        one_case(ctx, m)
    # ---- drawn after the main loop (its cases are unchanged for a given seed); both streams are inside the quantifier
    for k in range(ctx.n(48, 500) if ctx.driver is not None else ctx.n(96, 600)):
        # ids with a binary structure (parts offset by multiples of 2^o, max id + 1 = 2^k), see meshgen.random_ids
        kind = 'tet' if k % 2 == 0 else 'hex'
        m = G.gen_geometric(ctx.rng, kind=kind, max_cells=3 if kind == 'hex' else 2, id_style='pow2')
        ctx.count('stream:ids-pow2')
        one_case(ctx, m)
    for k in range(ctx.n(40, 400) if ctx.driver is not None else ctx.n(80, 500)):
        one_case(ctx, gen_int(ctx, k))
    ctx.extra['p_tie'] = {'tolerance_float64': U.TOL_LINEAR, 'tolerance_float32_volume': U.TOL_CENTROID,
                          'scale': 'max|coordinate|^d (d = 1 centres, 2 areas, 3 volumes)'}


def replay(ctx, obj):
    m = G.from_json(obj['input']['mesh'])
    m['jittered'] = obj['input'].get('jittered', False)
    m['reuse'] = obj['input'].get('reuse', False)
    m['int_coords'] = obj['input'].get('int_coords', False)
    planar = m['kind'] == 'tet' or set(m['blocks']) == {'tet'} or not m['jittered']
    case = U.mesh_case(m, jittered=m['jittered'], int_coords=m['int_coords'])
    n0 = len(ctx.failures)
    obs = U.guarded(ctx, case, 'replay', real_obs, ctx, m)
    if obs is None:
        return {'describe': G.describe(m), 'failures': [{'signature': f['signature'], 'what': f['what'], 'observed': f['observed']}
                                                        for f in ctx.failures[n0:]], 'fails': True}
    oracle(ctx, m, obs, case, planar)
    res = {'describe': G.describe(m), 'facets': obs['facets'][:8], 'triples': obs['triples'][:12],
           'failures': [{'signature': f['signature'], 'what': f['what'], 'observed': f['observed']} for f in ctx.failures[n0:]],
           'fails': len(ctx.failures) > n0}
    if ctx.driver is not None:
        d0 = len(ctx.disagreements)
        correspond(ctx, m, obs, case, planar)
        res['model_disagreements'] = [{'what': d['what'], 'impl': d['impl'], 'model': d['model']} for d in ctx.disagreements[d0:]]
    return res
