"""C05 - native npy cache: exact, transparent, crash-safe (DESIGN.md section 4, C05).

Tie T+D: (a) the ordered file effects of a real `save` ON THE CACHE DIRECTORY (every file-system mutation below it is an
event = an interruption point, however it is performed: wrapped library calls numpy.savez / save, Path.touch / unlink /
rename / replace / write_*, os.replace / rename / remove / link / mkdir / rmdir, shutil.move / copy*, plus a sys.addaudithook
hook for open(..., 'w') / os.open and every other audited primitive; an event that writes / removes one of the seven cache
files IN the directory - a rename into the directory is a write of its target - is a model effect, everything else, e.g.
a staging sub-directory, is an interruption point only; traced
per object and save_mesh_only, over a directory in which every cache file already exists) must be a
plan accepted by the model's executable test `Femio.C05.GoodMid` - the hypothesis of the `*_plan` theorems, which hold
for EVERY order of the effects between the removal and the re-creation of the sentinel; whether the traced order also
equals `saveSteps Cfg.fixed` is recorded, not required; (a') the same save is left by an exception at EVERY effect
(before / right after it): the effects performed before must be the prefix of the plan and the effects the code performs
while the stack unwinds (finally / except / __exit__) must be accepted by `GoodUnwind` - the hypothesis of the
`*_unwind` theorems; (b) random histories read | save X | interrupted save X@k | read whose automatic save is interrupted
@k | a save that raises by itself, on a real temp directory: after every operation the directory
(per cache file: absent / torn / written from which object) and what a read returned are compared with the
directory machine.  An interruption is either a PROCESS DEATH (nothing after effect k reaches the disk) or an
EXCEPTION that unwinds the Python stack (KeyboardInterrupt, SystemExit, OSError(ENOSPC), MemoryError raised once from
inside the wrapped call of effect k - before it, after half-writing its file, or right after it; later effects are
performed and traced).  Injected without touching /repo (wrappers + audit hook, see `effects`).  Stream `sweep`: EVERY event
of one save (second save over a complete cache, automatic save of a first read, mesh-only second save) is the point of a
process death in turn, on objects whose every cache file is observable (all groups non-empty, HEAT settings).
Reads with options (read_mesh_only / read_npy / save) are operations of the histories and of the sweeps: model `readOpt`
(theorems C05_read_opt_safe, C05_history_inv_opt, C05_crash_safe_opt; the slip "a mesh-only read trusts the mere existence of
the node and element files" is C05_mesh_only_by_existence_counterexample).
Oracle: a read returns the parse of the source or exactly one completely saved object (mesh-only read: the node and element
tables of one of them); save -> load reproduces every group exactly (digests over float.hex / ints / strings by id, the
time_series flag of every variable; settings of every value kind by value).  Time series are inside the oracle: the key
scheme (Model/NpyKeys.lean) has a third key "<prefix>/time_series"; whether the tree writes it is detected (ts_flag)."""
import collections
import contextlib
import errno
import io
import os
import pathlib
import shutil
import sys

import numpy as np

from . import common as C
from . import meshgen as mg

PROP = 'C05'
LEAN_MODULES = ['Femio.Props.C05', 'Femio.Props.C05K']
THEOREMS = ['C05_full_save_plan', 'C05_crash_inv_plan', 'C05_history_inv_plan', 'C05_crash_safe_plan', 'mid_good',
            'C05_crash_inv_unwind', 'C05_read_interrupt_inv', 'C05_history_inv_unwind', 'C05_crash_safe_unwind',
            'C05_unwind_extends_plan', 'C05_interrupted_read_transparent', 'C05_unwind_counterexample_marker_in_finally',
            'C05_staged_sorted_counterexample', 'C05_staged_marker_last_good',
            'C05_full_save', 'C05_crash_inv', 'C05_save_inv', 'C05_read_inv', 'C05_history_inv', 'C05_crash_safe',
            'C05_cache_transparent', 'C05_load_complete_save', 'C05_crash_counterexample_upstream',
            'C05_stale_counterexample_upstream', 'split_join', 'C05_keys_attr_roundtrip',
            'C05_keys_time_series_flag_roundtrip', 'C05_keys_roundtrip',
            'C05_keys_elements_roundtrip', 'C05_keys_elemental_collection_roundtrip',
            'C05_keys_counterexample_substring_type', 'C05_keys_counterexample_ids_in_name',
            'C05_keys_counterexample_no_flag',
            'C05_read_opt_default', 'C05_read_opt_inv', 'C05_read_opt_safe', 'C05_history_inv_opt', 'C05_crash_safe_opt',
            'C05_mesh_only_by_existence_counterexample']
PARTIAL = ['key scheme theorems (C05_keys_*) treat array payloads as opaque tags: numpy.savez / numpy.load exactness is trusted; names / '
           'types containing "/" are excluded by hypothesis (femio itself cannot load them); the time_series flag is a Bool of the '
           'model attribute, the shape (T, n, w) is part of the opaque data payload; C05_keys_* are stated for Cfg.fixed (three-key '
           'scheme); which scheme the tree has (Cfg.tsFlag) is detected from the behaviour of FEMAttribute.to_dict and the tie is made '
           'against that Cfg - on a two-key tree the theorems about the flag do not apply and the oracle reports F6d',
           'torn writes inside one np.savez are modelled as "file present but unreadable" (a crash point), not byte-level',
           'read options: read_mesh_only / read_npy / save of read_directory are modelled (readOpt) and part of the histories; other '
           'options (time_series of read_directory, recursive, stem, read_res) keep their defaults; a mesh-only read is compared by its node and '
           'element tables only (the face table a polyhedral cache adds is not part of the directory machine)',
           'clean-up effects performed while an exception unwinds the stack are a traced parameter of the *_unwind theorems '
           '(hypothesis GoodUnwind, evaluated on every interrupted run), not derived from the source of save()',
           'files other than the seven cache files of the directory (a staging sub-directory, temporary names) are not part of the '
           'directory machine: events on them are interruption points only (a read looks at femio_*.np* of the directory itself); '
           'an event seen by the audit hook only (open(..., "w"), os.open) is interrupted before it (torn: file left truncated); '
           '"right after it" is raised at the next event']
RULE = ('seeded histories (quick <= 6 ops, thorough <= 10) over read | save X [mesh-only] | crash X@k [torn] (process death) | '
        'interrupt X@k by KeyboardInterrupt / SystemExit / OSError(ENOSPC) / MemoryError raised once from inside the wrapped '
        'effect k [before it | after half-writing its file | right after it] (later effects - finally / except / __exit__ - run and '
        'are traced) | the same two kinds inside the automatic save of read_directory | a save that raises by itself (settings key '
        'colliding with numpy.savez(file=), unpicklable settings value), with distinct objects (source parse from a UCD / FrontISTR '
        'msh+cnt [60 % HEAT analyses: solution type and time-step table differ from the defaults a cache without settings file yields] '
        '/ OBJ directory, A, B, poisoned N; A / B always carry string / number / bool settings, half a solution_type) whose optional '
        'groups (nodal, elemental, constraints) are independently empty or '
        'not, on a real temp directory; an interruption point is an EVENT = any file-system mutation below the cache directory '
        '(wrapped numpy / pathlib / os / shutil calls + sys.addaudithook for open-for-writing, os.rename, os.remove, os.link, '
        'os.symlink, os.mkdir, os.rmdir, os.truncate outside wrapped calls), whether or not it touches a cache file of the '
        'directory (staging sub-directory, temporary names, clean-up); points k uniform over 0..11 (over all events when a save has '
        'more than 12) with the first event (old cache still valid) and '
        'the last one over-weighted; stream sweep: a process death before EVERY event k = 0, 1, 2, ... (W events alternately torn) of '
        'a second save over a complete cache / of the automatic save of a first read / of a mesh-only second save, then two reads, on '
        'objects with every optional group non-empty and a FrontISTR HEAT source; a read may return the parse of the source or an '
        'object a (mesh-only) save of which was at least started in this history, group by group, settings included; 15 fixed histories (each kind of interruption of a second save over a complete cache of another '
        'object, of the first read, before the first / after the last effect); thorough additionally enumerates ALL interruption '
        'points x {death, death torn, exception before / torn / after} x mesh-only of a second save and of a first read; a case = one '
        'operation; non-trivial = the operation changed the directory or was a read served from the cache; the unwind tie leaves the '
        'save of every combination of empty / non-empty groups x mesh-only by an exception at every effect; plus a '
        'save->load exactness stream over uniform/mixed (incl. tet+tet2), ragged polyhedral, rank 1-3, string-valued settings, '
        '20% with time series (FEMAttribute(time_series=True), data (T, n, w) with T in 1..3 or T == n, w in 1, 3: nodal under the '
        'names ts / time_series / T_series (15% of all cases also have an ORDINARY nodal variable called time_series / my_time_series) and / or elemental (meshes of one element type); ids, data, shape AND the time_series flag of '
        'every variable are compared), a third of the saved objects of every history (A, B, the poisoned N; sweeps and fixed '
        'histories included) carries such series on a tree that writes the time_series key (detected: extra.cfg_detected; a '
        'two-key tree cannot load them - known finding F6d, reported by the exactness stream - and its histories go without), 30% '
        'into a (nested) target directory that does not exist yet; '
        'in that stream 40% of the nodal / elemental / constraint variables are stored under a dict key that differs from their '
        'FEMAttribute.name (incl. several keys sharing one name; attrs[key] = a or attrs.update({key: a})) and must load back '
        'under the key, and half of the variables (rank 1, 2, 3) go through one public in-place update before save() '
        '(FEMAttribute.update / FEMAttributes.update_data with allow_overwrite=True, a write through a .loc / .iloc slice, the '
        'data_frame setter); ids, data SHAPES and values (bit patterns) of what the object reports before save() are compared '
        'with what is loaded; 30% of the variables of that stream have another value kind / memory layout than C-ordered float64 '
        '(int8 .. uint64 incl. the extreme values, bool, float16 / 32, Fortran order, a non-contiguous view, the square shape width '
        '== number of rows); EVERY generated object (exactness stream and histories) carries settings of further value kinds: one '
        'sequence of strings (list / one-element list / tuple / 1-d / 2-d str array) + 2-3 of multi-line / empty / non-ascii / '
        'bracketed strings, int lists, mixed int + float list, float / uint8 / bool / float16 arrays, negative int, None, empty '
        'list, and half of them a solution_type HEAT / STATIC / None; a third of the reads of a random history have non-default '
        'options (read_mesh_only 70%, read_npy=False 20%, save=False 30%), the sweeps put a read_directory(read_mesh_only=True) '
        'between the process death at EVERY event and the default reads, 6 fixed histories mix the options: a mesh-only read may '
        'return the node + element tables of ONE object (mesh-only parse of the source, or an object a save of which was started)')
ASSUMPTIONS = ['an interruption is modelled at the granularity of file-system events below the cache directory (each traced mutation, '
               'whatever call performs it; only those on the seven cache files of the directory are effects of the model, the others '
               'are interruption points at which the model state does not change; a rename is atomic: never torn): a process death by '
               'a BaseException raised instead of '
               '(or, torn, in the middle of) the k-th event and of every later one; an interruption that unwinds the stack by '
               'one exception raised from inside the wrapped call of the k-th effect (before / torn / after), later effects performed '
               'and traced; effects already performed are durable, in order (no reordering by the OS); an asynchronous exception '
               'between two effects is represented by the one raised at the next effect (same set of performed effects, same '
               'enclosing try blocks unless a try block contains no file effect at all)',
               "settings are compared by VALUE: a list / tuple and the array numpy.savez stores for it are identified (shape, kind "
               "- float / int / bool / str / object - and every entry compared), a 0-d array with its .item(); in the group "
               "digests a missing / None 'solution_type' is identified with the default 'STATIC' that read_npy_directory fills in, so "
               'that the histories go on; the literal difference is compared separately and reported as '
               'settings-differ:solution-type-default (findings/C05-solution-type-default.md)',
               'a source whose parse has no element at all (vertex-only OBJ) is outside the quantifier (uniform / mixed elements): '
               'its cache has no femio_elements file and read_npy_directory raises KeyError; such sources are skipped and counted']
TRUSTED = ['C05: numpy.savez / numpy.load round-trip arrays exactly (third-party)']

FILES = ['nodes', 'elements', 'nodal', 'elemental', 'constraints', 'settings', 'sentinel']
FNAME = {'nodes': 'femio_nodes.npz', 'elements': 'femio_elements.npz', 'nodal': 'femio_nodal_data.npz',
         'elemental': 'femio_elemental_data.npz', 'constraints': 'femio_constraints.npz', 'settings': 'femio_settings.npz',
         'sentinel': 'femio_npy_saved.npy'}
RNAME = {v: k for k, v in FNAME.items()}


class Crash(BaseException):
    pass


def canon(a):
    a = np.asarray(a)
    if a.dtype == object:
        if a.shape == ():
            return ('o', repr(a.item()))
        return ('O', a.shape, [canon(x) for x in a.ravel()])
    k = a.dtype.kind
    if k == 'f':
        return ('f', a.shape, ['nan' if x != x else float(x).hex() for x in a.ravel().tolist()])
    if k in 'iu':
        return ('i', a.shape, a.ravel().tolist())
    if k == 'b':
        return ('b', a.shape, a.ravel().tolist())
    return ('s', a.shape, [str(x) for x in a.ravel().tolist()])


def attr_digest(a):
    """ids, data (shape and bit patterns) and the time_series flag of a FEMAttribute (per element type for elemental data)"""
    from femio import FEMElementalAttribute
    if isinstance(a, FEMElementalAttribute):
        return {t: (canon(v.ids), canon(v.data), bool(getattr(v, 'time_series', False))) for t, v in a.items()}
    return (canon(a.ids), canon(a.data), bool(getattr(a, 'time_series', False)))


_TS_FLAG = {}


def ts_flag():
    """Cfg.tsFlag of the tree under test, detected from behaviour: does FEMAttribute.to_dict write a key for the time_series
    flag of a time series (repair of F6d)?  1: the three-key scheme; 0: the two-key scheme, which has no place for the flag -
    a time series can be saved but not loaded (known finding load-raises:time-series)"""
    if 'v' not in _TS_FLAG:
        from femio import FEMAttribute
        try:
            a = FEMAttribute('p', ids=np.array([1, 2]), data=np.zeros((3, 2, 1)), silent=True, time_series=True)
            _TS_FLAG['v'] = int(any(k.endswith('time_series') for k in a.to_dict('p')))
        except Exception:
            _TS_FLAG['v'] = 0
    return _TS_FLAG['v']


F6D_SIG = 'load-raises:time-series'


def settings_digest(s):
    """settings by VALUE: numpy.savez stores every value as numpy.asarray(value), so a list / tuple and the array loaded for
    it are identified (shape, kind and every entry compared), a 0-d array with its .item()"""
    out = {}
    for k, v in s.items():
        if isinstance(v, (list, tuple)):
            v = np.asarray(v)
        if isinstance(v, np.ndarray) and v.shape == ():
            v = v.item()
        if k == 'solution_type' and (v is None or (isinstance(v, str) and v in ('None', 'STATIC'))):
            continue
        out[k] = repr(canon(v)) if isinstance(v, np.ndarray) else repr(v)
    return out


def solution_type_of(s):
    """settings['solution_type'] as it is, WITHOUT the identification absent = None = 'STATIC' that settings_digest makes (so that
    the other streams go on): compared separately, signature settings-differ:solution-type-default"""
    if 'solution_type' not in s:
        return '<no such key>'
    v = s['solution_type']
    if isinstance(v, np.ndarray) and v.shape == ():
        v = v.item()
    return repr(v)


SOLUTION_TYPE_SIG = 'settings-differ:solution-type-default'


def mesh_digest(dg):
    return {'nodes': dg['nodes'], 'elements': dg['elements']}


def digest(fd):
    return {
        'nodes': attr_digest(fd.nodes),
        'elements': attr_digest(fd.elements),
        'nodal': {k: attr_digest(v) for k, v in fd.nodal_data.items() if k != 'NODE'},
        'elemental': {k: attr_digest(v) for k, v in fd.elemental_data.items()},
        'constraints': {k: attr_digest(v) for k, v in fd.constraints.items()},
        'settings': settings_digest(fd.settings),
    }


def file_digest(path):
    """content of a cache file: 'a' absent, 't' unreadable, else a canonical digest"""
    if not path.exists():
        return 'a'
    if path.name == FNAME['sentinel']:
        return 'sentinel'
    try:
        with np.load(path, allow_pickle=True) as z:
            return repr(sorted((k, canon(z[k])) for k in z.files))
    except Exception:
        return 't'


def ref_file_digests(fd):
    """what a complete save of fd puts into each cache file (from femio's own to_dict)"""
    def d(dic):
        return repr(sorted((k, canon(v)) for k, v in dic.items()))
    return {'nodes': d(fd.nodes.to_dict()), 'elements': d(fd.elements.to_dict()),
            'nodal': d(fd.nodal_data.to_dict()) if len(fd.nodal_data) else None,
            'elemental': d(fd.elemental_data.to_dict()) if len(fd.elemental_data) else None,
            'constraints': d(fd.constraints.to_dict()) if len(fd.constraints) else None,
            'settings': d({k: np.asarray(v) for k, v in fd.settings.items()})}


# ------------------------------------------------------------------ crash injection / tracing

EXCS = {'KeyboardInterrupt': lambda: KeyboardInterrupt(),                                 # Ctrl-C
        'SystemExit': lambda: SystemExit(143),                                            # raised by a SIGTERM handler
        'OSError': lambda: OSError(errno.ENOSPC, 'No space left on device'),              # an ordinary Exception
        'MemoryError': lambda: MemoryError()}


# Every file-system MUTATION below the cache directory is an EVENT (an interruption point): whatever way the code under
# test performs it.  Two mechanisms, so that neither a new spelling nor a new call site escapes:
# * wrappers around the library calls a save is usually written with (numpy.savez / savez_compressed / save, Path.touch /
#   unlink / rename / replace / write_bytes / write_text, os.replace / rename / remove / unlink / link / symlink / mkdir /
#   rmdir, shutil.move / copy / copy2 / copyfile): one event per outermost call, interruption before / in the middle of
#   (torn, where the call is not atomic) / right after it;
# * a sys.addaudithook hook (events open-for-writing, os.rename, os.remove, os.link, os.symlink, os.mkdir, os.rmdir,
#   os.truncate) for everything that is not inside a wrapped call (open(..., 'w'), os.open, a C extension ...): one event
#   per audited primitive, interruption before it (torn for an open: the file is left created / truncated); "right after it"
#   becomes "before the next event".
# An event that removes / (re)writes one of the seven cache files IN the cache directory (a rename INTO the directory is a
# write of its target, a rename out of it a removal) is a MODEL EFFECT ('R' | 'W', file); every other event (a staging
# sub-directory, temporary names, their clean-up) is only an interruption point: no read looks at those files.

_AUDIT = {'installed': False, 'handler': None}
_AUDITED = frozenset(['open', 'os.rename', 'os.remove', 'os.link', 'os.symlink', 'os.mkdir', 'os.rmdir', 'os.truncate'])
_WRITE_FLAGS = os.O_WRONLY | os.O_RDWR | os.O_CREAT | os.O_TRUNC | os.O_APPEND


def _audit_hook(event, args):
    h = _AUDIT['handler']
    if h is not None and event in _AUDITED:
        h(event, args)


def _with_suffix(file, suffix):
    """the path numpy.savez / numpy.save really writes (None: a file object)"""
    if not isinstance(file, (str, bytes, os.PathLike)):
        return None
    f = os.fsdecode(file)
    return f if f.endswith(suffix) else f + suffix


def _into(src, dst):
    """the path shutil.move / copy / copy2 really write: inside dst when dst is a directory"""
    try:
        if os.path.isdir(dst):
            return os.path.join(os.fsdecode(dst), os.path.basename(os.fsdecode(src).rstrip(os.sep)))
    except (TypeError, ValueError):
        pass
    return dst


@contextlib.contextmanager
def effects(directory, crash_at=None, torn=False, trace=None, exc=None, after=False, unwind=None, events=None):
    """trace (and interrupt) every file-system mutation below `directory` (see the comment above).

    Two kinds of interruption at EVENT number `crash_at`:
    * exc=None, a PROCESS DEATH: `Crash` is raised instead of event k and instead of every later event (whatever a
      `finally` / `except` / `__exit__` of the code under test tries afterwards never reaches the disk);
    * exc=<name in EXCS>, an EXCEPTION that unwinds the Python stack: raised ONCE from inside event k (before performing
      it; with `torn` after half-writing its file; with `after` right after performing it).  Every later event is performed
      normally; its model effects are recorded in `unwind`.
    `trace`: the model effects ('R' | 'W', file) performed before the interruption; `events`: per event performed before the
    interruption the list of its model effects ([] for an event that touches no cache file).  The yielded state holds
    'fired' (number of EVENTS performed before the interruption, None = never interrupted), 'fired_effects' (number of
    model effects performed before it), 'torn_done' (a cache file was really left half-written), 'injected' (the exception
    instance raised here) and 'errors' (number of model effects performed before, exception, model effects of the event)
    for exceptions raised by a real event itself (an unserialisable value, ...): whether one of those is an interruption is
    decided by the caller (did it leave save()?)."""
    import numpy
    directory = os.path.realpath(str(directory))
    trace = [] if trace is None else trace
    events = [] if events is None else events
    state = {'n': 0, 'fired': None, 'fired_effects': None, 'torn_done': False, 'injected': None, 'errors': [], 'depth': 0,
             'after_pending': False, 'foreign': [], 'hook_only': 0}

    def locate(p, dir_fd=None):
        """None (not below the cache directory) | ('effect', cache file) | ('other', path relative to the directory)"""
        if p is None or isinstance(p, int):
            return None
        try:
            p = os.fsdecode(p)
            if dir_fd is not None and not os.path.isabs(p):
                p = os.path.join(os.readlink(f'/proc/self/fd/{dir_fd}'), p)
            p = os.path.abspath(p)
            parent, name = os.path.realpath(os.path.dirname(p)), os.path.basename(p)
        except (TypeError, ValueError, OSError):
            return None
        if parent == directory:
            if name.startswith('femio_') and name.endswith(('.npz', '.npy')):
                return ('effect', RNAME.get(name, name))
            return ('other', name)
        if parent.startswith(directory + os.sep):
            return ('other', os.path.relpath(os.path.join(parent, name), directory))
        return None

    def inject():
        e = Crash() if exc is None else EXCS[exc]()
        state['injected'] = e
        return e

    def perform(touched, real, tear=None):
        """one event; touched = [(kind, path, dir_fd)]; real=None: called from the audit hook (the caller performs it)"""
        locs = [(kind, locate(p, fd)) for kind, p, fd in touched]
        locs = [(kind, l) for kind, l in locs if l is not None]
        if not locs:
            return real() if real is not None else None
        effs = [(kind, l[1]) for kind, l in locs if l[0] == 'effect']
        if state['fired'] is not None:            # after the interruption
            if exc is None:
                raise Crash()                     # the process is dead
            if unwind is not None:
                unwind.extend(effs)               # performed while the exception unwinds the stack
            return real() if real is not None else None
        idx = state['n']
        if state['after_pending'] or (crash_at is not None and idx == crash_at and not (after and exc is not None)):
            state['fired'], state['fired_effects'] = idx, len(trace)
            if torn and tear is not None and not state['after_pending'] and ('W', 'sentinel') not in effs:
                state['depth'] += 1
                try:
                    tear()
                finally:
                    state['depth'] -= 1
                state['torn_done'] = any(k == 'W' for k, _f in effs)
            raise inject()
        state['n'] += 1
        before = len(trace)
        trace.extend(effs)
        events.append(effs)
        if not effs:
            state['foreign'].append([f'{kind} {l[1]}' for kind, l in locs])
        if real is None:                          # audit hook: the primitive is performed by our caller
            state['hook_only'] += 1
            if crash_at is not None and idx == crash_at:
                state['after_pending'] = True     # "right after it" = before the next event
            return None
        state['depth'] += 1
        try:
            out = real()
        except BaseException as e:
            state['errors'].append((before, e, effs))
            raise
        finally:
            state['depth'] -= 1
        if crash_at is not None and idx == crash_at:
            state['fired'], state['fired_effects'] = idx + 1, len(trace)
            raise inject()
        return out

    saved = []

    def wrap(owner, attr, touched_of, tear_of=None):
        real = getattr(owner, attr, None)
        if real is None:
            return

        def wrapper(*a, **k):
            if state['depth']:                    # inside an outer wrapped call: part of that event
                return real(*a, **k)
            try:
                touched = [t for t in touched_of(*a, **k) if t[1] is not None]
            except Exception:
                touched = []
            if not touched:
                return real(*a, **k)
            return perform(touched, lambda: real(*a, **k), (lambda: tear_of(*a, **k)) if tear_of else None)
        saved.append((owner, attr, real))
        setattr(owner, attr, wrapper)

    def half(path, data):
        with open(path, 'wb') as f:
            f.write(data[: max(1, len(data) // 2)])

    def tear_np(real, suffix):
        def tear(*a, **k):
            file = a[0] if a else k.pop('file')
            buf = io.BytesIO()
            real(buf, *a[1:], **k)
            half(_with_suffix(file, suffix), buf.getvalue())
        return tear

    def tear_copy(src, dst, *a, **k):
        with open(src, 'rb') as f:
            half(_into(src, dst), f.read())

    for fn, suffix in (('savez', '.npz'), ('savez_compressed', '.npz'), ('save', '.npy')):
        wrap(numpy, fn, lambda *a, _s=suffix, **k: [('W', _with_suffix(a[0] if a else k.get('file'), _s), None)],
             tear_np(getattr(numpy, fn), suffix))
    P = pathlib.Path
    wrap(P, 'touch', lambda self, *a, **k: [('W', self, None)])
    wrap(P, 'unlink', lambda self, *a, **k: [('R', self, None)])
    wrap(P, 'rename', lambda self, target, *a, **k: [('R', self, None), ('W', target, None)])
    wrap(P, 'replace', lambda self, target, *a, **k: [('R', self, None), ('W', target, None)])
    wrap(P, 'write_bytes', lambda self, data, *a, **k: [('W', self, None)], lambda self, data, *a, **k: half(self, bytes(data)))
    wrap(P, 'write_text', lambda self, data, *a, **k: [('W', self, None)],
         lambda self, data, *a, **k: half(self, str(data).encode()))
    wrap(P, 'mkdir', lambda self, *a, **k: [('W', self, None)])
    wrap(P, 'rmdir', lambda self, *a, **k: [('R', self, None)])
    for fn in ('replace', 'rename'):
        wrap(os, fn, lambda src, dst, *a, src_dir_fd=None, dst_dir_fd=None, **k: [('R', src, src_dir_fd), ('W', dst, dst_dir_fd)])
    for fn in ('remove', 'unlink', 'rmdir'):
        wrap(os, fn, lambda path, *a, dir_fd=None, **k: [('R', path, dir_fd)])
    wrap(os, 'mkdir', lambda path, *a, dir_fd=None, **k: [('W', path, dir_fd)])
    wrap(os, 'link', lambda src, dst, *a, src_dir_fd=None, dst_dir_fd=None, **k: [('W', dst, dst_dir_fd)])
    wrap(os, 'symlink', lambda src, dst, *a, dir_fd=None, **k: [('W', dst, dir_fd)])
    wrap(shutil, 'move', lambda src, dst, *a, **k: [('R', src, None), ('W', _into(src, dst), None)])
    wrap(shutil, 'copyfile', lambda src, dst, *a, **k: [('W', dst, None)], tear_copy)
    wrap(shutil, 'copy', lambda src, dst, *a, **k: [('W', _into(src, dst), None)], tear_copy)
    wrap(shutil, 'copy2', lambda src, dst, *a, **k: [('W', _into(src, dst), None)], tear_copy)

    def audited(event, args):
        """a mutation that is not part of a wrapped call"""
        if state['depth']:
            return
        if event == 'open':
            path, mode, flags = (tuple(args) + (None, None, None))[:3]
            writing = (isinstance(flags, int) and flags & _WRITE_FLAGS) or (isinstance(mode, str) and set(mode) & set('wax+'))
            if not writing:
                return
            touched, tear = [('W', path, None)], (lambda: os.close(os.open(path, os.O_WRONLY | os.O_CREAT | os.O_TRUNC, 0o666)))
        elif event in ('os.rename', 'os.link'):
            src, dst, sfd, dfd = (tuple(args) + (None,) * 4)[:4]
            sfd, dfd = (None if sfd in (None, -1) else sfd), (None if dfd in (None, -1) else dfd)
            touched, tear = ([('R', src, sfd)] if event == 'os.rename' else []) + [('W', dst, dfd)], None
        elif event == 'os.symlink':
            src, dst, dfd = (tuple(args) + (None,) * 3)[:3]
            touched, tear = [('W', dst, None if dfd in (None, -1) else dfd)], None
        elif event in ('os.remove', 'os.rmdir'):
            path, dfd = (tuple(args) + (None,) * 2)[:2]
            touched, tear = [('R', path, None if dfd in (None, -1) else dfd)], None
        elif event == 'os.mkdir':
            path, _mode, dfd = (tuple(args) + (None,) * 3)[:3]
            touched, tear = [('W', path, None if dfd in (None, -1) else dfd)], None
        else:                                     # os.truncate
            touched, tear = [('W', args[0], None)], None
        perform(touched, None, tear)

    if not _AUDIT['installed']:
        sys.addaudithook(_audit_hook)
        _AUDIT['installed'] = True
    outer = _AUDIT['handler']
    _AUDIT['handler'] = audited
    try:
        yield state
    finally:
        _AUDIT['handler'] = outer
        for owner, attr, real in reversed(saved):
            setattr(owner, attr, real)


def run_interruptible(fn, directory, inj=None):
    """run fn() with the file-system events below `directory` traced and, with inj = {'k', 'torn', 'exc', 'after'},
    interrupted at event k.
    -> (returned, error, interruption, trace): `interruption` = None (fn ran to its end and nothing was injected) or
    {'p': number of MODEL EFFECTS performed before it, 'event': number of events performed before it, 'torn': the cache file
    of the interrupted effect was left half-written, 'unwind': model effects performed afterwards, 'by': 'kill' | name of the
    injected exception | 'femio:<exception raised by femio itself>', 'swallowed': the injected exception did not leave fn};
    `error` = text of an exception that left fn and is neither the injected one nor raised by an effect of the save (None
    otherwise); `trace` = the model effects performed before the interruption"""
    inj = inj or {}
    tr, unw, evs = [], [], []
    returned, escaped = None, None
    with effects(directory, crash_at=inj.get('k'), torn=bool(inj.get('torn')), trace=tr, exc=inj.get('exc'),
                 after=bool(inj.get('after')), unwind=unw, events=evs) as st:
        try:
            with contextlib.redirect_stdout(io.StringIO()):
                returned = fn()
        except BaseException as e:
            escaped = e
    LAST['events'], LAST['other'], LAST['hook_only'] = evs, st['foreign'], st['hook_only']
    by = 'kill' if inj.get('exc') is None else inj['exc']
    if st['fired'] is not None:
        intr = {'p': st['fired_effects'], 'event': st['fired'], 'torn': st['torn_done'], 'unwind': unw, 'by': by,
                'swallowed': escaped is None}
        err = None
        if escaped is not None and escaped is not st['injected'] and not isinstance(escaped, Crash):
            intr['replaced_by'] = f'{type(escaped).__name__}: {escaped}'     # raised by the clean-up code itself
        return returned, err, intr, tr
    if escaped is None:
        return returned, None, None, tr
    if isinstance(escaped, (KeyboardInterrupt, SystemExit)):
        raise escaped                       # not ours: a real Ctrl-C / exit of the check itself
    text = f'{type(escaped).__name__}: {escaped}'
    for before, e, effs in st['errors']:
        if e is escaped:                     # an event of the save itself failed and the exception left fn
            torn = any(kind == 'W' and name != 'sentinel' and (pathlib.Path(directory) / FNAME.get(name, name)).exists()
                       for kind, name in effs)
            intr = {'p': before, 'event': None, 'torn': torn, 'unwind': tr[before + len(effs):],
                    'by': 'femio:' + type(escaped).__name__, 'swallowed': False}
            return None, text, intr, tr[:before]
    # raised by femio between two events: everything traced counts as performed before it
    intr = {'p': len(tr), 'event': None, 'torn': False, 'unwind': [], 'by': 'femio:' + type(escaped).__name__,
            'swallowed': False}
    return None, text, intr, tr


LAST = {}     # events of the last run_interruptible call (diagnostics / the event list of a traced plan)


def n_effects(evs, n_events):
    """number of model effects among the first n_events events"""
    return sum(len(e) for e in evs[:n_events])


# ------------------------------------------------------------------ objects

NAMES_N = ['T', 'disp', 'solids', 'grids_x', 'data_x', 'hexa', 'x_ids', 'tetra']
NAMES_E = ['E', 'stress', 'voids', 'dataset', 'hex_flag', 'prism_ids']


EDITS = ['update', 'update_data', 'loc', 'iloc', 'data_frame']
VAR_KINDS = ['int64', 'int32', 'int8', 'uint8', 'uint16', 'uint64', 'bool', 'float32', 'float16', 'fortran', 'non-contiguous', 'square']


def edit_in_place(r, a, how, new, attrs=None, key=None):
    """one public in-place update of the FEMAttribute `a` (some rows get the values `new[j]`; ids and shape stay):
    FEMAttribute.update / FEMAttributes.update_data with allow_overwrite=True, a write through a .loc / .iloc slice,
    or the data_frame setter"""
    n = len(a.ids)
    rows = sorted(r.sample(range(n), len(new)))
    ids = np.array([a.ids[j] for j in rows])
    if how == 'update_data' and attrs is not None:
        attrs.update_data(ids, {key: new}, allow_overwrite=True)
    elif how in ('update', 'update_data'):
        a.update(ids, new, allow_overwrite=True)
    elif how == 'loc':
        a.loc[list(ids)].data = new
    elif how == 'iloc':
        a.iloc[rows].data = new
    elif how == 'data_frame':
        df = a.data_frame.copy()
        df.iloc[rows] = np.reshape(new, (len(rows), -1))
        a.data_frame = df
    else:
        raise ValueError(how)


def make_obj(r, tag, has_nodal_extra=True, has_elemental=True, has_constraints=True, types=None, drop_node_entry=False,
             ranks=(1, 2, 3), time_series=False, edits=None, series=None):
    """edits (a dict, filled in; exactness stream only): a share of the variables is stored under a dict key that differs
    from its FEMAttribute.name (incl. two keys sharing one name), constraints get a second variable of rank 1 / 3, and a
    share of the nodal / elemental / constraint variables goes through one public in-place update (EDITS) after it was
    attached - the object that is saved is the one these calls leave behind.
    time_series: the object also carries time series (FEMAttribute(..., time_series=True), data of shape (T, n, w)): a nodal
    one when it has nodal variables, an elemental one when it has elemental variables and one element type; `series`
    (a list, filled in): [family, key, shape per type]"""
    from femio import FEMAttribute, FEMAttributes
    types = types or r.choice([['tet'], ['hex'], ['tet', 'hex'], ['tet', 'tet2'], ['hex', 'hex2', 'prism'], ['tri', 'quad'],
                               ['line', 'tet', 'pyr']])
    m = mg.gen_combinatorial(r, types=types, max_elems=8)
    m['nodes'] = [(i, (p[0] + tag, p[1], p[2])) for i, p in m['nodes']]
    fd = mg.to_femio(m)
    nids = fd.nodes.ids
    n = len(nids)

    def vals(shape):
        a = np.array([r.choice([r.randint(-9, 9) + tag / 8, r.random() * tag, -0.0, 1e300, 5e-324]) for _ in range(int(np.prod(shape)))])
        return a.reshape(shape)

    def arr(k, rank):
        if edits is not None and r.random() < .3:
            # exactness stream: value kinds / memory layouts of a variable other than C-ordered float64, and the square shape
            # (width == number of rows)
            kind = r.choice(VAR_KINDS)
            shape = {1: (k,), 2: (k, k if kind == 'square' else r.choice([1, 3])), 3: (k, 3, 3)}[rank]
            edits.setdefault('variable kinds', []).append([kind, f'rank {rank}'])
            if kind == 'square':
                return vals(shape)
            if kind == 'fortran':
                return np.asfortranarray(vals(shape))
            if kind == 'non-contiguous':
                return vals(shape[:-1] + (2 * shape[-1],))[..., ::2]
            if kind == 'bool':
                return np.array([r.random() < .5 for _ in range(int(np.prod(shape)))]).reshape(shape)
            if kind.startswith('float'):
                return np.array([r.choice([r.randint(-9, 9) / 8 + tag, -0.0, 0.333]) for _ in range(int(np.prod(shape)))],
                                dtype=kind).reshape(shape)
            info = np.iinfo(kind)
            return np.array([r.choice([info.min, info.max, r.randint(max(info.min, -99), 99)]) for _ in range(int(np.prod(shape)))],
                            dtype=kind).reshape(shape)
        return vals({1: (k,), 2: (k, r.choice([1, 3])), 3: (k, 3, 3)}[rank])

    def attr_name(fam, key, pool):
        """FEMAttribute.name of the variable stored under the dict key `key` (the key unless `edits`)"""
        if edits is None or r.random() >= .4:
            return key
        name = r.choice(['shared', 'shared'] + [k for k in pool if k != key])
        edits.setdefault('key != FEMAttribute.name', []).append([fam, key, name])
        return name

    def attach(attrs, key, attribute):
        if edits is not None and r.random() < .5:
            attrs.update({key: attribute})
        else:
            attrs[key] = attribute

    def maybe_edit(fam, a, attrs=None, label=None):
        """a share of the variables goes through one public in-place update after it was attached"""
        if edits is None or a.time_series or a.data.dtype != np.float64 or r.random() >= .5:
            return
        how = r.choice(EDITS)
        new = vals((r.randint(1, len(a.ids)),) + tuple(a.data.shape[1:]))
        key = None if attrs is None else next(k for k, v in attrs.items() if v is a)
        edit_in_place(r, a, how, new, attrs, key)
        edits.setdefault('updated in place', []).append([fam, label or key, f'rank {len(a.data.shape)}', how])
    with contextlib.redirect_stdout(io.StringIO()):
        if has_nodal_extra:
            for name in r.sample(NAMES_N, r.randint(1, 2)):
                attach(fd.nodal_data, name, FEMAttribute(attr_name('nodal', name, NAMES_N), ids=nids, data=arr(n, r.choice(ranks)),
                                                         silent=True))
            if edits is not None and r.random() < .15:
                # an ORDINARY variable whose name is / ends with the word the key of the flag ends with
                key = r.choice(['time_series', 'my_time_series'])
                attach(fd.nodal_data, key, FEMAttribute(key, ids=nids, data=arr(n, r.choice(ranks)), silent=True))
                edits.setdefault('ordinary variable named like the flag key', []).append(key)
            if time_series:
                # T = n: the shape alone looks like ordinary (n, n, w) tensor data
                key = r.choice([k2 for k2 in ('ts', 'time_series', 'T_series') if k2 not in fd.nodal_data])
                T, w = r.choice([1, 2, 3, 3, n]), r.choice([1, 3])
                fd.nodal_data[key] = FEMAttribute(key, ids=nids, data=np.stack([vals((n, w)) for _ in range(T)]),
                                                  silent=True, time_series=True)
                if series is not None:
                    series.append(['nodal', key, [T, n, w]])
        if has_elemental:
            eids = fd.elements.ids
            for name in r.sample(NAMES_E, r.randint(1, 2)):
                from femio import FEMElementalAttribute
                rank = r.choice([2, 3])
                aname = attr_name('elemental', name, NAMES_E)
                attach(fd.elemental_data, name, FEMElementalAttribute(aname, {
                    t: FEMAttribute(aname, ids=v.ids, data=arr(len(v.ids), rank), silent=True)
                    for t, v in fd.elements.items()}))
            if time_series and len(fd.elements.keys()) == 1 and (not has_nodal_extra or r.random() < .7):
                # (one element type: femio cannot even build a FEMElementalAttribute over several types from time series)
                from femio import FEMElementalAttribute
                key = r.choice(['ets', 'strain_series'])
                T, w = r.choice([1, 2, 3]), r.choice([1, 3])      # T == number of elements of a type happens by itself
                fd.elemental_data[key] = FEMElementalAttribute(key, {
                    t: FEMAttribute(key, ids=v.ids, data=np.stack([vals((len(v.ids), w)) for _ in range(T)]), silent=True,
                                    time_series=True) for t, v in fd.elements.items()})
                if series is not None:
                    series.append(['elemental', key, {t: [T, len(v.ids), w] for t, v in fd.elements.items()}])
        if has_constraints:
            sel = np.array(sorted(r.sample([int(i) for i in nids], r.randint(1, n))))
            d = arr(len(sel), 2)
            d = np.where(np.arange(d.size).reshape(d.shape) % 3 == 0, np.nan, d)
            attach(fd.constraints, 'boundary', FEMAttribute(attr_name('constraints', 'boundary', ['cload']), ids=sel, data=d, silent=True))
            if edits is not None and r.random() < .6:
                sel = np.array(r.sample([int(i) for i in nids], r.randint(1, n)))
                attach(fd.constraints, 'cload', FEMAttribute(attr_name('constraints', 'cload', ['boundary']), ids=sel,
                                                             data=arr(len(sel), r.choice([1, 3])), silent=True))
        if edits is not None:
            for k, a in list(fd.nodal_data.items()):
                if k != 'NODE':
                    maybe_edit('nodal', a, fd.nodal_data)
            for k, ea in list(fd.elemental_data.items()):
                for t, a in ea.items():
                    maybe_edit('elemental', a, None, f'{k}[{t}]')
            for k, a in list(fd.constraints.items()):
                maybe_edit('constraints', a, fd.constraints)
        fd.settings.update({'tag': tag, 'label': f'run {tag} / a b', 'scale': 1.5 * tag, 'flag': bool(tag % 2)})
        fd.settings.update(setting_kinds(r, tag))
        if r.random() < .6:
            fd.settings['solution_type'] = r.choice(['HEAT', 'STATIC', None])      # None: what the UCD / OBJ readers set
        if drop_node_entry and not has_nodal_extra:
            fd.nodal_data.pop('NODE')
    return fd, m


SETTING_KINDS = {
    # string-valued settings that are not one plain string
    'list of str': lambda r, t: [f'VAR{t}', 'U', 'TEMPERATURE'][: r.randint(2, 3)],
    'list of one str': lambda r, t: [f'only{t}'],
    'tuple of str': lambda r, t: (f'res{t}.0', 'res.1'),
    'str array 1-d': lambda r, t: np.array([f'p{t}', 'PART1', 'PART10']),
    'str array 2-d': lambda r, t: np.array([[f'a{t}', 'b'], ['c', 'dd']]),
    'multi-line str': lambda r, t: f'BOUNDARY, {t}\nLOAD, 1\n',
    'empty str': lambda r, t: '',
    'str with quotes / brackets': lambda r, t: f"['x{t}' 'y']",
    'non-ascii str': lambda r, t: f'\u6e29\u5ea6 {t} \u00b0C',
    # numbers
    'list of int': lambda r, t: [t, -3, 2 ** 40],
    'list of int + float': lambda r, t: [t, 0.5],
    'float array': lambda r, t: np.array([[0.25 * t, -0.0, 1e-300]]),
    'uint8 array': lambda r, t: np.array([t, 255], dtype=np.uint8),
    'bool array': lambda r, t: np.array([True, False, bool(t % 2)]),
    'float16 array': lambda r, t: np.array([t / 4, 0.333], dtype=np.float16),
    'negative int': lambda r, t: -t,
    'None': lambda r, t: None,
    'empty list': lambda r, t: [],
}
STR_SEQ = ['list of str', 'list of one str', 'tuple of str', 'str array 1-d', 'str array 2-d']


def setting_kinds(r, tag):
    """settings of further value kinds (every object: one sequence of strings + two or three other kinds)"""
    kinds = [r.choice(STR_SEQ)] + r.sample([k for k in SETTING_KINDS], r.randint(2, 3))
    return {'s_' + k.replace(' ', '_').replace('/', '').replace('-', '').replace('+', 'and'): SETTING_KINDS[k](r, tag)
            for k in dict.fromkeys(kinds)}


SKIPPED = collections.Counter()
SOURCES = {'ucd': ('mesh.inp', [['tet'], ['hex'], ['tet', 'hex'], ['tri', 'quad'], ['prism', 'hex']]),
           'fistr': ('mesh', [['tet'], ['hex'], ['tet', 'hex'], ['prism', 'hex'], ['tet2']]),       # mesh.msh + mesh.cnt
           'obj': ('mesh.obj', [['tri'], ['quad'], ['tri', 'quad']])}


def make_source(r, directory, tag, file_type='ucd', heat=False):
    """a source directory (AVS UCD / FrontISTR msh + cnt / Wavefront OBJ) and the reference parse; heat (FrontISTR only): a
    HEAT analysis, so that the settings of the parse differ from the defaults"""
    from femio import FEMData, FEMAttribute
    fname, pool = SOURCES[file_type]
    while True:
        types = r.choice(pool)
        m = mg.gen_combinatorial(r, types=types, max_elems=7, unref=False)
        m['nodes'] = [(i, (p[0] + tag, p[1], p[2])) for i, p in m['nodes']]
        fd = mg.to_femio(m)
        with contextlib.redirect_stdout(io.StringIO()):
            if file_type != 'obj':
                fd.nodal_data['T'] = FEMAttribute('T', ids=fd.nodes.ids, data=np.arange(len(fd.nodes.ids), dtype=float)[:, None] + tag,
                                                  silent=True)
            if heat:      # settings that differ from what a cache WITHOUT settings file yields (solution type, time steps)
                fd.settings['solution_type'] = 'HEAT'
                fd.settings['heat'] = np.array([[0.25 * tag, 8.0 + tag]])
            for f in directory.glob('mesh*'):
                f.unlink()
            fd.write(file_type, directory / fname)
            parse = FEMData.read_directory(file_type, directory, read_npy=False, save=False)
        if len(parse.elements) and len(parse.elements.ids):
            break
        # the OBJ writer exports the SURFACE: random facets that coincide pairwise leave a vertex-only file whose parse
        # has no element at all - outside the quantifier (uniform / mixed elements); another source is drawn
        SKIPPED['source whose parse has no element (outside the quantifier): skipped'] += 1
    return parse


def flags(fd):
    return (int(len(fd.nodal_data) > 0), int(len(fd.elemental_data) > 0), int(len(fd.constraints) > 0))


def observe_dir(directory, refs):
    out = []
    for f in FILES:
        dg = file_digest(directory / FNAME[f])
        if dg in ('a', 't'):
            out.append(dg)
        elif f == 'sentinel':
            out.append('s')
        else:
            tags = [str(t) for t, ref in refs.items() if ref[f] == dg]
            out.append(tags[0] if tags else 'x')
    return out


def match_returned(dg, objs):
    """which complete object (tag, mesh_only) the returned data equals, group by group"""
    for t, (od, _) in objs.items():
        if dg == od:
            return (t, False)
        mesh_only = dict(od, nodal={}, elemental={}, constraints={}, settings={})
        if dg == mesh_only:
            return (t, True)
    return None


_FULL = {}


def trace_plan(ctx, fd, mo):
    """the ordered effects of fd.save(save_mesh_only=mo) over a directory in which every cache file exists"""
    if 'fd' not in _FULL:
        import random
        _FULL['fd'] = make_obj(random.Random(5), 9, has_nodal_extra=True, has_elemental=True, has_constraints=True,
                               types=['tet'])[0]
    d = ctx.tmp / 'plan'
    if d.exists():
        shutil.rmtree(d)
    d.mkdir(parents=True)
    tr = Plan()
    with contextlib.redirect_stdout(io.StringIO()):
        _FULL['fd'].save(d)
        with effects(d, trace=tr, events=tr.events):
            fd.save(d, save_mesh_only=bool(mo))
    shutil.rmtree(d, ignore_errors=True)
    return tr


class Plan(list):
    """the model effects of a complete save, in order; .events: per file-system event below the cache directory (the
    interruption points) the list of its model effects ([]: an event that touches no cache file of the directory)"""

    def __init__(self, *a):
        super().__init__(*a)
        self.events = []


def enc_plan(tr):
    return f'{len(tr)} ' + ' '.join(f'{k} {f}' for k, f in tr)


def plan_good(ctx, tag, fl, mo, tr, case):
    """ask the model whether the traced plan satisfies the hypothesis of the *_plan theorems"""
    if any(f not in FILES for _k, f in tr):
        ctx.disagree('save() touches a femio_* file the model does not know', case, tr, None)
        return False
    rep = ctx.driver.ask(f'c05.good {tag} {fl[0]} {fl[1]} {fl[2]} {mo} {enc_plan(tr)}').split()
    if rep[0] != 'ok':
        raise RuntimeError('driver: ' + ' '.join(rep))
    ctx.count('plan:' + ('good' if rep[1] == '1' else 'NOT-good'))
    if rep[1] != '1':
        ctx.disagree('the traced effects of save() are not a plan accepted by GoodMid (sentinel removed first, created last, '
                     'not touched in between; every data file ends up written by this save or removed)', case, tr, 'GoodMid = false')
    return rep[1] == '1'


POISONS = ['reserved-key', 'unpicklable']


def poison(fd, how):
    """make fd.save() raise by itself while it writes the settings (the LAST data file): a settings key that collides with
    the `file` parameter of numpy.savez (TypeError before the file is created), or a value that cannot be pickled
    (numpy.savez leaves a settings file holding only the entries before it).  -> the key to remove again"""
    import threading
    if how == 'reserved-key':
        fd.settings['file'] = 'run.log'
        return 'file'
    fd.settings['zz_lock'] = threading.Lock()
    return 'zz_lock'


def op_injection(op):
    """the interruption an operation injects (None: none)"""
    if op[0] == 'crash':
        return {'k': op[3], 'torn': op[4], 'exc': None, 'after': 0}
    if op[0] == 'interrupt':
        return {'k': op[3], 'torn': int(op[4] and not op[6]), 'exc': op[5], 'after': op[6]}
    if op[0] == 'rcrash':
        return {'k': op[1], 'torn': op[2], 'exc': None, 'after': 0}
    if op[0] == 'rinterrupt':
        return {'k': op[1], 'torn': int(op[2] and not op[4]), 'exc': op[3], 'after': op[4]}
    return None


def random_op(r, step, prev):
    """read | save X [mesh-only] | crash X@k [torn] (process death) | interrupt X@k by an exception [torn | after the
    effect] | the same two inside the automatic save of a read | nsave (a save that raises by itself)"""
    def point():
        # the first effect (nothing done yet, an old cache still valid) and the last one (everything done) are the points
        # at which clean-up code is most likely to be wrong: over-weighted
        u = r.random()
        return (0 if u < .12 else -1 if u < .24 else r.randint(0, 11)), int(r.random() < .35)
    def a_read():
        # a third of the reads with non-default options: (read_mesh_only, read_npy, save)
        if r.random() < .65:
            return ('read',)
        return ('oread', int(r.random() < .7), int(r.random() < .8), int(r.random() < .7))
    if prev is not None and prev[0] in ('crash', 'interrupt', 'rcrash', 'rinterrupt', 'nsave') and r.random() < .5:
        return a_read()
    u = r.random()
    if step == 0 and r.random() < .25:          # only a read without cache saves: most useful as the first operation
        u = .93
    if u < .3:
        return a_read()
    if u < .5:
        return ('save', r.choice([2, 3]), int(r.random() < .25))
    if u < .68:
        k, torn = point()
        return ('crash', r.choice([2, 3]), int(r.random() < .2), k, torn)
    if u < .9:
        k, torn = point()
        after = int(not torn and r.random() < .4)
        return ('interrupt', r.choice([2, 3]), int(r.random() < .2), k, torn, r.choice(list(EXCS)), after)
    if u < .96:
        k, torn = point()
        if r.random() < .4:
            return ('rcrash', k, torn)
        return ('rinterrupt', k, torn, r.choice(list(EXCS)), int(not torn and r.random() < .4))
    return ('nsave', r.choice(POISONS))


def run_history(ctx, hid, ops_fixed=None, setup=None):
    """setup (sweeps): {'source': 'fistr-heat', 'full': every optional group of A and B non-empty}.
    -> {'fired': whether the interruption of the last injecting operation took place (False: its point lies beyond the last
    event of that save)}"""
    from femio import FEMData
    r = ctx.rng
    state0 = r.getstate()      # the objects of the history are a function of this state: kept in the case for the replay
    rng_state = [state0[0], list(state0[1]), state0[2]]
    setup = dict(setup or {})
    out = {'fired': None}
    d = ctx.tmp / f'h{hid}'
    if d.exists():
        shutil.rmtree(d)
    d.mkdir(parents=True)
    u = r.random()
    ft = 'ucd' if u < .55 else 'fistr' if u < .85 else 'obj'
    heat = ft == 'fistr' and r.random() < .6
    if setup.get('source') == 'fistr-heat':
        ft, heat = 'fistr', True
    ctx.count('source:' + ft + (' (HEAT: settings differ from the defaults)' if heat else ''))
    parse = make_source(r, d, 1, ft, heat=heat)
    with contextlib.redirect_stdout(io.StringIO()):      # what a mesh-only parse of the source gives (nothing is written)
        parse_mesh = mesh_digest(digest(FEMData.read_directory(ft, d, read_npy=False, save=False, read_mesh_only=True)))
    full = bool(setup.get('full'))
    # time series are objects like every other: a third of the saved objects carries a nodal / elemental one (the draw is made
    # on every tree; a tree whose key scheme has no place for the flag - ts_flag() == 0, known finding F6d, reported by the
    # exactness stream - cannot load what it saved, so there the objects of the histories stay without, and it is counted)
    ts_a, ts_b = r.random() < .35, r.random() < .35
    if not ts_flag():
        ctx.count('history objects: time series left out (this tree writes no time_series key: F6d)', int(ts_a) + int(ts_b))
        ts_a = ts_b = False
    sers = {2: [], 3: [], 4: []}
    A, _ = make_obj(r, 2, has_nodal_extra=r.random() < .8 or full, has_elemental=r.random() < .6 or full,
                    has_constraints=r.random() < .6 or full,
                    types=r.choice([['tet'], ['hex'], ['tet', 'hex']]), drop_node_entry=r.random() < .3, time_series=ts_a,
                    series=sers[2])
    B, _ = make_obj(r, 3, has_nodal_extra=r.random() < .5 or full, has_elemental=r.random() < .4 or full,
                    has_constraints=r.random() < .4 or full,
                    types=r.choice([['tet'], ['hex', 'prism']]), drop_node_entry=r.random() < .5, time_series=ts_b,
                    series=sers[3])
    for t2 in (2, 3):
        for fam, _key, _shape in sers[t2]:
            ctx.count(f'history objects: {fam} time series')
    objs_fd = {1: parse, 2: A, 3: B}
    objs = {t: (digest(fd), flags(fd)) for t, fd in objs_fd.items()}
    refs = {t: ref_file_digests(fd) for t, fd in objs_fd.items()}
    model_dir = ['a'] * 7
    model_on = True        # after a disagreement the history continues on the real code (oracle only)
    # what a read may return: the parse of the source, or an object a save of which (mesh-only or not) was at least started
    attempted = {(1, False)}
    op_events = []
    plans = {}
    poisoned = {}

    traces = {}

    def traced(t, mo):
        """the ordered effects of a complete save of object t (needs no model)"""
        if (t, mo) not in traces:
            key = None
            if t == 4:      # the plan of the poisoned object is the plan of the same object without the poisonous entry
                key = poisoned['key']
                val = objs_fd[4].settings.pop(key)
            traces[(t, mo)] = trace_plan(ctx, objs_fd[t], mo)
            if key is not None:
                objs_fd[4].settings[key] = val
        return traces[(t, mo)]

    def plan(t, mo):
        if (t, mo) not in plans:
            tr = traced(t, mo)
            plans[(t, mo)] = (tr, plan_good(ctx, t, objs[t][1], mo, tr, {'object': t, 'mesh_only': mo,
                                                                          'flags': list(objs[t][1])}))
        return plans[(t, mo)]

    def need_poisoned(how):
        """object 4: an ordinary object whose save() raises by itself while writing the settings"""
        if poisoned.get('how') != how:
            if 4 not in objs_fd:
                N, _ = make_obj(r, 4, has_nodal_extra=True, has_elemental=r.random() < .5, has_constraints=r.random() < .5,
                                types=r.choice([['tet'], ['hex']]), time_series=bool(ts_flag()) and r.random() < .35,
                                series=sers[4])
                objs_fd[4] = N
            elif 'key' in poisoned:
                objs_fd[4].settings.pop(poisoned['key'])
            poisoned['key'] = poison(objs_fd[4], how)
            poisoned['how'] = how
            objs[4] = (digest(objs_fd[4]), flags(objs_fd[4]))
            refs[4] = ref_file_digests(objs_fd[4])
            plans.pop((4, 0), None)
            traces.pop((4, 0), None)
    n_ops = r.randint(1, ctx.n(6, 10)) if ops_fixed is None else len(ops_fixed)
    hist = []
    for step in range(n_ops):
        op = tuple(ops_fixed[step]) if ops_fixed is not None else random_op(r, step, hist[-1] if hist else None)
        is_read = op[0] in ('read', 'rcrash', 'rinterrupt', 'oread')
        ropt = {'read_mesh_only': bool(op[1]), 'read_npy': bool(op[2]), 'save': bool(op[3])} if op[0] == 'oread' else \
            {'read_mesh_only': False, 'read_npy': True, 'save': True}
        if op[0] == 'nsave':
            need_poisoned(op[1])
        t, mo = (1, 0) if is_read else (4, 0) if op[0] == 'nsave' else (op[1], op[2])
        ki = {'crash': 3, 'interrupt': 3, 'rcrash': 1, 'rinterrupt': 1}.get(op[0])
        if ki is not None and op[ki] < 0:      # interruption point counted from the end of this save (-1: its last event)
            op = op[:ki] + (max(0, len(traced(t, mo).events) + op[ki]),) + op[ki + 1:]
        elif ki is not None and ops_fixed is None and len(traced(t, mo).events) > 12:
            # random points are drawn from 0..11 (a save of the current code has <= 12 events); a save with more events (a
            # staging directory, temporary names ...) gets points over ALL of them, the first / last staying over-weighted
            n_ev = len(traced(t, mo).events)
            op = op[:ki] + (op[ki] if op[ki] == 0 else r.randrange(n_ev),) + op[ki + 1:]
        hist.append(list(op))
        if not is_read:
            attempted.add((t, bool(mo)))
        inj = op_injection(op)
        before = observe_dir(d, refs)
        if is_read:
            def fn(ropt=ropt):
                return FEMData.read_directory(ft, d, **ropt)
        else:
            def fn(t=t, mo=mo):
                objs_fd[t].save(d, save_mesh_only=bool(mo))
        returned, err, intr, done = run_interruptible(fn, d, inj)
        after = observe_dir(d, refs)
        op_events.append([' + '.join(f'{k2} {f}' for k2, f in e) or '-' for e in LAST.get('events', [])])
        case = {'history': hist[:], 'flags': {str(t2): list(o[1]) for t2, o in objs.items()}, 'setup': setup,
                'time_series': {str(t2): v for t2, v in sers.items() if v},
                'events_performed_per_operation (- = touches no cache file of the directory)': op_events[:],
                'rng_state': rng_state}
        if inj is not None:
            out['fired'] = intr is not None
        served_from_cache = is_read and before[6] == 's' and ropt['read_npy']
        ctx.case((hid, step), sample={'op': list(op), 'dir_before': before, 'dir_after': after,
                                      **({'interrupted': {k2: v for k2, v in intr.items() if k2 != 'unwind'},
                                          'effects_while_unwinding': intr['unwind']} if intr else {})},
                 nontrivial=(before != after) or served_from_cache)
        ctx.count('op:' + op[0] + ('/cache' if served_from_cache else ''))
        if op[0] == 'oread':
            ctx.count('read options: ' + ', '.join(f'{k2}={v}' for k2, v in ropt.items()))
            ctx.count('mesh-only read: ' + ('sentinel present' if before[6] == 's' else 'no sentinel, node + element files present'
                                            if before[0] != 'a' and before[1] != 'a' else 'no sentinel')
                      if ropt['read_mesh_only'] else 'read with other options')
        if intr is not None:
            ctx.count('interrupted-by:' + intr['by'] + (' (did not leave the call)' if intr['swallowed'] else ''))
            where = 'first-read auto-save' if is_read else 'save over a complete cache' if before[6] == 's' else 'save'
            ctx.count(f'interrupted: {where}, ' + ('process death' if intr['by'] == 'kill' else 'exception'))
            ctx.count(f'effects while unwinding: {len(intr["unwind"])}')
            if inj is not None:
                at = traced(t, mo).events[inj['k']: inj['k'] + 1]
                ctx.count('interrupted at: ' + ('an event that touches a cache file' if at and at[0] else
                                                'an event that touches no cache file (staging / temporary name / clean-up)'))
        if LAST.get('hook_only'):
            ctx.count('events seen by the audit hook only (no wrapped call)', LAST['hook_only'])
        elif inj is not None:
            ctx.count('interruption point beyond the last effect' if not served_from_cache else 'read served from cache: nothing to interrupt')
        # ---------------- oracle
        got = None
        if is_read and returned is not None and ropt['read_mesh_only']:
            # a mesh-only read: the node table and the element tables of ONE object - the (mesh-only) parse of the source or an
            # object a save of which was at least started in this history
            dg_ret = digest(returned)
            md_ret = mesh_digest(dg_ret)
            cands = [t2 for t2, (od, _f) in objs.items() if mesh_digest(od) == md_ret]
            if md_ret == parse_mesh and 1 not in cands:
                cands.append(1)
            got = ('mesh', sorted(cands))
            if not any((t2, mo2) in attempted for t2 in cands for mo2 in (False, True)):
                whose = {g: [t2 for t2, (od, _f) in objs.items() if od[g] == md_ret[g]] for g in ('nodes', 'elements')}
                ctx.fail('partial-cache-loaded', 'read_directory(read_mesh_only=True) returned a mesh that is neither the parse of the '
                         f'source nor the mesh of one completely saved object (cache files before the read: {dict(zip(FILES, before))}; '
                         f'the returned node table is that of object {whose["nodes"] or "?"}, the element tables those of object '
                         f'{whose["elements"] or "?"}; 1 = the source)', case, {'dir': before, 'read_options': ropt})
                return out
            ctx.count('mesh-only read returns: ' + ('source' if 1 in cands else 'saved-object'))
        elif is_read and returned is not None:
            dg_ret = digest(returned)
            got = match_returned(dg_ret, objs)
            if got is None or got not in attempted:
                # (an object that equals the mesh-only part of X although no mesh-only save of X was ever started is X with
                # its data / settings lost, not a complete cache)
                near = [f'object {t2}: ' + ', '.join(g for g in od if od[g] != dg_ret[g]) + ' differ' for t2, (od, _f) in objs.items()
                        if od['nodes'] == dg_ret['nodes'] and od['elements'] == dg_ret['elements']]
                ctx.fail('partial-cache-loaded', f'read_directory returned data that is neither the parse of the source nor one '
                         f'completely saved object (cache files before the read: {dict(zip(FILES, before))}'
                         + (f'; returned = {"; ".join(near)}' if near else '') + ')', case,
                         {'dir': before, 'settings_returned': dg_ret['settings']})
                return out
            ctx.count(f'read-returns:{"source" if got[0] == 1 else "saved-object"}{"(mesh-only)" if got[1] else ""}')
            st_want, st_got = solution_type_of(objs_fd[got[0]].settings), solution_type_of(returned.settings)
            if not got[1] and st_want != st_got and not out.get('solution_type_reported'):
                # every group equals object got[0] once absent / None / 'STATIC' are identified; literally the setting differs
                out['solution_type_reported'] = True
                ctx.count(f'solution_type of a cached read: {st_want} -> {st_got}')
                ctx.fail(SOLUTION_TYPE_SIG, f'read_directory({ft!r}) served from the cache returned settings[\'solution_type\'] = '
                         f'{st_got} where ' + ('parsing the source files gives ' if got[0] == 1 else 'the saved object had ')
                         + st_want, case, {'parsed_or_saved': st_want, 'cached_read': st_got, 'dir': before})
        elif is_read and err is not None:
            ctx.fail('read-raises', f'read_directory raised {err} after history {hist}', case, {'dir': before})
            return out
        elif op[0] in ('save', 'crash', 'interrupt') and err is not None:
            ctx.fail('save-raises', f'save() of an ordinary object raised {err} by itself', case, {'dir': before})
            return out
        elif op[0] == 'nsave':
            ctx.count(f'save raises by itself ({op[1]}): ' + (err.split(':')[0] if err else 'NOT RAISED'))
        # ---------------- correspondence
        if ctx.driver is not None and model_on:
            def obj(t2):
                return f'{t2} {objs[t2][1][0]} {objs[t2][1][1]} {objs[t2][1][2]}'
            md = ' '.join(model_dir)
            tr, good = plan(t, mo)
            if not good:
                model_on = False
                continue
            # nominal interruption point of an injected interruption (so that the model, not the observation, decides
            # what a point beyond the last effect means); observed point of one raised by femio itself
            if inj is not None:
                # k counts EVENTS; the model counts the effects on the cache files among them
                p = n_effects(tr.events, inj['k'] + (1 if inj['after'] else 0))
                torn = int(intr['torn']) if intr else 0       # whether a cache file really was left half-written
                unw = intr['unwind'] if intr else []
            elif intr is not None:
                p, torn, unw = intr['p'], int(intr['torn']), intr['unwind']
            if intr is not None and (done != tr[:len(done)] or any(f not in FILES for _k, f in unw)
                                     or (inj is not None and len(done) != p)):
                ctx.disagree('the effects performed before the interruption are not a prefix of the traced plan of this save',
                             case, {'performed': done, 'then': unw}, {'plan': tr})
                model_on = False
                continue
            if op[0] == 'oread' and intr is None:
                line = f'c05.oread 0 {op[1]} {op[2]} {op[3]} {md} {obj(1)} {enc_plan(tr)}'
            elif inj is None and intr is None:
                line = (f'c05.gstep {md} read {obj(1)} {enc_plan(tr)}' if is_read else
                        f'c05.gstep {md} save {obj(t)} {mo} {enc_plan(tr)}')
            elif op[0] == 'crash':
                line = f'c05.gstep {md} crash {obj(t)} {mo} {p} {torn} {enc_plan(tr)}'
            elif is_read:
                line = f'c05.ustep {md} rinterrupt {obj(1)} {p} {torn} {enc_plan(tr)} {enc_plan(unw)}'
            else:
                line = f'c05.ustep {md} interrupt {obj(t)} {mo} {p} {torn} {enc_plan(tr)} {enc_plan(unw)}'
            rep = ctx.driver.ask(line).split()
            if rep[0] != 'ok':
                raise RuntimeError('driver: ' + ' '.join(rep))
            new_dir = rep[1:8]
            model_dir = new_dir
            ret = rep[8:15]
            if line.startswith('c05.ustep'):
                ctx.count('unwind:' + ('good' if rep[8] == '1' else 'NOT-good'))
                ret = rep[9:16]
                if rep[8] != '1':
                    ctx.disagree('the effects performed while the exception unwinds the stack are not accepted by GoodUnwind '
                                 '(none creates the sentinel; no data file is touched while the sentinel may exist): hypothesis '
                                 'of the *_unwind theorems', case, {'interrupted': {k2: v for k2, v in intr.items()}},
                                 'GoodUnwind = false')
                    model_on = False
                    continue

            def cn(f, c):      # sentinel: present or not; 'x' (readable, but not a complete file of any object) = torn
                return 's' if (f == 'sentinel' and c not in 'at') else 't' if c == 'x' else c
            obs = [cn(f, c) for f, c in zip(FILES, after)]
            mod = [cn(f, c) for f, c in zip(FILES, new_dir)]
            if obs != mod:
                ctx.disagree('directory after ' + op[0], case, dict(zip(FILES, obs)), dict(zip(FILES, mod)))
                model_on = False
                continue
            if is_read and returned is not None and ropt['read_mesh_only']:
                # the model says whose node / element files were loaded (or the tag of the source: parsed)
                m_tags = [int(c) if c not in 'at' else c for c in ret[:2]]
                if m_tags[0] != m_tags[1] or m_tags[0] not in got[1]:
                    ctx.disagree('mesh returned by a mesh-only read', case, got, {'model': ret})
                    model_on = False
            elif is_read and returned is not None:
                # the model says whose files were loaded; a coherent model result names one (tag, mesh_only)
                tags = {c for f, c in zip(FILES, ret) if c not in 'at'}
                m_mesh_only = ret[5] == 'a'
                m_got = (int(next(iter(tags))), m_mesh_only) if len(tags) == 1 else None
                if m_got != got:
                    ctx.disagree('object returned by read', case, got, {'model': ret})
                    model_on = False
    return out


def exactness(ctx, k):
    """save -> load reproduces every group exactly"""
    from femio import FEMData
    r = ctx.rng
    state = r.getstate()      # the whole case is a function of (k, this state): kept in the case for the replay
    d = ctx.tmp / f'x{k}'
    d.mkdir(parents=True)
    if r.random() < .3:          # save() creates the (nested) target directory itself
        d = d / 'new' / 'cache dir'
        ctx.count('exactness: target directory does not exist yet')
    edits = {}
    ts = r.random() < .2
    poly = (not ts) and r.random() < .15
    series = []
    if poly:
        m = mg.gen_geometric(r, kind=r.choice(['tet', 'hex']), max_cells=1, jitter=False, unref=False)
        fd = mg.quiet(mg.to_femio(m).to_polyhedron)
        fd.settings.update({'tag': 9, 'name': 'poly mesh'})
        kind = 'polyhedron'
    else:
        hn, he = r.random() < .85, r.random() < .7
        # (an elemental time series needs a mesh of one element type: 60% of the time-series cases have one)
        single = ts and r.random() < .6
        fd, m = make_obj(r, 4 + k % 5, has_nodal_extra=hn or ts, has_elemental=he or single,
                         has_constraints=r.random() < .5, time_series=ts, edits=edits, series=series,
                         types=[r.choice(['tet', 'hex', 'tri', 'quad', 'tet2', 'prism', 'pyr'])] if single else None)
        kind = '+'.join(m['blocks'])
    key_tie(ctx, fd)
    want = digest(fd)
    case = {'kind': kind, 'time_series': ts, 'series (family, key, [T, n, w])': series, 'time_series_key_written_by_this_tree': ts_flag(),
            'nodal': list(fd.nodal_data.keys()), 'elemental': list(fd.elemental_data.keys()),
            'constraints': list(fd.constraints.keys()), **edits,
            'shapes': {g: {k2: list(np.shape(v.data)) for k2, v in getattr(fd, g).items()} for g in ('nodal_data', 'constraints')},
            'mesh': mg.to_json(m), 'exactness_case': k, 'rng_state': [state[0], list(state[1]), state[2]]}
    ctx.case(('exact', k), sample={k2: case[k2] for k2 in ('kind', 'time_series', 'nodal', 'elemental', 'constraints', *edits)},
             nontrivial=True)
    ctx.count('exactness:' + ('time-series' if ts else 'polyhedron' if poly else ('mixed' if '+' in kind else 'uniform')))
    for fam, _key, shape in series:
        shapes = [shape] if fam == 'nodal' else list(shape.values())
        ctx.count(f'exactness: {fam} time series' + (', T == number of ids (shape looks like tensor data)'
                                                     if any(sh[0] == sh[1] for sh in shapes) else ''))
    for k2 in fd.settings:
        if k2.startswith('s_'):
            ctx.count('exactness: setting kind: ' + k2[2:].replace('_', ' '))
    for key in edits.get('ordinary variable named like the flag key', []):
        ctx.count('exactness: ordinary nodal variable named ' + key)
    for fam, key, name in edits.get('key != FEMAttribute.name', []):
        ctx.count(f'exactness: key != FEMAttribute.name: {fam}' + (' (shared name)' if name == 'shared' else ''))
    for kind2, rank in edits.get('variable kinds', []):
        ctx.count(f'exactness: variable kind: {kind2}')
    for fam, key, rank, how in edits.get('updated in place', []):
        ctx.count(f'exactness: updated in place before save: {fam} {rank} by {how}')
    try:
        with contextlib.redirect_stdout(io.StringIO()):
            fd.save(d)
            back = FEMData.read_npy_directory(d)
    except Exception as e:
        sig = 'load-raises:' + ('time-series' if ts else 'substring-type' if any(a in b and a != b for a in m['blocks'] for b in m['blocks']) else 'other')
        ctx.fail(sig, f'save -> load of a {kind} mesh (nodal {case["nodal"]}, elemental {case["elemental"]}'
                 + (f', time series {series}; this tree writes {"a" if ts_flag() else "NO"} time_series key' if ts else '')
                 + f') raised {type(e).__name__}: {e}', case, None)
        return
    got = digest(back)
    for g in want:
        if got[g] != want[g]:
            sig = f'load-differs:{g}' + (':time-series' if ts else '')
            note = ''
            if ts and not ts_flag() and g in ('nodal', 'elemental'):
                # the two-key scheme has no place for the flag (F6d): where T happens to equal the number of ids the length test
                # of the loader passes and the series comes back as ordinary (n, n, w) data - the same defect, same signature
                sig = F6D_SIG
                note = ' (this tree writes no time_series key: the flag cannot come back - F6d)'
            ctx.fail(sig, f'save -> load changed the {g} of a {kind} mesh' + first_diff(want[g], got[g]) + note, case,
                     {'want': repr(want[g])[:400], 'got': repr(got[g])[:400]})
            return
    # the same cache loaded with read_mesh_only=True: the node and element tables (and the face table of polyhedral data)
    try:
        with contextlib.redirect_stdout(io.StringIO()):
            mesh_back = digest(FEMData.read_npy_directory(d, read_mesh_only=True))
    except Exception as e:
        ctx.fail('load-raises:mesh-only', f'save -> read_npy_directory(read_mesh_only=True) of a {kind} mesh raised {type(e).__name__}: {e}',
                 case, None)
        return
    for g in ('nodes', 'elements') + (('elemental',) if poly else ()):
        w2 = {k2: v for k2, v in want[g].items() if k2 == 'face'} if g == 'elemental' else want[g]
        g2 = {k2: v for k2, v in mesh_back[g].items() if k2 == 'face'} if g == 'elemental' else mesh_back[g]
        if w2 != g2:
            ctx.fail(f'load-differs:mesh-only:{g}', f'save -> load with read_mesh_only=True changed the {g} of a {kind} mesh', case,
                     {'want': repr(w2)[:400], 'got': repr(g2)[:400]})
            return
    st_want, st_got = solution_type_of(fd.settings), solution_type_of(back.settings)
    ctx.count(f'exactness: solution_type saved {st_want}, loaded {st_got}')
    if st_want != st_got:
        ctx.fail(SOLUTION_TYPE_SIG, f"save -> load of a {kind} mesh whose settings['solution_type'] is {st_want} returned {st_got}",
                 case, {'saved': st_want, 'loaded': st_got})


def first_diff(want, got):
    """which variable differs and how (keys / ids / data shape / values), for the message"""
    if not (isinstance(want, dict) and isinstance(got, dict)):
        return ''
    if sorted(want) != sorted(got):
        return f': variables saved {sorted(want)}, loaded {sorted(got)}'
    k = next(k for k in want if want[k] != got[k])
    w, g = want[k], got[k]
    if isinstance(w, dict):      # elemental: per element type
        if sorted(w) != sorted(g):
            return f': {k!r} saved for types {sorted(w)}, loaded for {sorted(g)}'
        t = next(t for t in w if w[t] != g[t])
        k, w, g = f'{k}[{t}]', w[t], g[t]
    if not (isinstance(w, tuple) and len(w) == 3 and isinstance(w[1], tuple)):
        return f': {k!r}'
    if w[0] != g[0]:
        return f': ids of {k!r} differ'
    if w[1][1] != g[1][1]:
        return f': data of {k!r} had shape {w[1][1]} when saved, {g[1][1]} after loading'
    if w[2] != g[2]:
        return f': {k!r} had time_series={w[2]} when saved, time_series={g[2]} after loading'
    return f': values of {k!r} differ'


def real_kind(k):
    """how FEMAttribute.from_dict of the tree classifies the key k: 's' the time_series flag, 'i' ids, 'd' data, 'x' none of
    them (it raises) - found from its behaviour on three dicts in which k is the only key of unknown kind"""
    from femio import FEMAttribute
    trials = (('i', {k: np.array([1]), 'zz/data': np.array([2.])}, lambda a: int(a.ids[0]) == 1 and not a.time_series),
              ('d', {k: np.array([2.]), 'zz/ids': np.array([1])}, lambda a: float(a.data[0]) == 2. and not a.time_series),
              ('s', {k: np.array(True), 'zz/ids': np.array([1]), 'zz/data': np.array([[[2.]]])}, lambda a: bool(a.time_series)))
    for kind, dic, ok in trials:
        try:
            with contextlib.redirect_stdout(io.StringIO()):
                if ok(FEMAttribute.from_dict('x', dic, silent=True)):
                    return kind
        except Exception:
            pass
    return 'x'


def key_tie(ctx, fd):
    """tie T/D for Model/NpyKeys.lean: the keys femio writes (time series: the third key, on a tree that writes one -
    Cfg.tsFlag, see ts_flag) and how it splits / classifies them on load"""
    if ctx.driver is None:
        return
    from femio import FEMElementalAttribute
    f = ts_flag()
    ed = fd.elemental_data
    if len(ed) and all(isinstance(v, FEMElementalAttribute) for v in ed.values()):
        real = list(ed.to_dict().keys())
        line = f'c05k.todict {f} ' + C.enc_list(ed.items(), lambda nv: C.esc(nv[0]) + ' ' + C.enc_list(
            nv[1].items(), lambda ta: f'{C.esc(ta[0])} {int(bool(ta[1].time_series))}'))
        t = C.Toks(ctx.driver.ask(line))
        assert t.tok() == 'ok'
        model = [C.unesc(x) for x in t.lst(t.tok)]
        ctx.count('key-tie:elemental' + (' (with a time series)' if any(a.time_series for v in ed.values() for a in v.values()) else ''))
        if model != real:
            ctx.disagree('keys written for elemental data', {'names': list(ed.keys()), 'tsFlag': f}, real, model)
        # the per-type split of one variable, as femio does it now
        for name, v in ed.items():
            sub = {k: 0 for k in real if k.split('/')[0] == name}
            try:
                split = FEMElementalAttribute._split_dict_data(sub)
            except Exception as e:
                split = {'error': repr(e)}
            for ty in v.keys():
                t = C.Toks(ctx.driver.ask(f'c05k.split 1 {C.enc_list(sub.keys(), C.esc)} {C.esc(ty)}'))
                assert t.tok() == 'ok'
                m = [C.unesc(x) for x in t.lst(t.tok)]
                if list(split.get(ty, {}).keys()) != m:
                    ctx.disagree('entries selected for element type ' + ty, {'keys': list(sub)}, list(split.get(ty, {}).keys()), m)
    nd = fd.nodal_data
    real = list(nd.to_dict().keys())
    t = C.Toks(ctx.driver.ask(f'c05k.ntodict {f} ' + C.enc_list(nd.items(), lambda na: f'{C.esc(na[0])} {int(bool(na[1].time_series))}')))
    assert t.tok() == 'ok'
    model = [C.unesc(x) for x in t.lst(t.tok)]
    ctx.count('key-tie:nodal' + (' (with a time series)' if any(a.time_series for a in nd.values()) else ''))
    if model != real:
        ctx.disagree('keys written for nodal data', {'names': list(nd.keys()), 'tsFlag': f}, real, model)
    # classification of a key as time_series flag / ids / data by FEMAttribute.from_dict
    for k in real:
        t = C.Toks(ctx.driver.ask(f'c05k.kind 1 {f} {C.esc(k)}'))
        assert t.tok() == 'ok'
        mk = t.tok()
        rk = real_kind(k)
        ctx.count('key-tie: kind ' + rk)
        if rk != mk:
            ctx.disagree('classification of key ' + k, {'key': k, 'tsFlag': f}, rk, mk)


PROBE_KEYS = ['p/ids', 'p/data', 'p/time_series', 'time_series', 'ids', 'data', 'ts/time_series/ids', 'time_series/data',
              'p/tet/time_series', 'p/ids_time_series', 'p/time_series_ids', 'p/time_series_data', 'solids/data', 'p/series',
              'p/time_serie', 'p/Time_series', 'p/data/time_series', 'x_ids/tet2/ids', 'p/', 'p/idsx']


def from_dict_tie(ctx):
    """tie T for `attrFromDict`: (a) keys nobody writes (a kind word inside / in front / in another case ...) are classified
    by the tree as by the model, for the detected Cfg.tsFlag; (b) FEMAttribute.from_dict on dicts of 1-4 entries in every
    order: entries of a real to_dict of a time series and of an ordinary attribute, some dropped / doubled under another
    prefix / replaced by a key of no kind, the flag entry True or False.  Every value is an array of the kind its key has
    (checked in (a)), so that the arrays themselves are never the reason for an error: raises <-> none; else the ids, data and
    time_series of the attribute are those of the entries the model names"""
    if ctx.driver is None:
        return
    from femio import FEMAttribute
    f = ts_flag()
    ctx.extra['cfg_detected'] = ('three keys: time_series flag written for time series and honoured on load (Cfg.fixed)' if f else
                                 'two keys: no place for the time_series flag (Cfg.twoKey; known finding F6d)')
    kinds = {}
    for k in PROBE_KEYS:
        mk = C.Toks(ctx.driver.ask(f'c05k.kind 1 {f} {C.esc(k)}'))
        assert mk.tok() == 'ok'
        mk = mk.tok()
        kinds[k] = real_kind(k)
        ctx.count('from_dict-tie: probe key of kind ' + kinds[k])
        if kinds[k] != mk:
            ctx.disagree('classification of key ' + k, {'key': k, 'tsFlag': f}, kinds[k], mk)
            return
    r = ctx.rng
    pool = [k for k in PROBE_KEYS]
    for j in range(ctx.n(60, 300)):
        keys = r.sample(['p/ids', 'p/data', 'p/time_series'], r.randint(1, 3)) + r.sample(pool, r.choice([0, 0, 1, 2]))
        keys = list(dict.fromkeys(keys))
        r.shuffle(keys)
        entries, dic = [], {}
        for n, k in enumerate(keys):
            kd = kinds[k] if kinds[k] != 'x' else r.choice('ids')
            if kd == 's':
                tag = r.choice([1, 1, 0])
                dic[k] = np.array(bool(tag))
            elif kd == 'i':
                tag = 10 + n
                dic[k] = np.array([tag])
            else:
                tag = 20 + n
                dic[k] = np.full((1, 1, 1), float(tag))
            entries.append((k, tag))
        t = C.Toks(ctx.driver.ask(f'c05k.fromdict {f} ' + C.enc_list(entries, lambda e: f'{C.esc(e[0])} {e[1]}')))
        assert t.tok() == 'ok'
        model = None if t.tok() == 'none' else (t.nat(), t.nat(), t.nat())
        try:
            with contextlib.redirect_stdout(io.StringIO()):
                a = FEMAttribute.from_dict('x', dic, silent=True)
            real = (int(np.ravel(a.ids)[0]), int(np.ravel(a.data)[0]), int(bool(a.time_series)))
        except Exception as e:
            real, why = None, f'{type(e).__name__}: {e}'[:120]
        ctx.count(f'from_dict-tie: {len(entries)} entries -> ' + ('raises' if real is None else 'time series' if real[2] else 'attribute'))
        if real != model:
            ctx.disagree('FEMAttribute.from_dict', {'entries': entries, 'tsFlag': f}, real if real is not None else why,
                         model if model is not None else 'none')


def trace_tie(ctx):
    """tie T: the ordered effects of a real complete save, for every combination of empty / non-empty optional groups and
    save_mesh_only, are a plan accepted by GoodMid; whether it is also the order of `saveSteps Cfg.fixed` is recorded"""
    r = ctx.rng
    for hn in (0, 1):
        for he in (0, 1):
            for hc in (0, 1):
                for mo in (0, 1):
                    fd, _ = make_obj(r, 7, has_nodal_extra=bool(hn), has_elemental=bool(he), has_constraints=bool(hc),
                                     types=['tet'], drop_node_entry=True)
                    tr = trace_plan(ctx, fd, mo)
                    f = flags(fd)
                    ctx.case(('trace', hn, he, hc, mo), sample={'flags': f, 'mesh_only': mo, 'effects': tr}, nontrivial=True)
                    ctx.count('trace-tie')
                    if ctx.driver is not None:
                        plan_good(ctx, 7, f, mo, tr, {'flags': f, 'mesh_only': mo})
                        rep = ctx.driver.ask(f'c05.steps 1 1 7 {f[0]} {f[1]} {f[2]} {mo}').split()
                        ms = [(rep[2 + 2 * i], rep[3 + 2 * i]) for i in range(int(rep[1]))]
                        ctx.count('plan-order:' + ('same-as-saveSteps' if ms == tr else 'other-than-saveSteps'))
                    unwind_tie(ctx, fd, f, mo, tr)


def unwind_tie(ctx, fd, f, mo, tr):
    """tie T for the *_unwind theorems: the save of fd over a complete cache is left by an exception at EVERY effect
    (before it / right after it; the exceptions of EXCS in turn); the effects performed before must be the prefix of
    the traced plan, the effects the code performs while the stack unwinds (finally / except / __exit__) are traced
    and must be accepted by GoodUnwind (hypothesis of the theorems, evaluated by the driver)"""
    names = list(EXCS)
    d = ctx.tmp / 'plan'
    for k in range(len(tr.events)):
        for after in (0, 1):
            if d.exists():
                shutil.rmtree(d)
            d.mkdir(parents=True)
            with contextlib.redirect_stdout(io.StringIO()):
                _FULL['fd'].save(d)
            exc = names[(k + 2 * after) % len(names)]       # every effect: one BaseException, one ordinary Exception
            _ret, err, intr, done = run_interruptible(lambda: fd.save(d, save_mesh_only=bool(mo)), d,
                                                      {'k': k, 'torn': 0, 'exc': exc, 'after': after})
            case = {'flags': f, 'mesh_only': mo, 'interrupted_by': exc, 'at_event': k, 'after_the_event': after}
            ctx.count('unwind-tie')
            p = n_effects(tr.events, k + after)
            if intr is None and after and LAST.get('hook_only'):
                # the last event is one only the audit hook sees: "right after it" has no later event to be raised at
                ctx.count('unwind-tie: no event left to raise at')
                continue
            if intr is None or err is not None or intr['swallowed'] or done != tr[:p]:
                ctx.disagree('a save left by an exception at effect k performed something else than the first k effects of '
                             'its plan', case, {'performed': done, 'error': err, 'interruption': intr}, {'plan': tr})
                continue
            ctx.count(f'unwind-tie: effects while unwinding: {len(intr["unwind"])}')
            if ctx.driver is not None:
                if any(f2 not in FILES for _k, f2 in intr['unwind']):
                    ctx.disagree('clean-up touches a femio_* file the model does not know', case, intr['unwind'], None)
                    continue
                rep = ctx.driver.ask(f'c05.unwind {len(tr)} {p} {enc_plan(intr["unwind"])}').split()
                if rep[0] != 'ok':
                    raise RuntimeError('driver: ' + ' '.join(rep))
                if rep[1] != '1':
                    ctx.count('unwind-tie: NOT-good')
                    ctx.disagree('the effects performed while the exception unwinds the stack are not accepted by GoodUnwind '
                                 '(none creates the sentinel; no data file is touched while the sentinel may exist)', case,
                                 {'effects_while_unwinding': intr['unwind']}, 'GoodUnwind = false')
    shutil.rmtree(d, ignore_errors=True)


def interruptions(n_points, excs):
    """every way of interrupting at each of n_points effects: process death (plain / torn) and, per exception of
    `excs`, raised before the effect / after half-writing its file / right after the effect -> (kind-specific op tail)"""
    for k in range(n_points):
        for torn in (0, 1):
            yield ('kill', k, torn, None, 0)
        for e in excs:
            for torn, after in ((0, 0), (1, 0), (0, 1)):
                yield ('exc', k, torn, e, after)


def exhaustive_second_save(ctx):
    """every interruption (point x process death / exception x torn / after) x mesh-only of a second save over a
    complete first one, then a read; the same for the automatic save of a first read, then two reads"""
    n = 0
    n_points = max(12, len(trace_plan(ctx, _FULL['fd'], 0).events))
    for first_mo in (0, 1):
        for mo in (0, 1):
            for kind, k, torn, e, after in interruptions(n_points, ['KeyboardInterrupt', 'OSError']):
                op = ('crash', 3, mo, k, torn) if kind == 'kill' else ('interrupt', 3, mo, k, torn, e, after)
                run_history(ctx, f'e{first_mo}{mo}{k}{torn}{e}{after}',
                            ops_fixed=[('read',), ('save', 2, first_mo), op, ('oread', 1, 1, 1), ('read',)])
                n += 1
    for kind, k, torn, e, after in interruptions(n_points, ['KeyboardInterrupt', 'SystemExit', 'OSError', 'MemoryError']):
        op = ('rcrash', k, torn) if kind == 'kill' else ('rinterrupt', k, torn, e, after)
        run_history(ctx, f'r{k}{torn}{e}{after}', ops_fixed=[op, ('oread', 1, 1, 1), ('read',), ('read',)])
        n += 1
    for how in POISONS:
        for first in ([], [('read',)], [('save', 2, 0)], [('save', 3, 1)]):
            run_history(ctx, f'n{how}{len(first)}', ops_fixed=first + [('nsave', how), ('read',), ('read',)])
            n += 1
    ctx.extra['exhaustive_second_save_histories'] = n


def sweep(ctx):
    """EVERY interruption point of one save, whatever the save is made of: a process death before event k = 0, 1, 2, ...
    (until the point lies beyond the last event; W events alternately torn) of (a) a second save over the complete cache of
    another object, (b) the automatic save of a first read, (c) a mesh-only second save; then two reads.  Objects with every
    optional group non-empty and with settings that differ from what a cache without settings file yields (a FrontISTR HEAT
    source), so that EVERY missing file is observable."""
    setup = {'source': 'fistr-heat', 'full': True}
    mread = ('oread', 1, 1, 1)      # read_directory(read_mesh_only=True): writes nothing, so the default read after it sees the same files
    for name, mk in (('second-save', lambda k: [('save', 2, 0), ('crash', 3, 0, k, k % 2), mread, ('read',), ('read',)]),
                     ('first-read', lambda k: [('rcrash', k, k % 2), mread, ('read',), mread, ('read',)]),
                     ('mesh-only', lambda k: [('save', 2, 0), ('crash', 3, 1, k, k % 2), mread, ('read',)])):
        for k in range(64):
            res = run_history(ctx, f'w{name}{k}', ops_fixed=mk(k), setup=setup)
            shutil.rmtree(ctx.tmp / f'hw{name}{k}', ignore_errors=True)
            ctx.count('sweep:' + name)
            if not res or not res['fired']:
                break
        ctx.extra.setdefault('sweep_interruption_points', {})[name] = k


QUICK_FIXED = [
    # process death inside a second save (as before)
    [('save', 2, 0), ('crash', 3, 0, 1, 0), ('read',)],
    [('save', 2, 0), ('crash', 3, 0, 6, 0), ('read',)],
    [('save', 2, 0), ('crash', 3, 0, 8, 0), ('read',)],
    # the same points, left by an exception: BaseException and ordinary Exception, before / inside / after the effect
    [('save', 2, 0), ('interrupt', 3, 0, 1, 0, 'KeyboardInterrupt', 0), ('read',)],
    [('save', 2, 0), ('interrupt', 3, 0, 5, 1, 'OSError', 0), ('read',)],
    [('save', 2, 0), ('interrupt', 3, 0, 6, 0, 'SystemExit', 1), ('read',)],
    [('save', 2, 1), ('interrupt', 3, 1, 6, 0, 'OSError', 0), ('read',)],
    [('interrupt', 2, 0, 7, 0, 'MemoryError', 0), ('read',), ('read',)],
    # before the first effect / right after the last one of a save over a complete cache
    [('save', 2, 0), ('interrupt', 3, 0, 0, 0, 'KeyboardInterrupt', 0), ('read',)],
    [('save', 2, 0), ('interrupt', 3, 0, -1, 0, 'OSError', 1), ('read',)],
    # the automatic save of the first read is interrupted; the next two reads
    [('rcrash', 6, 1), ('read',), ('read',)],
    [('rinterrupt', 6, 0, 'KeyboardInterrupt', 0), ('read',), ('read',)],
    [('rinterrupt', 7, 1, 'OSError', 0), ('read',), ('read',)],
    # a save that raises by itself over the complete cache of another object
    [('save', 2, 0), ('nsave', 'unpicklable'), ('read',)],
    [('read',), ('nsave', 'reserved-key'), ('read',)],
    # reads with non-default options (read_mesh_only, read_npy, save) inside a history
    [('save', 2, 0), ('crash', 3, 0, 6, 0), ('oread', 1, 1, 1), ('read',)],
    [('read',), ('interrupt', 3, 0, 7, 1, 'OSError', 0), ('oread', 1, 1, 0), ('oread', 0, 1, 0), ('read',)],
    [('oread', 1, 1, 1), ('read',), ('oread', 1, 1, 0), ('oread', 0, 0, 1)],
    [('save', 2, 0), ('oread', 0, 0, 1), ('oread', 1, 0, 1), ('read',)],
    [('read',), ('save', 3, 1), ('oread', 0, 1, 0), ('oread', 1, 1, 1)],
    [('oread', 0, 1, 0), ('oread', 0, 0, 1), ('save', 2, 1), ('oread', 1, 1, 1)],
]


def run(ctx):
    SKIPPED.clear()
    _TS_FLAG.clear()
    try:
        run_streams(ctx)
    finally:
        for k, v in SKIPPED.items():
            ctx.count(k, v)


def probe_mesh_only_first_read(ctx):
    """a sequence of read_directory calls with a NON-default option first: read_directory(read_mesh_only=True) then a default
    read.  Clause 2 (a later read served from the cache returns the same data as parsing the source files) for "every sequence
    of read_directory / save calls": the second read must equal the parse of the source.  (Upstream: the first read saved a
    complete-looking cache of the mesh-only object and every later default read lost the nodal data of the source -
    findings/C05-mesh-only-first-read.md, fixed.)"""
    from femio import FEMData
    for k, fmt in enumerate(['ucd', 'fistr', 'ucd']):
        d = ctx.tmp / f'probe-mesh-only{k}'
        d.mkdir(parents=True)
        try:
            parse = make_source(ctx.rng, d, 1 + k % 2, fmt)
        except Exception:
            ctx.count('mesh-only-first-read: source could not be prepared')
            shutil.rmtree(d, ignore_errors=True)
            continue
        case = {'kind': 'mesh-only-first-read', 'format': fmt, 'sequence': ['read_directory(read_mesh_only=True)', 'read_directory()']}
        try:
            with contextlib.redirect_stdout(io.StringIO()):
                FEMData.read_directory(fmt, d, read_mesh_only=True)
                later = FEMData.read_directory(fmt, d)
            same = digest(later) == digest(parse)
            what = 'the cached mesh-only object (data of the source lost)'
        except Exception as e:
            same, what = False, f'raises {type(e).__name__}: {e}'[:200]
        ctx.case(('mesh-only-first-read', fmt, k), sample={**case, 'second_read_equals_parse': same}, nontrivial=True)
        ctx.count('mesh-only-first-read: later default read returns ' + ('the parse of the source' if same else what[:60]))
        if not same:
            ctx.fail('cache-not-transparent:after-mesh-only-read',
                     f'read_directory({fmt!r}, d, read_mesh_only=True) followed by read_directory({fmt!r}, d): the second read returns '
                     f'{what} instead of the parse of the source files', case, {'second_read': what})
        shutil.rmtree(d, ignore_errors=True)


def run_streams(ctx):
    ctx.count('tree: time_series key ' + ('written for time series (three-key scheme)' if ts_flag() else
                                          'NOT written (two-key scheme: F6d)'))
    from_dict_tie(ctx)
    trace_tie(ctx)
    for name, j in C.corpus_cases(PROP):
        ctx.count('corpus')
        run_history(ctx, 'c' + name, ops_fixed=[tuple(o) for o in j['history']])
    for h in range(ctx.n(60, 500)):
        run_history(ctx, h)
        shutil.rmtree(ctx.tmp / f'h{h}', ignore_errors=True)
    if not ctx.quick:
        exhaustive_second_save(ctx)
    for i, ops in enumerate(QUICK_FIXED):
        run_history(ctx, f'q{i}', ops_fixed=ops)
        shutil.rmtree(ctx.tmp / f'hq{i}', ignore_errors=True)
    sweep(ctx)
    for k in range(ctx.n(60, 500)):
        exactness(ctx, k)
        shutil.rmtree(ctx.tmp / f'x{k}', ignore_errors=True)
    probe_mesh_only_first_read(ctx)


def _same_class(obj, failures):
    """the failures of a replay that belong to the class the replay file was written for (its 'signature'; every failure when
    the file names none): a history may ALSO show an open known finding of another signature, which is listed separately"""
    sig = obj.get('signature')
    return [f for f in failures if sig is None or f['signature'] == sig]


def replay(ctx, obj):
    case = obj['input']
    if 'history' not in case and 'rng_state' in case:
        # exactness case: rebuild the object from the generator state it was drawn with, save -> load -> compare again
        v, internal, gauss = case['rng_state']
        ctx.rng.setstate((v, tuple(internal), gauss))
        before = len(ctx.failures)
        exactness(ctx, case['exactness_case'])
        new = [{k: f[k] for k in ('signature', 'what', 'observed')} for f in ctx.failures[before:]]
        return {'case': {k: v for k, v in case.items() if k not in ('rng_state', 'mesh')}, 'failures': _same_class(obj, new),
                'failures_of_other_signatures': [f for f in new if f not in _same_class(obj, new)], 'fails': bool(_same_class(obj, new))}
    if 'history' not in case:
        return {'fails': False, 'note': 'exactness case: re-run ./check C05 with VERIF_SEED=%s' % obj.get('seed')}
    before = len(ctx.failures)
    if 'rng_state' in case:      # the objects of the history are drawn from this generator state
        v, internal, gauss = case['rng_state']
        ctx.rng.setstate((v, tuple(internal), gauss))
    run_history(ctx, 'replay', ops_fixed=[tuple(o) for o in case['history']], setup=case.get('setup'))
    new = ctx.failures[before:]
    return {'failures': _same_class(obj, new), 'failures_of_other_signatures': sorted({f['signature'] for f in new} - {obj.get('signature')}),
            'fails': bool(_same_class(obj, new))}
