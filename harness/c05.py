"""C05 - native npy cache: exact, transparent, crash-safe (DESIGN.md section 4, C05).

Tie T+D: (a) the ordered file effects of a real `save` (unlink / np.savez / touch, traced by wrapping the
library calls, per object and save_mesh_only, over a directory in which every cache file already exists) must be a
plan accepted by the model's executable test `Femio.C05.GoodMid` - the hypothesis of the `*_plan` theorems, which hold
for EVERY order of the effects between the removal and the re-creation of the sentinel; whether the traced order also
equals `saveSteps Cfg.fixed` is recorded, not required; (b) random histories read | save X | crash X@k
(optionally torn inside the next np.savez) on a real temp directory: after every operation the directory
(per cache file: absent / torn / written from which object) and what a read returned are compared with the
directory machine.  Crash points are injected without touching /repo: the harness wraps numpy.savez,
Path.touch and Path.unlink and raises a BaseException before the k-th effect.
Oracle: a read returns the parse of the source or exactly one completely saved object; save -> load
reproduces every group exactly (digests over float.hex / ints / strings by id)."""
import contextlib
import io
import pathlib
import shutil

import numpy as np

from . import common as C
from . import meshgen as mg

PROP = 'C05'
LEAN_MODULES = ['Femio.Props.C05', 'Femio.Props.C05K']
THEOREMS = ['C05_full_save_plan', 'C05_crash_inv_plan', 'C05_history_inv_plan', 'C05_crash_safe_plan', 'mid_good',
            'C05_full_save', 'C05_crash_inv', 'C05_save_inv', 'C05_read_inv', 'C05_history_inv', 'C05_crash_safe',
            'C05_cache_transparent', 'C05_load_complete_save', 'C05_crash_counterexample_upstream',
            'C05_stale_counterexample_upstream', 'split_join', 'C05_keys_attr_roundtrip', 'C05_keys_roundtrip',
            'C05_keys_elements_roundtrip', 'C05_keys_elemental_collection_roundtrip',
            'C05_keys_counterexample_substring_type', 'C05_keys_counterexample_ids_in_name']
PARTIAL = ['key scheme theorems (C05_keys_*) treat array payloads as opaque tags: numpy.savez / numpy.load exactness is trusted; names / '
           'types containing "/" are excluded by hypothesis (femio itself cannot load them)',
           'torn writes inside one np.savez are modelled as "file present but unreadable" (a crash point), not byte-level',
           'read options other than the defaults (read_mesh_only, differing time_series) across one history are not modelled']
RULE = ('seeded histories (quick <= 6 ops, thorough <= 10) over read | save X [mesh-only] | crash X@k [torn] with three distinct '
        'objects (source parse, A, B) whose optional groups (nodal, elemental, constraints) are independently empty or not, on a '
        'real temp directory; thorough additionally enumerates ALL crash points x torn x mesh-only of a second save exhaustively; '
        'a case = one operation; non-trivial = the operation changed the directory or was a read served from the cache; plus a '
        'save->load exactness stream over uniform/mixed (incl. tet+tet2), ragged polyhedral, rank 1-3, string-valued settings; '
        'in that stream 40% of the nodal / elemental / constraint variables are stored under a dict key that differs from their '
        'FEMAttribute.name (incl. several keys sharing one name; attrs[key] = a or attrs.update({key: a})) and must load back '
        'under the key, and half of the variables (rank 1, 2, 3) go through one public in-place update before save() '
        '(FEMAttribute.update / FEMAttributes.update_data with allow_overwrite=True, a write through a .loc / .iloc slice, the '
        'data_frame setter); ids, data SHAPES and values (bit patterns) of what the object reports before save() are compared '
        'with what is loaded')
ASSUMPTIONS = ['a process death is modelled by a BaseException raised before (or, torn, in the middle of) the k-th file effect; '
               'effects already performed are durable, in order (no reordering by the OS)',
               "settings are compared after .item(); a missing / None 'solution_type' is identified with the default 'STATIC' "
               'that read_npy_directory fills in']
TRUSTED = ['C05: numpy.savez / numpy.load round-trip arrays exactly (third-party)']

FILES = ['nodes', 'elements', 'nodal', 'elemental', 'constraints', 'settings', 'sentinel']
FNAME = {'nodes': 'femio_nodes.npz', 'elements': 'femio_elements.npz', 'nodal': 'femio_nodal_data.npz',
         'elemental': 'femio_elemental_data.npz', 'constraints': 'femio_constraints.npz', 'settings': 'femio_settings.npz',
         'sentinel': 'femio_npy_saved.npy'}
RNAME = {v: k for k, v in FNAME.items()}


class Crash(BaseException):
    pass


def canon(a):
    a = np.asarray(a)
    if a.dtype == object:
        if a.shape == ():
            return ('o', repr(a.item()))
        return ('O', a.shape, [canon(x) for x in a.ravel()])
    k = a.dtype.kind
    if k == 'f':
        return ('f', a.shape, ['nan' if x != x else float(x).hex() for x in a.ravel().tolist()])
    if k in 'iu':
        return ('i', a.shape, a.ravel().tolist())
    if k == 'b':
        return ('b', a.shape, a.ravel().tolist())
    return ('s', a.shape, [str(x) for x in a.ravel().tolist()])


def attr_digest(a):
    from femio import FEMElementalAttribute
    if isinstance(a, FEMElementalAttribute):
        return {t: (canon(v.ids), canon(v.data)) for t, v in a.items()}
    return (canon(a.ids), canon(a.data))


def settings_digest(s):
    out = {}
    for k, v in s.items():
        if isinstance(v, np.ndarray) and v.shape == ():
            v = v.item()
        if k == 'solution_type' and (v is None or v == 'None' or v == 'STATIC'):
            continue
        out[k] = repr(canon(v)) if isinstance(v, np.ndarray) else repr(v)
    return out


def digest(fd):
    return {
        'nodes': attr_digest(fd.nodes),
        'elements': attr_digest(fd.elements),
        'nodal': {k: attr_digest(v) for k, v in fd.nodal_data.items() if k != 'NODE'},
        'elemental': {k: attr_digest(v) for k, v in fd.elemental_data.items()},
        'constraints': {k: attr_digest(v) for k, v in fd.constraints.items()},
        'settings': settings_digest(fd.settings),
    }


def file_digest(path):
    """content of a cache file: 'a' absent, 't' unreadable, else a canonical digest"""
    if not path.exists():
        return 'a'
    if path.name == FNAME['sentinel']:
        return 'sentinel'
    try:
        with np.load(path, allow_pickle=True) as z:
            return repr(sorted((k, canon(z[k])) for k in z.files))
    except Exception:
        return 't'


def ref_file_digests(fd):
    """what a complete save of fd puts into each cache file (from femio's own to_dict)"""
    def d(dic):
        return repr(sorted((k, canon(v)) for k, v in dic.items()))
    return {'nodes': d(fd.nodes.to_dict()), 'elements': d(fd.elements.to_dict()),
            'nodal': d(fd.nodal_data.to_dict()) if len(fd.nodal_data) else None,
            'elemental': d(fd.elemental_data.to_dict()) if len(fd.elemental_data) else None,
            'constraints': d(fd.constraints.to_dict()) if len(fd.constraints) else None,
            'settings': d({k: np.asarray(v) for k, v in fd.settings.items()})}


# ------------------------------------------------------------------ crash injection / tracing

@contextlib.contextmanager
def effects(directory, crash_at=None, torn=False, trace=None):
    """wrap numpy.savez, Path.touch, Path.unlink; count effects on femio_* files inside `directory`"""
    import numpy
    directory = pathlib.Path(directory).resolve()
    state = {'n': 0}
    real_savez, real_touch, real_unlink = numpy.savez, pathlib.Path.touch, pathlib.Path.unlink

    def relevant(p):
        p = pathlib.Path(p)
        return p.name.startswith('femio_') and p.resolve().parent == directory

    def gate(kind, p, tear=None):
        if not relevant(p):
            return
        name = pathlib.Path(p).name
        if kind == 'W' and not name.endswith('.npz') and not name.endswith('.npy'):
            name += '.npz'
        if crash_at is not None and state['n'] == crash_at:
            if torn and tear is not None:
                tear()
            raise Crash()
        state['n'] += 1
        if trace is not None:
            trace.append((kind, RNAME.get(name, name)))

    def savez(file, *a, **k):
        def tear():
            buf = io.BytesIO()
            real_savez(buf, *a, **k)
            b = buf.getvalue()
            target = pathlib.Path(str(file) + ('' if str(file).endswith('.npz') else '.npz'))
            target.write_bytes(b[: max(1, len(b) // 2)])
        gate('W', file, tear)
        return real_savez(file, *a, **k)

    def touch(self, *a, **k):
        gate('W', self)
        return real_touch(self, *a, **k)

    def unlink(self, *a, **k):
        gate('R', self)
        return real_unlink(self, *a, **k)

    numpy.savez, pathlib.Path.touch, pathlib.Path.unlink = savez, touch, unlink
    try:
        yield state
    finally:
        numpy.savez, pathlib.Path.touch, pathlib.Path.unlink = real_savez, real_touch, real_unlink


# ------------------------------------------------------------------ objects

NAMES_N = ['T', 'disp', 'solids', 'grids_x', 'data_x', 'hexa', 'x_ids', 'tetra']
NAMES_E = ['E', 'stress', 'voids', 'dataset', 'hex_flag', 'prism_ids']


EDITS = ['update', 'update_data', 'loc', 'iloc', 'data_frame']


def edit_in_place(r, a, how, new, attrs=None, key=None):
    """one public in-place update of the FEMAttribute `a` (some rows get the values `new[j]`; ids and shape stay):
    FEMAttribute.update / FEMAttributes.update_data with allow_overwrite=True, a write through a .loc / .iloc slice,
    or the data_frame setter"""
    n = len(a.ids)
    rows = sorted(r.sample(range(n), len(new)))
    ids = np.array([a.ids[j] for j in rows])
    if how == 'update_data' and attrs is not None:
        attrs.update_data(ids, {key: new}, allow_overwrite=True)
    elif how in ('update', 'update_data'):
        a.update(ids, new, allow_overwrite=True)
    elif how == 'loc':
        a.loc[list(ids)].data = new
    elif how == 'iloc':
        a.iloc[rows].data = new
    elif how == 'data_frame':
        df = a.data_frame.copy()
        df.iloc[rows] = np.reshape(new, (len(rows), -1))
        a.data_frame = df
    else:
        raise ValueError(how)


def make_obj(r, tag, has_nodal_extra=True, has_elemental=True, has_constraints=True, types=None, drop_node_entry=False,
             ranks=(1, 2, 3), time_series=False, edits=None):
    """edits (a dict, filled in; exactness stream only): a share of the variables is stored under a dict key that differs
    from its FEMAttribute.name (incl. two keys sharing one name), constraints get a second variable of rank 1 / 3, and a
    share of the nodal / elemental / constraint variables goes through one public in-place update (EDITS) after it was
    attached - the object that is saved is the one these calls leave behind"""
    from femio import FEMAttribute, FEMAttributes
    types = types or r.choice([['tet'], ['hex'], ['tet', 'hex'], ['tet', 'tet2'], ['hex', 'hex2', 'prism'], ['tri', 'quad'],
                               ['line', 'tet', 'pyr']])
    m = mg.gen_combinatorial(r, types=types, max_elems=8)
    m['nodes'] = [(i, (p[0] + tag, p[1], p[2])) for i, p in m['nodes']]
    fd = mg.to_femio(m)
    nids = fd.nodes.ids
    n = len(nids)

    def vals(shape):
        a = np.array([r.choice([r.randint(-9, 9) + tag / 8, r.random() * tag, -0.0, 1e300, 5e-324]) for _ in range(int(np.prod(shape)))])
        return a.reshape(shape)

    def arr(k, rank):
        return vals({1: (k,), 2: (k, r.choice([1, 3])), 3: (k, 3, 3)}[rank])

    def attr_name(fam, key, pool):
        """FEMAttribute.name of the variable stored under the dict key `key` (the key unless `edits`)"""
        if edits is None or r.random() >= .4:
            return key
        name = r.choice(['shared', 'shared'] + [k for k in pool if k != key])
        edits.setdefault('key != FEMAttribute.name', []).append([fam, key, name])
        return name

    def attach(attrs, key, attribute):
        if edits is not None and r.random() < .5:
            attrs.update({key: attribute})
        else:
            attrs[key] = attribute

    def maybe_edit(fam, a, attrs=None, label=None):
        """a share of the variables goes through one public in-place update after it was attached"""
        if edits is None or a.time_series or r.random() >= .5:
            return
        how = r.choice(EDITS)
        new = vals((r.randint(1, len(a.ids)),) + tuple(a.data.shape[1:]))
        key = None if attrs is None else next(k for k, v in attrs.items() if v is a)
        edit_in_place(r, a, how, new, attrs, key)
        edits.setdefault('updated in place', []).append([fam, label or key, f'rank {len(a.data.shape)}', how])
    with contextlib.redirect_stdout(io.StringIO()):
        if has_nodal_extra:
            for name in r.sample(NAMES_N, r.randint(1, 2)):
                attach(fd.nodal_data, name, FEMAttribute(attr_name('nodal', name, NAMES_N), ids=nids, data=arr(n, r.choice(ranks)),
                                                         silent=True))
            if time_series:
                fd.nodal_data['ts'] = FEMAttribute('ts', ids=nids, data=np.stack([arr(n, 1)[:, None] for _ in range(3)]),
                                                   silent=True, time_series=True)
        if has_elemental:
            eids = fd.elements.ids
            for name in r.sample(NAMES_E, r.randint(1, 2)):
                from femio import FEMElementalAttribute
                rank = r.choice([2, 3])
                aname = attr_name('elemental', name, NAMES_E)
                attach(fd.elemental_data, name, FEMElementalAttribute(aname, {
                    t: FEMAttribute(aname, ids=v.ids, data=arr(len(v.ids), rank), silent=True)
                    for t, v in fd.elements.items()}))
        if has_constraints:
            sel = np.array(sorted(r.sample([int(i) for i in nids], r.randint(1, n))))
            d = arr(len(sel), 2)
            d = np.where(np.arange(d.size).reshape(d.shape) % 3 == 0, np.nan, d)
            attach(fd.constraints, 'boundary', FEMAttribute(attr_name('constraints', 'boundary', ['cload']), ids=sel, data=d, silent=True))
            if edits is not None and r.random() < .6:
                sel = np.array(r.sample([int(i) for i in nids], r.randint(1, n)))
                attach(fd.constraints, 'cload', FEMAttribute(attr_name('constraints', 'cload', ['boundary']), ids=sel,
                                                             data=arr(len(sel), r.choice([1, 3])), silent=True))
        if edits is not None:
            for k, a in list(fd.nodal_data.items()):
                if k != 'NODE':
                    maybe_edit('nodal', a, fd.nodal_data)
            for k, ea in list(fd.elemental_data.items()):
                for t, a in ea.items():
                    maybe_edit('elemental', a, None, f'{k}[{t}]')
            for k, a in list(fd.constraints.items()):
                maybe_edit('constraints', a, fd.constraints)
        fd.settings.update({'tag': tag, 'label': f'run {tag} / a b', 'scale': 1.5 * tag, 'flag': bool(tag % 2)})
        if r.random() < .5:
            fd.settings['solution_type'] = r.choice(['HEAT', 'STATIC'])
        if drop_node_entry and not has_nodal_extra:
            fd.nodal_data.pop('NODE')
    return fd, m


def make_source(r, directory, tag):
    """a source directory (UCD) and the reference parse"""
    from femio import FEMData, FEMAttribute
    types = r.choice([['tet'], ['hex'], ['tet', 'hex'], ['tri', 'quad'], ['prism', 'hex']])
    m = mg.gen_combinatorial(r, types=types, max_elems=7, unref=False)
    m['nodes'] = [(i, (p[0] + tag, p[1], p[2])) for i, p in m['nodes']]
    fd = mg.to_femio(m)
    with contextlib.redirect_stdout(io.StringIO()):
        fd.nodal_data['T'] = FEMAttribute('T', ids=fd.nodes.ids, data=np.arange(len(fd.nodes.ids), dtype=float)[:, None] + tag,
                                          silent=True)
        fd.write('ucd', directory / 'mesh.inp')
        parse = FEMData.read_directory('ucd', directory, read_npy=False, save=False)
    return parse


def flags(fd):
    return (int(len(fd.nodal_data) > 0), int(len(fd.elemental_data) > 0), int(len(fd.constraints) > 0))


def observe_dir(directory, refs):
    out = []
    for f in FILES:
        dg = file_digest(directory / FNAME[f])
        if dg in ('a', 't'):
            out.append(dg)
        elif f == 'sentinel':
            out.append('s')
        else:
            tags = [str(t) for t, ref in refs.items() if ref[f] == dg]
            out.append(tags[0] if tags else 'x')
    return out


def match_returned(dg, objs):
    """which complete object (tag, mesh_only) the returned data equals, group by group"""
    for t, (od, _) in objs.items():
        if dg == od:
            return (t, False)
        mesh_only = dict(od, nodal={}, elemental={}, constraints={}, settings={})
        if dg == mesh_only:
            return (t, True)
    return None


_FULL = {}


def trace_plan(ctx, fd, mo):
    """the ordered effects of fd.save(save_mesh_only=mo) over a directory in which every cache file exists"""
    if 'fd' not in _FULL:
        import random
        _FULL['fd'] = make_obj(random.Random(5), 9, has_nodal_extra=True, has_elemental=True, has_constraints=True,
                               types=['tet'])[0]
    d = ctx.tmp / 'plan'
    if d.exists():
        shutil.rmtree(d)
    d.mkdir(parents=True)
    tr = []
    with contextlib.redirect_stdout(io.StringIO()):
        _FULL['fd'].save(d)
        with effects(d, trace=tr):
            fd.save(d, save_mesh_only=bool(mo))
    shutil.rmtree(d, ignore_errors=True)
    return tr


def enc_plan(tr):
    return f'{len(tr)} ' + ' '.join(f'{k} {f}' for k, f in tr)


def plan_good(ctx, tag, fl, mo, tr, case):
    """ask the model whether the traced plan satisfies the hypothesis of the *_plan theorems"""
    if any(f not in FILES for _k, f in tr):
        ctx.disagree('save() touches a femio_* file the model does not know', case, tr, None)
        return False
    rep = ctx.driver.ask(f'c05.good {tag} {fl[0]} {fl[1]} {fl[2]} {mo} {enc_plan(tr)}').split()
    if rep[0] != 'ok':
        raise RuntimeError('driver: ' + ' '.join(rep))
    ctx.count('plan:' + ('good' if rep[1] == '1' else 'NOT-good'))
    if rep[1] != '1':
        ctx.disagree('the traced effects of save() are not a plan accepted by GoodMid (sentinel removed first, created last, '
                     'not touched in between; every data file ends up written by this save or removed)', case, tr, 'GoodMid = false')
    return rep[1] == '1'


def run_history(ctx, hid, ops_fixed=None):
    from femio import FEMData
    r = ctx.rng
    d = ctx.tmp / f'h{hid}'
    if d.exists():
        shutil.rmtree(d)
    d.mkdir(parents=True)
    parse = make_source(r, d, tag=1)
    A, _ = make_obj(r, 2, has_nodal_extra=r.random() < .8, has_elemental=r.random() < .6, has_constraints=r.random() < .6,
                    types=r.choice([['tet'], ['hex'], ['tet', 'hex']]), drop_node_entry=r.random() < .3)
    B, _ = make_obj(r, 3, has_nodal_extra=r.random() < .5, has_elemental=r.random() < .4, has_constraints=r.random() < .4,
                    types=r.choice([['tet'], ['hex', 'prism']]), drop_node_entry=r.random() < .5)
    objs_fd = {1: parse, 2: A, 3: B}
    objs = {t: (digest(fd), flags(fd)) for t, fd in objs_fd.items()}
    refs = {t: ref_file_digests(fd) for t, fd in objs_fd.items()}
    model_dir = ['a'] * 7
    model_on = True        # after a disagreement the history continues on the real code (oracle only)
    plans = {}

    def plan(t, mo):
        if (t, mo) not in plans:
            tr = trace_plan(ctx, objs_fd[t], mo)
            plans[(t, mo)] = (tr, plan_good(ctx, t, objs[t][1], mo, tr, {'object': t, 'mesh_only': mo,
                                                                          'flags': list(objs[t][1])}))
        return plans[(t, mo)]
    n_ops = r.randint(1, ctx.n(6, 10)) if ops_fixed is None else len(ops_fixed)
    hist = []
    for step in range(n_ops):
        if ops_fixed is not None:
            op = ops_fixed[step]
        else:
            u = r.random()
            if u < .35:
                op = ('read',)
            elif u < .6:
                op = ('save', r.choice([2, 3]), int(r.random() < .25))
            else:
                op = ('crash', r.choice([2, 3]), int(r.random() < .2), r.randint(0, 11), int(r.random() < .4))
        hist.append(list(op))
        before = observe_dir(d, refs)
        returned = None
        err = None
        try:
            with contextlib.redirect_stdout(io.StringIO()):
                if op[0] == 'read':
                    returned = FEMData.read_directory('ucd', d, read_npy=True, save=True)
                elif op[0] == 'save':
                    objs_fd[op[1]].save(d, save_mesh_only=bool(op[2]))
                else:
                    try:
                        with effects(d, crash_at=op[3], torn=bool(op[4])):
                            objs_fd[op[1]].save(d, save_mesh_only=bool(op[2]))
                    except Crash:
                        pass
        except Exception as e:
            err = f'{type(e).__name__}: {e}'
        after = observe_dir(d, refs)
        case = {'history': hist[:], 'flags': {str(t): list(o[1]) for t, o in objs.items()}}
        served_from_cache = op[0] == 'read' and before[6] == 's'
        ctx.case((hid, step), sample={'op': list(op), 'dir_before': before, 'dir_after': after},
                 nontrivial=(before != after) or served_from_cache)
        ctx.count('op:' + op[0] + ('/cache' if served_from_cache else ''))
        # ---------------- oracle
        if op[0] == 'read':
            if err is not None:
                ctx.fail('read-raises', f'read_directory raised {err} after history {hist}', case, {'dir': before})
                return
            got = match_returned(digest(returned), objs)
            if got is None:
                ctx.fail('partial-cache-loaded', f'read_directory returned data that is neither the parse of the source nor one '
                         f'completely saved object (cache files before the read: {dict(zip(FILES, before))})', case,
                         {'dir': before})
                return
            ctx.count(f'read-returns:{"source" if got[0] == 1 else "saved-object"}{"(mesh-only)" if got[1] else ""}')
        elif err is not None:
            ctx.notes.append(f'{op} raised {err}')
        # ---------------- correspondence
        if ctx.driver is not None and model_on:
            def obj(t):
                return f'{t} {objs[t][1][0]} {objs[t][1][1]} {objs[t][1][2]}'
            md = ' '.join(model_dir)
            tr, good = plan(1, 0) if op[0] == 'read' else plan(op[1], op[2])
            if not good:
                model_on = False
                continue
            if op[0] == 'read':
                line = f'c05.gstep {md} read {obj(1)} {enc_plan(tr)}'
            elif op[0] == 'save':
                line = f'c05.gstep {md} save {obj(op[1])} {op[2]} {enc_plan(tr)}'
            else:
                line = f'c05.gstep {md} crash {obj(op[1])} {op[2]} {op[3]} {op[4]} {enc_plan(tr)}'
            rep = ctx.driver.ask(line).split()
            if rep[0] != 'ok':
                raise RuntimeError('driver: ' + ' '.join(rep))
            new_dir = rep[1:8]
            model_dir = new_dir
            obs = [('s' if (f == 'sentinel' and c not in 'at') else c) for f, c in zip(FILES, after)]
            mod = [('s' if (f == 'sentinel' and c not in 'at') else c) for f, c in zip(FILES, new_dir)]
            if obs != mod:
                ctx.disagree('directory after ' + op[0], case, dict(zip(FILES, obs)), dict(zip(FILES, mod)))
                model_on = False
                continue
            if op[0] == 'read' and returned is not None:
                ret = rep[8:15]
                # the model says whose files were loaded; a coherent model result names one (tag, mesh_only)
                tags = {c for f, c in zip(FILES, ret) if c not in 'at'}
                m_mesh_only = ret[5] == 'a'
                m_got = (int(next(iter(tags))), m_mesh_only) if len(tags) == 1 else None
                if m_got != got:
                    ctx.disagree('object returned by read', case, got, {'model': ret})
                    model_on = False


def exactness(ctx, k):
    """save -> load reproduces every group exactly"""
    from femio import FEMData
    r = ctx.rng
    state = r.getstate()      # the whole case is a function of (k, this state): kept in the case for the replay
    d = ctx.tmp / f'x{k}'
    d.mkdir(parents=True)
    edits = {}
    ts = r.random() < .12
    poly = (not ts) and r.random() < .15
    if poly:
        m = mg.gen_geometric(r, kind=r.choice(['tet', 'hex']), max_cells=1, jitter=False, unref=False)
        fd = mg.quiet(mg.to_femio(m).to_polyhedron)
        fd.settings.update({'tag': 9, 'name': 'poly mesh'})
        kind = 'polyhedron'
    else:
        fd, m = make_obj(r, 4 + k % 5, has_nodal_extra=r.random() < .85, has_elemental=r.random() < .7,
                         has_constraints=r.random() < .5, time_series=ts, edits=edits)
        kind = '+'.join(m['blocks'])
    key_tie(ctx, fd)
    want = digest(fd)
    case = {'kind': kind, 'time_series': ts, 'nodal': list(fd.nodal_data.keys()), 'elemental': list(fd.elemental_data.keys()),
            'constraints': list(fd.constraints.keys()), **edits,
            'shapes': {g: {k2: list(np.shape(v.data)) for k2, v in getattr(fd, g).items()} for g in ('nodal_data', 'constraints')},
            'mesh': mg.to_json(m), 'exactness_case': k, 'rng_state': [state[0], list(state[1]), state[2]]}
    ctx.case(('exact', k), sample={k2: case[k2] for k2 in ('kind', 'time_series', 'nodal', 'elemental', 'constraints', *edits)},
             nontrivial=True)
    ctx.count('exactness:' + ('time-series' if ts else 'polyhedron' if poly else ('mixed' if '+' in kind else 'uniform')))
    for fam, key, name in edits.get('key != FEMAttribute.name', []):
        ctx.count(f'exactness: key != FEMAttribute.name: {fam}' + (' (shared name)' if name == 'shared' else ''))
    for fam, key, rank, how in edits.get('updated in place', []):
        ctx.count(f'exactness: updated in place before save: {fam} {rank} by {how}')
    try:
        with contextlib.redirect_stdout(io.StringIO()):
            fd.save(d)
            back = FEMData.read_npy_directory(d)
    except Exception as e:
        sig = 'load-raises:' + ('time-series' if ts else 'substring-type' if any(a in b and a != b for a in m['blocks'] for b in m['blocks']) else 'other')
        ctx.fail(sig, f'save -> load of a {kind} mesh (nodal {case["nodal"]}, elemental {case["elemental"]}'
                 f'{", time series" if ts else ""}) raised {type(e).__name__}: {e}', case, None)
        return
    got = digest(back)
    for g in want:
        if got[g] != want[g]:
            ctx.fail(f'load-differs:{g}' + (':time-series' if ts else ''), f'save -> load changed the {g} of a {kind} mesh'
                     + first_diff(want[g], got[g]), case, {'want': repr(want[g])[:400], 'got': repr(got[g])[:400]})
            return


def first_diff(want, got):
    """which variable differs and how (keys / ids / data shape / values), for the message"""
    if not (isinstance(want, dict) and isinstance(got, dict)):
        return ''
    if sorted(want) != sorted(got):
        return f': variables saved {sorted(want)}, loaded {sorted(got)}'
    k = next(k for k in want if want[k] != got[k])
    w, g = want[k], got[k]
    if isinstance(w, dict):      # elemental: per element type
        if sorted(w) != sorted(g):
            return f': {k!r} saved for types {sorted(w)}, loaded for {sorted(g)}'
        t = next(t for t in w if w[t] != g[t])
        k, w, g = f'{k}[{t}]', w[t], g[t]
    if not (isinstance(w, tuple) and len(w) == 2 and isinstance(w[1], tuple)):
        return f': {k!r}'
    if w[0] != g[0]:
        return f': ids of {k!r} differ'
    if w[1][1] != g[1][1]:
        return f': data of {k!r} had shape {w[1][1]} when saved, {g[1][1]} after loading'
    return f': values of {k!r} differ'


def key_tie(ctx, fd):
    """tie T/D for Model/NpyKeys.lean: the keys femio writes and how it splits / classifies them on load"""
    if ctx.driver is None:
        return
    from femio import FEMElementalAttribute
    ed = fd.elemental_data
    if len(ed) and all(isinstance(v, FEMElementalAttribute) for v in ed.values()):
        real = list(ed.to_dict().keys())
        line = 'c05k.todict ' + C.enc_list(ed.items(), lambda nv: C.esc(nv[0]) + ' ' + C.enc_list(nv[1].keys(), C.esc))
        t = C.Toks(ctx.driver.ask(line))
        assert t.tok() == 'ok'
        model = [C.unesc(x) for x in t.lst(t.tok)]
        ctx.count('key-tie:elemental')
        if model != real:
            ctx.disagree('keys written for elemental data', {'names': list(ed.keys())}, real, model)
        # the per-type split of one variable, as femio does it now
        for name, v in ed.items():
            sub = {k: 0 for k in real if k.split('/')[0] == name}
            try:
                split = FEMElementalAttribute._split_dict_data(sub)
            except Exception as e:
                split = {'error': repr(e)}
            for ty in v.keys():
                t = C.Toks(ctx.driver.ask(f'c05k.split 1 {C.enc_list(sub.keys(), C.esc)} {C.esc(ty)}'))
                assert t.tok() == 'ok'
                m = [C.unesc(x) for x in t.lst(t.tok)]
                if list(split.get(ty, {}).keys()) != m:
                    ctx.disagree('entries selected for element type ' + ty, {'keys': list(sub)}, list(split.get(ty, {}).keys()), m)
    nd = fd.nodal_data
    real = list(nd.to_dict().keys())
    t = C.Toks(ctx.driver.ask('c05k.ntodict ' + C.enc_list(nd.keys(), C.esc)))
    assert t.tok() == 'ok'
    model = [C.unesc(x) for x in t.lst(t.tok)]
    ctx.count('key-tie:nodal')
    if model != real:
        ctx.disagree('keys written for nodal data', {'names': list(nd.keys())}, real, model)
    # classification of a key as ids / data by FEMAttribute.from_dict
    from femio import FEMAttribute
    for k in real:
        t = C.Toks(ctx.driver.ask(f'c05k.kind 1 {C.esc(k)}'))
        assert t.tok() == 'ok'
        mk = t.tok()
        try:
            a = FEMAttribute.from_dict('x', {k: np.array([1]), ('zz/data' if mk == 'i' else 'zz/ids'): np.array([2.])}, silent=True)
            rk = 'i' if int(a.ids[0]) == 1 else 'd'
        except Exception:
            rk = 'x'
        if rk != mk:
            ctx.disagree('classification of key ' + k, {'key': k}, rk, mk)


def trace_tie(ctx):
    """tie T: the ordered effects of a real complete save, for every combination of empty / non-empty optional groups and
    save_mesh_only, are a plan accepted by GoodMid; whether it is also the order of `saveSteps Cfg.fixed` is recorded"""
    r = ctx.rng
    for hn in (0, 1):
        for he in (0, 1):
            for hc in (0, 1):
                for mo in (0, 1):
                    fd, _ = make_obj(r, 7, has_nodal_extra=bool(hn), has_elemental=bool(he), has_constraints=bool(hc),
                                     types=['tet'], drop_node_entry=True)
                    tr = trace_plan(ctx, fd, mo)
                    f = flags(fd)
                    ctx.case(('trace', hn, he, hc, mo), sample={'flags': f, 'mesh_only': mo, 'effects': tr}, nontrivial=True)
                    ctx.count('trace-tie')
                    if ctx.driver is not None:
                        plan_good(ctx, 7, f, mo, tr, {'flags': f, 'mesh_only': mo})
                        rep = ctx.driver.ask(f'c05.steps 1 1 7 {f[0]} {f[1]} {f[2]} {mo}').split()
                        ms = [(rep[2 + 2 * i], rep[3 + 2 * i]) for i in range(int(rep[1]))]
                        ctx.count('plan-order:' + ('same-as-saveSteps' if ms == tr else 'other-than-saveSteps'))


def exhaustive_second_save(ctx):
    """every crash point x torn x mesh-only of a second save over a complete first one, then a read"""
    n = 0
    for first_mo in (0, 1):
        for mo in (0, 1):
            for k in range(0, 12):
                for torn in (0, 1):
                    run_history(ctx, f'e{first_mo}{mo}{k}{torn}', ops_fixed=[('read',), ('save', 2, first_mo),
                                                                             ('crash', 3, mo, k, torn), ('read',)])
                    n += 1
    ctx.extra['exhaustive_second_save_histories'] = n


def run(ctx):
    trace_tie(ctx)
    for name, j in C.corpus_cases(PROP):
        ctx.count('corpus')
        run_history(ctx, 'c' + name, ops_fixed=[tuple(o) for o in j['history']])
    for h in range(ctx.n(60, 500)):
        run_history(ctx, h)
        shutil.rmtree(ctx.tmp / f'h{h}', ignore_errors=True)
    if not ctx.quick:
        exhaustive_second_save(ctx)
    else:
        for k in (1, 6, 8):
            run_history(ctx, f'q{k}', ops_fixed=[('save', 2, 0), ('crash', 3, 0, k, 0), ('read',)])
    for k in range(ctx.n(60, 500)):
        exactness(ctx, k)
        shutil.rmtree(ctx.tmp / f'x{k}', ignore_errors=True)


def replay(ctx, obj):
    case = obj['input']
    if 'history' not in case and 'rng_state' in case:
        # exactness case: rebuild the object from the generator state it was drawn with, save -> load -> compare again
        v, internal, gauss = case['rng_state']
        ctx.rng.setstate((v, tuple(internal), gauss))
        before = len(ctx.failures)
        exactness(ctx, case['exactness_case'])
        new = [{k: f[k] for k in ('signature', 'what', 'observed')} for f in ctx.failures[before:]]
        return {'case': {k: v for k, v in case.items() if k not in ('rng_state', 'mesh')}, 'failures': new, 'fails': bool(new)}
    if 'history' not in case:
        return {'fails': False, 'note': 'exactness case: re-run ./check C05 with VERIF_SEED=%s' % obj.get('seed')}
    before = len(ctx.failures)
    run_history(ctx, 'replay', ops_fixed=[tuple(o) for o in case['history']])
    return {'failures': ctx.failures[before:], 'fails': len(ctx.failures) > before}
