"""C19 - analysis queries are pure and independent of call history (DESIGN.md section 4, C19).

Tie T+D: the capacities of all lru_cache'd methods are generated from the code (`Gen.lruSizes`); the nested
cached-call graph (exact key and receiver of every nested call) is traced from the real code by wrapping
the cached attributes; random interleavings of queries / in-place modifiers / writers over 1-3 live meshes
are executed on the real objects and on the cache model (`c19.run`): per query the numbers of cache hits
and misses must be equal, and wherever the model says "computed from the current mesh" the real value must
equal the value of the same query on a freshly built equal mesh.
Oracle: value == fresh value for EVERY query; ids / coordinates / connectivity / user variables unchanged
by every query and writer.  Known (open) findings are matched by signature."""
import contextlib
import functools
import io

import numpy as np
import scipy.sparse as sp

from . import common as C
from . import meshgen as mg

PROP = 'C19'
LEAN_MODULES = ['Femio.Props.C19']
THEOREMS = ['access_good', 'C19_objects_dont_share', 'C19_user_data_untouched', 'C19_history_independent_partial',
            'C19_history_independent', 'C19_no_future_values', 'C19_stale_lru_counterexample', 'C19_stale_nested_counterexample',
            'C19_eviction_refreshes', 'C19_lru_sizes_positive']
PARTIAL = ['C19_history_independent_partial: the tree as it is satisfies history independence only for histories WITHOUT '
           'in-place modifiers; the full statement C19_history_independent is proved for the configuration in which modifiers '
           'clear the caches, which the tree does not implement (open known findings stale-after-modify:*)',
           'derived variables stored in elemental_data (volume / area / metric) are returned regardless of mode / abs options and '
           'after make_elements_positive: oracle only (open known findings options-ignored:*, stale-after-modify:*)',
           'C19_user_data_untouched is a statement about the model (queries do not bump versions); on the implementation it is '
           'checked by before/after snapshots']
RULE = ('seeded histories (quick <= 14 ops, thorough <= 40) over 1-3 live tet / hex meshes: ~25 query spellings (graph matrices, '
        'surface, normals, metrics, conversions; positional vs keyword spellings are different cache keys), in-place modifiers '
        '(remove_useless_nodes, make_elements_positive, connectivity assignment) and writers (ucd, fistr); a case = one operation; '
        'non-trivial = a query that hit a cache, or was made after an in-place modification, or on a second object')
ASSUMPTIONS = ['functools.lru_cache: LRU eviction, insertion after the wrapped call returns, key = (self, args, kwargs in call spelling)',
               'a freshly built equal mesh = FEMData constructed from copies of the current nodes, elements and user variables, '
               'queried with all caches cleared']

_TRACE = {'log': [], 'depth': 0, 'on': False}
_WRAPPED = {}


def cached_methods():
    from femio import graph_processor, geometry_processor, signal_processor
    out = []
    for cls in (graph_processor.GraphProcessorMixin, geometry_processor.GeometryProcessorMixin,
                signal_processor.SignalProcessorMixin):
        for name, obj in list(vars(cls).items()):
            if hasattr(obj, 'cache_parameters') or name in _WRAPPED:
                out.append((cls, name))
    return out


def canon_key(recv, a, k):
    """the lru_cache key of a call, with argument OBJECTS replaced by their ordinal of first appearance for this
    receiver (lru_cache compares them by identity; the registry keeps them alive so ids are not reused)"""
    reg = _TRACE.setdefault('objs', {}).setdefault(id(recv), {})

    def c(v):
        if isinstance(v, (str, int, float, bool, type(None))):
            return v
        if isinstance(v, tuple):
            return tuple(c(x) for x in v)
        if id(v) not in reg:
            reg[id(v)] = (len(reg), v)
        return ('obj', reg[id(v)][0])
    return (tuple(c(x) for x in a), tuple((kk, c(v)) for kk, v in k.items()))


def install_tracing():
    """wrap every lru_cache'd attribute (once per process); the lru object itself is untouched"""
    for cls, name in cached_methods():
        if name in _WRAPPED:
            continue
        lru = vars(cls)[name]

        def make(lru, name):
            @functools.wraps(lru.__wrapped__)
            def traced(self, *a, **k):
                if not _TRACE['on']:
                    return lru(self, *a, **k)
                before = lru.cache_info()
                entry = {'depth': _TRACE['depth'], 'meth': name, 'key': canon_key(self, a, k), 'recv': id(self), 'hit': None}
                _TRACE['log'].append(entry)
                _TRACE['depth'] += 1
                try:
                    return lru(self, *a, **k)
                finally:
                    _TRACE['depth'] -= 1
                    after = lru.cache_info()
                    entry['hit'] = after.hits > before.hits and after.misses == before.misses
            traced.cache_info = lru.cache_info
            traced.cache_clear = lru.cache_clear
            traced.cache_parameters = lru.cache_parameters
            return traced
        _WRAPPED[name] = lru
        setattr(cls, name, make(lru, name))


def clear_caches():
    for lru in _WRAPPED.values():
        lru.cache_clear()


def digest(v):
    if sp.issparse(v):
        c = v.tocoo()
        c.sum_duplicates()
        order = np.lexsort((c.col, c.row))
        return ('sp', c.shape, c.row[order].tolist(), c.col[order].tolist(), [float(x).hex() for x in c.data[order].astype(float)])
    if isinstance(v, (list, tuple)):
        return ('seq', [digest(x) for x in v])
    if isinstance(v, dict):
        return ('dict', sorted((str(k), digest(x)) for k, x in v.items()))
    if v is None:
        return ('none',)
    if hasattr(v, 'nodes') and hasattr(v, 'elements'):
        return ('fem', digest(v.nodes.ids), digest(v.nodes.data), digest({t: (e.ids, e.data) for t, e in v.elements.items()}))
    a = np.asarray(v)
    if a.dtype == object:
        return ('obj', a.shape, [digest(x) for x in a.ravel()])
    if a.dtype.kind == 'f':
        return ('f', a.shape, ['nan' if x != x else float(x).hex() for x in a.ravel().tolist()])
    return ('a', a.shape, a.ravel().tolist())


def user_snapshot(fd, user_vars):
    return {
        'node ids': digest(fd.nodes.ids), 'coordinates': digest(fd.nodes.data),
        'connectivity': digest({t: (e.ids, e.data) for t, e in fd.elements.items()}),
        'user variables': digest({k: (fd.nodal_data[k].ids, fd.nodal_data[k].data) for k in user_vars['nodal'] if k in fd.nodal_data}
                                 | {'E:' + k: digest(fd.elemental_data.get_attribute_data(k)) for k in user_vars['elemental']
                                    if k in fd.elemental_data}),
        'user variable names': sorted(k for k in user_vars['nodal'] if k in fd.nodal_data)
        + sorted(k for k in user_vars['elemental'] if k in fd.elemental_data),
    }


def clone_fresh(fd, user_vars):
    """a freshly built equal mesh (copies of nodes, elements, user variables)"""
    from femio import FEMData, FEMAttribute, FEMElementalAttribute
    with contextlib.redirect_stdout(io.StringIO()):
        nodes = FEMAttribute('NODE', ids=fd.nodes.ids.copy(), data=fd.nodes.data.copy(), silent=True)
        el = FEMElementalAttribute('ELEMENT', {t: FEMAttribute(t, ids=e.ids.copy(), data=np.array(e.data).copy(), silent=True)
                                               for t, e in fd.elements.items()})
        new = FEMData(nodes=nodes, elements=el)
        for k in user_vars['nodal']:
            if k in fd.nodal_data:
                new.nodal_data[k] = FEMAttribute(k, ids=fd.nodal_data[k].ids.copy(), data=fd.nodal_data[k].data.copy(), silent=True)
        for k in user_vars['elemental']:
            if k in fd.elemental_data:
                new.elemental_data.update_data(new.elements.ids, {k: fd.elemental_data.get_attribute_data(k).copy()})
    return new


# name, callable(fd), family (for the options-ignored signature)
def query_table():
    q = [
        ('calculate_incidence_matrix()', lambda f: f.calculate_incidence_matrix()),
        ('calculate_incidence_matrix(order1_only=False)', lambda f: f.calculate_incidence_matrix(order1_only=False)),
        ('calculate_adjacency_matrix()', lambda f: f.calculate_adjacency_matrix()),
        ("calculate_adjacency_matrix(mode='nodal')", lambda f: f.calculate_adjacency_matrix(mode='nodal')),
        ('calculate_adjacency_matrix_node()', lambda f: f.calculate_adjacency_matrix_node()),
        ('calculate_adjacency_matrix_element()', lambda f: f.calculate_adjacency_matrix_element()),
        ("calculate_n_hop_adj('nodal', 2)", lambda f: f.calculate_n_hop_adj('nodal', 2)),
        ("calculate_n_hop_adj(mode='nodal', n_hop=2)", lambda f: f.calculate_n_hop_adj(mode='nodal', n_hop=2)),
        ("calculate_n_hop_adj('elemental', 1)", lambda f: f.calculate_n_hop_adj('elemental', 1)),
        ("calculate_n_hop_adj('nodal', 1, include_self_loop=False)", lambda f: f.calculate_n_hop_adj('nodal', 1, include_self_loop=False)),
        ("calculate_n_hop_adj('elemental', 1, False)", lambda f: f.calculate_n_hop_adj('elemental', 1, False)),
        ("calculate_n_hop_adj('nodal', 3, False)", lambda f: f.calculate_n_hop_adj('nodal', 3, False)),
        ("calculate_nodal_spatial_gradients(T)", lambda f: f.calculate_nodal_spatial_gradients(f.nodal_data.get_attribute_data('T'))),
        ("calculate_elemental_spatial_gradients(E)", lambda f: f.calculate_elemental_spatial_gradients(
            f.elemental_data.get_attribute_data('E'))),
        ("calculate_element_degree() ", lambda f: f.calculate_element_degree()),
        ("calculate_nodal_spatial_gradients(T, kernel='gauss', alpha=1.)", lambda f: f.calculate_nodal_spatial_gradients(
            f.nodal_data.get_attribute_data('T'), kernel='gauss', alpha=1.)),
        ("calculate_nodal_spatial_gradients(T, kernel='gauss', alpha=40.)", lambda f: f.calculate_nodal_spatial_gradients(
            f.nodal_data.get_attribute_data('T'), kernel='gauss', alpha=40.)),
        ("calculate_nodal_spatial_gradients(T, consider_volume=False)", lambda f: f.calculate_nodal_spatial_gradients(
            f.nodal_data.get_attribute_data('T'), consider_volume=False)),
        ("calculate_elemental_spatial_gradients(E, n_hop=2)", lambda f: f.calculate_elemental_spatial_gradients(
            f.elemental_data.get_attribute_data('E'), n_hop=2)),
        ("calculate_elemental_spatial_gradients(E, kernel='exp', alpha=2.)", lambda f: f.calculate_elemental_spatial_gradients(
            f.elemental_data.get_attribute_data('E'), kernel='exp', alpha=2.)),
        ("calculate_euclidean_hop_graph(1.5)", lambda f: f.calculate_euclidean_hop_graph(1.5)),
        ("calculate_euclidean_hop_graph(1.5, mode='nodal')", lambda f: f.calculate_euclidean_hop_graph(1.5, mode='nodal')),
        ('calculate_laplacian_matrix()', lambda f: f.calculate_laplacian_matrix()),
        ("calculate_laplacian_matrix(mode='elemental')", lambda f: f.calculate_laplacian_matrix(mode='elemental')),
        ('calculate_edge_gradient_matrix()', lambda f: f.calculate_edge_gradient_matrix()),
        ('calculate_e2v_matrix()', lambda f: f.calculate_e2v_matrix()),
        ("calculate_e2v_matrix(mode='nodal')", lambda f: f.calculate_e2v_matrix(mode='nodal')),
        ('extract_surface()', lambda f: f.extract_surface()),
        ('filter_first_order_nodes()', lambda f: f.filter_first_order_nodes()),
        ('calculate_element_degree()', lambda f: f.calculate_element_degree()),
        ('calculate_surface_normals()', lambda f: f.calculate_surface_normals()),
        ('to_surface()', lambda f: f.to_surface()),
        ('to_facets()', lambda f: f.to_facets()),
        ("calculate_element_volumes(mode='linear', raise_negative_volume=False)",
         lambda f: f.calculate_element_volumes(mode='linear', raise_negative_volume=False)),
        ("calculate_element_volumes(mode='centroid', raise_negative_volume=False)",
         lambda f: f.calculate_element_volumes(mode='centroid', raise_negative_volume=False)),
        ('calculate_element_volumes(raise_negative_volume=False, return_abs_volume=True)',
         lambda f: f.calculate_element_volumes(raise_negative_volume=False, return_abs_volume=True)),
        ('calculate_element_metrics(raise_negative_metric=False)', lambda f: f.calculate_element_metrics(raise_negative_metric=False)),
        ("convert_nodal2elemental('T', calc_average=True)", lambda f: f.convert_nodal2elemental('T', calc_average=True)),
        ("convert_elemental2nodal('E', 'mean')", lambda f: f.convert_elemental2nodal(
            f.elemental_data.get_attribute_data('E'), 'mean')),
    ]
    return q


def family(qname):
    for fam in ('calculate_element_volumes', 'calculate_element_metrics', 'calculate_element_areas'):
        if qname.startswith(fam):
            return fam
    return None


def vopt(qname):
    """with which options a query makes femio evaluate (and store) the element volumes / metrics; None = it does not"""
    if qname.startswith('calculate_element_volumes'):
        mode = 'linear' if "mode='linear'" in qname else 'centroid'
        return mode + ('/abs' if 'return_abs_volume=True' in qname else '/signed')
    if reads_stored(qname):
        return 'centroid/signed'
    return None


def reads_stored(qname):
    """queries that read the derived variables stored in elemental_data (volume / area / metric), directly or as weights"""
    return family(qname) is not None or qname.startswith(('convert_elemental2nodal', 'calculate_nodal_spatial', 'calculate_elemental_spatial'))


def base_name(qname):
    return qname.split('(')[0]


def make_object(r, kind, sibling_of=None):
    from femio import FEMAttribute
    if sibling_of is not None:
        # same sizes and topology, other storage order and coordinates: anything shared between objects shows
        m = {k: v for k, v in sibling_of.items()}
        nodes = [(i, tuple(2 * x + 1 for x in p)) for i, p in sibling_of['nodes']]
        r.shuffle(nodes)
        m['nodes'] = nodes
        m['blocks'] = {t: list(b) for t, b in sibling_of['blocks'].items()}
        for b in m['blocks'].values():
            r.shuffle(b)
    else:
        m = mg.gen_geometric(r, kind=kind, max_cells=2, jitter=True, voids=False, unref=False, affine=False)
        return _finish_object(r, kind, m, FEMAttribute, True)
    return _finish_object(r, kind, m, FEMAttribute, False)


def _finish_object(r, kind, m, FEMAttribute, fresh):
    base = {'nodes': list(m['nodes']), 'blocks': {t: list(b) for t, b in m['blocks'].items()}, 'kind': m['kind'],
            'order': m['order']}
    nodes = list(m['nodes'])
    n_extra = r.choice([0, 1, 2])
    mx = max(i for i, _ in nodes)
    from fractions import Fraction as F
    if not fresh:
        n_extra = 0
    for k in range(n_extra):   # unreferenced nodes so that remove_useless_nodes is a real modification
        nodes.insert(r.randint(0, len(nodes)), (mx + 3 + k, (F(50 + k), F(50), F(50))))
    m['nodes'] = nodes
    if kind == 'tet' and r.random() < .6:   # some inverted tets so that make_elements_positive is a real modification
        rows = m['blocks']['tet']
        for idx in r.sample(range(len(rows)), max(1, len(rows) // 3)):
            e, c = rows[idx]
            rows[idx] = (e, [c[0], c[2], c[1], c[3]])
    fd = mg.to_femio(m)
    with contextlib.redirect_stdout(io.StringIO()):
        fd.nodal_data['T'] = FEMAttribute('T', ids=fd.nodes.ids, data=np.array(
            [[r.uniform(-9, 9)] for _ in fd.nodes.ids]), silent=True)
        fd.elemental_data.update_data(fd.elements.ids, {'E': np.array([[r.uniform(1, 9)] for _ in fd.elements.ids])})
    fd._verif_base = base
    return fd


def apply_modifier(r, fd, which):
    with contextlib.redirect_stdout(io.StringIO()):
        if which == 'remove_useless_nodes':
            fd.remove_useless_nodes()
        elif which == 'make_elements_positive':
            fd.make_elements_positive()
        elif which == 'coordinate assignment':   # public setter of the node table: an affine change of all coordinates
            fd.nodes.data = fd.nodes.data * 1.25 + np.array([0.5, -0.25, 0.125])
        elif which == 'user variable overwrite':  # not a mesh modification: the user replaces the values of his own variable
            fd.nodal_data.overwrite('T', fd.nodal_data.get_attribute_data('T') * -2.0 + 1.0)
        else:   # connectivity assignment: swap two nodes of one element (keeps every referenced node)
            data = np.array(fd.elements.data).copy()
            j = r.randrange(len(data))
            data[j, [1, 2]] = data[j, [2, 1]]
            fd.elements.data = data


def run_history(ctx, hid, script=None):
    r = ctx.rng
    queries = query_table()
    kind = r.choice(['tet', 'tet', 'hex', 'prism'])
    n_obj = r.choice([1, 1, 2, 3]) if script is None else 1 + max(op[1] for op in script)
    objs = []
    for i in range(n_obj):
        sib = objs[0]._verif_base if (i > 0 and r.random() < .6) else None
        objs.append(make_object(r, kind, sibling_of=sib))
    user_vars = {'nodal': ['T'], 'elemental': ['E']}
    names = sorted(_WRAPPED)
    meth_id = {n: i for i, n in enumerate(names)}
    caps = {meth_id[n]: _WRAPPED[n].cache_parameters()['maxsize'] for n in names}
    clear_caches()
    _TRACE['objs'] = {}
    versions = [0] * n_obj
    asked = [[] for _ in range(n_obj)]
    kept = [None] * n_obj
    modified = [False] * n_obj
    fam_opts = [dict() for _ in range(n_obj)]
    argids = {}
    rules = {}
    ops_model = []
    model_on = True
    records = []       # per op
    hist = []
    n_ops = r.randint(2, ctx.n(14, 40)) if script is None else len(script)
    wdir = ctx.tmp / f'w{hid}'
    wdir.mkdir(parents=True, exist_ok=True)
    for step in range(n_ops):
        if script is not None:
            op = script[step]
        else:
            u = r.random()
            o = r.randrange(n_obj)
            if u < .74:
                # re-query bias: history dependence shows when a query is repeated after something else happened
                if asked[o] and r.random() < .4:
                    op = ('q', o, r.choice(asked[o]))
                else:
                    op = ('q', o, r.randrange(len(queries)))
                asked[o].append(op[2])
            elif u < .9:
                op = ('m', o, r.choice(['remove_useless_nodes', 'make_elements_positive', 'connectivity assignment',
                                        'coordinate assignment', 'user variable overwrite']))
            elif u < .96:
                op = ('w', o, r.choice(['ucd', 'fistr']))
            else:
                op = ('c', o, 'reverse-surface-facets')
        kindop, o, arg = op
        fd = objs[o]
        if kindop == 'm' and arg == 'make_elements_positive' and kind != 'tet':
            arg = 'remove_useless_nodes'
            op = ('m', o, arg)
        hist.append([kindop, o, arg if kindop != 'q' else queries[arg][0]])
        before = user_snapshot(fd, user_vars)
        case = {'mesh_kind': kind, 'n_objects': n_obj, 'history': [list(h) for h in hist]}
        if kindop == 'q':
            qname, qf = queries[arg]
            _TRACE['log'] = []
            _TRACE['depth'] = 0
            _TRACE['on'] = True
            err = None
            try:
                with contextlib.redirect_stdout(io.StringIO()):
                    val = qf(fd)
                dg = digest(val)
                if qname == 'to_surface()':
                    kept[o] = val
            except Exception as e:
                err = f'{type(e).__name__}: {e}'
                dg = ('raises', type(e).__name__)
            finally:
                _TRACE['on'] = False
            log = _TRACE['log']
            after = user_snapshot(fd, user_vars)
            snap = clone_fresh(fd, user_vars) if before == after else None
            rec = {'step': step, 'obj': o, 'qname': qname, 'q': arg, 'digest': dg, 'version': versions[o],
                   'modified_before': modified[o], 'hits': sum(1 for e in log if e['hit']), 'misses': sum(1 for e in log if not e['hit']),
                   'snapshot': snap, 'case': case, 'err': err,
                   # a stored derived variable (volume / area / metric) may have been written by ANY earlier query on this
                   # object (metrics -> volumes, conversions -> metrics, ...), with that query's own options
                   # the stored variable explains a deviation only if an earlier query of this object evaluated the volumes
                   # with OTHER options than this query would use
                   'opts_differ': reads_stored(qname) and any(v != vopt(qname) for v in fam_opts[o].get('vopts', []))}
            if vopt(qname) is not None:
                fam_opts[o].setdefault('vopts', []).append(vopt(qname))
            records.append(rec)
            # rules from the trace: children of every miss
            top = [e for e in log if e['depth'] == 0]
            for i, e in enumerate(log):
                key = (meth_id[e['meth']], argids.setdefault((e['meth'], e['key']), len(argids)))
                e['mkey'] = key
            for i, e in enumerate(log):
                if e['hit']:
                    continue
                children = []
                tmp_ids = {}
                for f in log[i + 1:]:
                    if f['depth'] <= e['depth']:
                        break
                    if f['depth'] == e['depth'] + 1:
                        if f['recv'] == e['recv']:
                            recv = 0
                        else:
                            recv = tmp_ids.setdefault(f['recv'], len(tmp_ids) + 1)
                        children.append((f['mkey'][0], f['mkey'][1], recv))
                ver = next((versions[i] for i, ob in enumerate(objs) if id(ob) == e['recv']), 0)
                rkey = (e['mkey'][0], e['mkey'][1], ver)
                if rkey in rules and rules[rkey] != children:
                    ctx.notes.append(f'nested calls of {e["meth"]}{e["key"]} are not static: {rules[rkey]} vs {children}')
                rules.setdefault(rkey, children)
            if err is not None:
                model_on = False       # lru_cache stores nothing when the wrapped call raises: not modelled
                ctx.count('query-raised(model off for the rest of the history)')
            if not model_on:
                pass
            elif len(top) == 1:
                ops_model.append(('q', o + 1, top[0]['mkey'][0], top[0]['mkey'][1], len(records) - 1))
            elif top:
                # an uncached query that makes several top-level cached calls: one model query per call
                for tcall in top:
                    ops_model.append(('q', o + 1, tcall['mkey'][0], tcall['mkey'][1], len(records) - 1))
            ctx.case((hid, step), sample={'op': 'query', 'query': qname, 'object': o, 'hits': rec['hits'], 'misses': rec['misses'],
                                          'after_modification': modified[o]},
                     nontrivial=rec['hits'] > 0 or modified[o] or o > 0)
            ctx.count('query:' + base_name(qname))
            if before != after:
                what = [k for k in before if before[k] != after[k]]
                ctx.fail(f'user-data-changed:{base_name(qname)}:{what[0]}', f'{qname} changed the {", ".join(what)} of the mesh', case, None)
                return
        elif kindop == 'm':
            apply_modifier(r, fd, arg)
            after = user_snapshot(fd, user_vars)
            changed = before != after
            ctx.case((hid, step), sample={'op': 'modify', 'modifier': arg, 'object': o, 'changed_mesh': changed}, nontrivial=changed)
            ctx.count('modifier:' + arg + ('' if changed else '(no-op)'))
            if changed and arg != 'user variable overwrite':
                versions[o] += 1
                modified[o] = True
                if model_on:
                    ops_model.append(('m', o + 1))
        elif kindop == 'c':
            # another live object: the surface mesh an earlier to_surface() of this object returned is modified in place
            # (all its facets reversed by connectivity assignment).  The parent must not notice.
            ch = kept[o]
            if ch is not None:
                with contextlib.redirect_stdout(io.StringIO()):
                    try:
                        ch.elements.data = np.array(ch.elements.data)[:, ::-1].copy()
                    except Exception as e:   # mixed surfaces cannot be assigned: nothing happened
                        ctx.count('child-modification:not-applicable')
                        ch = None
            after = user_snapshot(fd, user_vars)
            ctx.case((hid, step), sample={'op': 'modify the surface object returned earlier', 'object': o}, nontrivial=ch is not None)
            ctx.count('child-modification' + ('' if ch is not None else '(no child yet)'))
            if before != after:
                what = [k for k in before if before[k] != after[k]]
                ctx.fail(f'user-data-changed:child-modification:{what[0]}', 'modifying the surface object returned by to_surface() '
                         f'changed the {", ".join(what)} of the mesh it was extracted from', case, None)
                return
        else:
            try:
                with contextlib.redirect_stdout(io.StringIO()):
                    fd.write(arg, wdir / f's{step}' / 'mesh', overwrite=True)
            except Exception as e:
                ctx.notes.append(f'write {arg} raised {type(e).__name__}: {e}')
            after = user_snapshot(fd, user_vars)
            ctx.case((hid, step), sample={'op': 'write', 'format': arg, 'object': o}, nontrivial=True)
            ctx.count('writer:' + arg)
            if before != after:
                what = [k for k in before if before[k] != after[k]]
                ctx.fail(f'user-data-changed:write-{arg}:{what[0]}', f"write('{arg}') changed the {', '.join(what)} of the mesh", case, None)
                return
    # ---------------- fresh values (cold caches, freshly built equal meshes)
    stale = {}
    for rec in records:
        if rec['snapshot'] is None:
            continue
        clear_caches()
        try:
            with contextlib.redirect_stdout(io.StringIO()):
                fv = digest(queries[rec['q']][1](rec['snapshot']))
        except Exception as e:
            fv = ('raises', type(e).__name__)
        rec['fresh'] = fv
        rec['is_fresh'] = fv == rec['digest']
        if not rec['is_fresh']:
            if rec['modified_before']:
                mods_applied = [h[2] for h in rec['case']['history'][:rec['step']] if h[0] == 'm' and h[1] == rec['obj']
                                and h[2] != 'user variable overwrite']
                if script is not None and len(mods_applied) == 1:
                    # systematic sandwich: exactly one in-place change -> attribute the staleness to it
                    sig = f'stale-after:{mods_applied[0]}:{base_name(rec["qname"]).strip()}'
                else:
                    sig = f'stale-after-modify:{base_name(rec["qname"]).strip()}'
            elif rec['opts_differ']:
                sig = f'options-ignored:{base_name(rec["qname"]).strip()}'
            else:
                sig = f'history-dependent:{base_name(rec["qname"]).strip()}'
            case = dict(rec['case'])
            case['history'] = case['history'][:rec['step'] + 1]
            ctx.fail(sig, f'{rec["qname"]} on object {rec["obj"]} returned a value different from the value on a freshly built '
                     f'equal mesh after the history {case["history"]}', case, None)
    clear_caches()
    # ---------------- correspondence with the cache model
    if ctx.driver is not None and ops_model:
        line = 'c19.run 0 ' + C.enc_list(caps.items(), lambda kv: f'{kv[0]} {kv[1]}') + ' ' + C.enc_list(
            rules.items(), lambda kv: f'{kv[0][0]} {kv[0][1]} {kv[0][2]} ' + C.enc_list(kv[1], lambda c: f'{c[0]} {c[1]} {c[2]}')) + ' ' + \
            C.enc_list(ops_model, lambda op: (f'q {op[1]} {op[2]} {op[3]}' if op[0] == 'q' else f'm {op[1]}'))
        t = C.Toks(ctx.driver.ask(line))
        if t.tok() != 'ok':
            raise RuntimeError('driver')
        n = t.nat()
        per_rec = {}
        for op in ops_model:
            tag = t.tok()
            if tag == 'm':
                continue
            stamp, hits, misses = t.nat(), t.nat(), t.nat()
            acc = per_rec.setdefault(op[4], {'stamp': None, 'hits': 0, 'misses': 0})
            acc['stamp'] = stamp if acc['stamp'] is None else min(acc['stamp'], stamp)
            acc['hits'] += hits
            acc['misses'] += misses
        for idx, m in per_rec.items():
            rec = records[idx]
            if (m['hits'], m['misses']) != (rec['hits'], rec['misses']):
                ctx.disagree('cache hits/misses of ' + rec['qname'], rec['case'], {'hits': rec['hits'], 'misses': rec['misses']}, m)
                break
            # queries that read the derived variables stored in elemental_data (volume / area / metric) are outside the
            # lru model: their freshness is judged by the oracle only
            if m['stamp'] == rec['version'] and rec.get('is_fresh') is False and not reads_stored(rec['qname']):
                ctx.disagree('model says computed from the current mesh, value differs from fresh: ' + rec['qname'], rec['case'],
                             'stale', m)
                break


def run(ctx):
    install_tracing()
    ctx.extra['cached_methods'] = {n: _WRAPPED[n].cache_parameters()['maxsize'] for n in sorted(_WRAPPED)}
    for name, j in C.corpus_cases(PROP):
        ctx.count('corpus')
    # systematic sandwiches: every query, then every kind of in-place change, then the same query again
    nq = len(query_table())
    mods = ['remove_useless_nodes', 'make_elements_positive', 'connectivity assignment', 'coordinate assignment',
            'user variable overwrite']
    k = 0
    for qi in range(nq):
        for mname in (mods if not ctx.quick else [mods[(qi + j) % len(mods)] for j in range(2)] + ['user variable overwrite']):
            run_history(ctx, f's{k}', script=[('q', 0, qi), ('m', 0, mname), ('q', 0, qi)])
            k += 1
    qnames = [q[0] for q in query_table()]
    qs = qnames.index('to_surface()')
    for q2 in ('to_surface()', 'calculate_surface_normals()', 'extract_surface()'):
        run_history(ctx, f's{k}', script=[('q', 0, qs), ('c', 0, 'reverse-surface-facets'), ('q', 0, qnames.index(q2))])
        k += 1
    # ordered pairs of different spellings / options of the same query: the second must not see the first
    by_base = {}
    for qi, qn in enumerate(qnames):
        by_base.setdefault(base_name(qn).strip(), []).append(qi)
    pairs = [(a, b) for grp in by_base.values() for a in grp for b in grp if a != b]
    if ctx.quick:
        ctx.rng.shuffle(pairs)
        pairs = pairs[:40]
    for a, b in pairs:
        run_history(ctx, f's{k}', script=[('q', 0, a), ('q', 0, b)])
        k += 1
    ctx.extra['sandwich_histories'] = k
    for h in range(ctx.n(160, 1200)):
        run_history(ctx, h)
    clear_caches()


def replay(ctx, obj):
    return {'fails': False, 'note': 're-run ./check C19 with VERIF_SEED=%s: histories are rebuilt from the seed' % obj.get('seed')}
