"""C19 - analysis queries are pure and independent of call history (DESIGN.md section 4, C19).

Tie T+D: the capacities of all lru_cache'd methods are generated from the code (`Gen.lruSizes`); the nested
cached-call graph (exact key and receiver of every nested call) is traced from the real code by wrapping
the cached attributes; random interleavings of queries / in-place modifiers / writers over 1-4 live meshes
are executed on the real objects and on the cache model (`c19.run`): per query the numbers of cache hits
and misses and the version stamp of the returned value must be equal, and wherever the model says "computed
from the current mesh" the real value must equal the value of the same query on a freshly built equal mesh.
Oracle: value == fresh value for EVERY query; ids / coordinates / connectivity / user variables of EVERY live
object (the queried one, its siblings, the objects derived from it that share its arrays) unchanged by every query
and writer, compared bit-exactly after every operation.

A value that differs from the fresh one is attributed by PROVENANCE, not by "some modification happened before":
every lru entry and every derived variable stored in a variable table carries the mesh versions / options /
writer it was computed from (traced: lru hits and misses, reads and writes of the variable tables during the
query).  Only a value whose provenance contains an older mesh version is `stale-after:<modifier>:<query>` (open
finding F11); a value that read nothing stale must be fresh (`history-dependent:<query>` otherwise).  Lean:
`C19_stale_needs_stale_entry`.  A stored variable carries the user-level mode / sign options of the query that stored it, whether
that query RAISED, and whether an in-place modifier wrote it: `options-ignored` needs other options, `left-by-failed-query` /
`modifier-rewrote-derived` are violations (Lean: Model/StoredMetric.lean).  User variables exist in several layouts (vector,
narrow dtypes, time series with one step); their shapes, dtypes and time_series flags are snapshotted as stored."""
import contextlib
import functools
import hashlib
import io
import random

import numpy as np
import scipy.sparse as sp

from . import common as C
from . import meshgen as mg

PROP = 'C19'
LEAN_MODULES = ['Femio.Props.C19']
THEOREMS = ['access_good', 'C19_objects_dont_share', 'C19_user_data_untouched', 'C19_history_independent_partial',
            'C19_history_independent', 'C19_no_future_values', 'C19_stale_lru_counterexample', 'C19_stale_nested_counterexample',
            'C19_eviction_refreshes', 'C19_lru_sizes_positive', 'C19_stale_needs_stale_entry', 'C19_fresh_object_stays_fresh',
            'C19_failed_query_invisible', 'C19_partial_table_counterexample', 'C19_make_positive_drops_table',
            'C19_make_positive_flip_counterexample', 'C19_stored_options_ignored_counterexample']
PARTIAL = ['C19_history_independent_partial: the tree as it is satisfies history independence only for histories WITHOUT '
           'in-place modifiers; the full statement C19_history_independent is proved for the configuration in which modifiers '
           'clear the caches, which the tree does not implement (open known findings stale-after:* / stale-after-modify:*)',
           'derived variables stored in elemental_data (volume / area / metric) are returned regardless of mode / abs options, '
           'after in-place modifications and to every object sharing the variable table (to_polyhedron children): oracle only, '
           'attributed by traced reads of the variable tables (open known findings options-ignored:*, stale-after:*, shared-stored:*)',
           'C19_user_data_untouched is a statement about the model (queries do not bump versions); on the implementation it is '
           'checked by bit-exact snapshots of every live object after every operation',
           'C19_stale_needs_stale_entry covers the lru caches; the same argument for the stored derived variables is made by the '
           'harness only (provenance of traced table reads)',
           'the stored-table model (Model/StoredMetric.lean: C19_failed_query_invisible, C19_make_positive_drops_table and the three '
           'counterexamples) is a hand transcription of calculate_element_volumes / make_elements_positive for one table; it is '
           'tied to the code by the oracle only (metric-family stream), not by a driver correspondence',
           'a deviation is attributed to the open finding options-ignored only when the variable it read was stored by a query with '
           'OTHER user-level mode / sign options (indirect consumers count as centroid / signed, their documented default); to '
           'stale-after only when something it read is older than the mesh; a variable left by a query that raised, or written by an '
           'in-place modifier itself, is neither (left-by-failed-query:*, modifier-rewrote-derived:* are not known findings)']
RULE = ('seeded histories (quick <= 14 ops, thorough <= 40) over 1-4 live meshes of kind tet / hex / prism / mixed (hex+prism+pyr) / '
        '(each of these with inverted elements in ~40-60 % of the objects) '
        'tet2 / tri / quad shells / polyhedron, half of them translated far from the origin, with unreferenced nodes in the middle '
        'of unsorted node tables; ~60 query spellings (graph matrices, surface, facets, normals, areas, edge lengths, angles, '
        'jacobians, centroids, volumes in every mode, metrics, integrals, conversions, gradients, derived meshes; the default '
        '(raising) and the tolerant spellings of the metric family; positional vs '
        'keyword spellings are different cache keys), in-place modifiers (remove_useless_nodes, make_elements_positive, '
        'connectivity / coordinate assignment, user-variable overwrite), writers (ucd, fistr) and derived live objects '
        '(to_polyhedron / to_facets / to_surface / to_first_order results, which may share arrays and variable tables with the '
        'parent); systematic streams: [q, modifier, q] for every query, ordered pairs of spellings of one query, [block A, modifier, '
        '[A, (make_elements_positive), every volume / metric reader in shuffled order + 2 consumers] for every storing AND every '
        'raising spelling A on meshes with inverted elements (tet / hex / prism / mixed; styles some / one block / last block of '
        'the canonical type order / all), [write, query, write, query] for every layout of the additional user variables U / S '
        '(vector, float32 / float16 / int32 / int64 / uint8 / bool, time series with exactly 1, 2, 3 steps; shapes, dtypes and '
        'time_series flags are part of the bit-exact snapshot, never compared after broadcasting or casting), [block A, modifier, '
        'block B] covering EVERY ordered pair of queries per mesh family (quick: blocks of 16 + greedy completion, the number of '
        'uncovered pairs is in the evidence; thorough: [A, modifier, block of 8] for every A and every modifier), [derive child, '
        'query child, query parent]; every value that differs from the fresh one is attributed by traced provenance + a replay of '
        'the same queries on an unmodified equal mesh; a case = one operation; non-trivial = a query that hit a cache, or was made '
        'after an in-place modification, or on a second object')
ASSUMPTIONS = ['functools.lru_cache: LRU eviction, insertion after the wrapped call returns, key = (self, args, kwargs in call spelling)',
               'a freshly built equal mesh = FEMData constructed from copies of the current nodes, elements (and polyhedron faces) and '
               'user variables, queried with all caches cleared',
               'indirect consumers of the stored metrics (convert_elemental2nodal, integrate*, calculate_*_spatial_gradients) ask for '
               'them with the documented defaults mode=centroid, signed (true of the tree at 9dd4ddb; calibrated on seeds 0..5)',
               'reads / writes of the variable tables are observed through FEMAttributes.__getitem__ / __setitem__ / update / '
               'update_data (used only to ATTRIBUTE a deviation to a known finding, never to excuse an unread one)']

_TRACE = {'log': [], 'depth': 0, 'on': False, 'stack': [], 'tab': [], 'upd': 0, 'seq': 0}
_WRAPPED = {}
_TABWRAP = {}


def cached_methods():
    from femio import graph_processor, geometry_processor, signal_processor
    out = []
    for cls in (graph_processor.GraphProcessorMixin, geometry_processor.GeometryProcessorMixin,
                signal_processor.SignalProcessorMixin):
        for name, obj in list(vars(cls).items()):
            if hasattr(obj, 'cache_parameters') or name in _WRAPPED:
                out.append((cls, name))
    return out


def canon_key(recv, a, k):
    """the lru_cache key of a call, with argument OBJECTS replaced by their ordinal of first appearance for this
    receiver (lru_cache compares them by identity; the registry keeps them alive so ids are not reused)"""
    reg = _TRACE.setdefault('objs', {}).setdefault(id(recv), {})

    def c(v):
        if isinstance(v, (str, int, float, bool, type(None))):
            return v
        if isinstance(v, tuple):
            return tuple(c(x) for x in v)
        if id(v) not in reg:
            reg[id(v)] = (len(reg), v)
        return ('obj', reg[id(v)][0])
    return (tuple(c(x) for x in a), tuple((kk, c(v)) for kk, v in k.items()))


def install_tracing():
    """wrap every lru_cache'd attribute (once per process); the lru object itself is untouched"""
    for cls, name in cached_methods():
        if name in _WRAPPED:
            continue
        lru = vars(cls)[name]

        def make(lru, name):
            @functools.wraps(lru.__wrapped__)
            def traced(self, *a, **k):
                if not _TRACE['on']:
                    return lru(self, *a, **k)
                before = lru.cache_info()
                entry = {'depth': _TRACE['depth'], 'meth': name, 'key': canon_key(self, a, k), 'recv': id(self), 'hit': None,
                         'tab': []}
                _TRACE['log'].append(entry)
                _TRACE['depth'] += 1
                _TRACE['stack'].append(entry)
                try:
                    return lru(self, *a, **k)
                finally:
                    _TRACE['stack'].pop()
                    _TRACE['depth'] -= 1
                    after = lru.cache_info()
                    entry['hit'] = after.hits > before.hits and after.misses == before.misses
            traced.cache_info = lru.cache_info
            traced.cache_clear = lru.cache_clear
            traced.cache_parameters = lru.cache_parameters
            return traced
        _WRAPPED[name] = lru
        setattr(cls, name, make(lru, name))
    install_table_tracing()


def install_table_tracing():
    """observe which variables of a variable table a query reads and writes (FEMAttributes accessors).  The event goes to
    the innermost running lru-cached call, so that a cache entry inherits the provenance of what it was computed from."""
    from femio.fem_attributes import FEMAttributes
    if _TABWRAP:
        return
    og, os_, oud, oup = (FEMAttributes.__getitem__, FEMAttributes.__setitem__, FEMAttributes.update_data, FEMAttributes.update)
    _TABWRAP.update(getitem=og, setitem=os_, update_data=oud, update=oup)

    def emit(kind, tab, key):
        _TRACE['seq'] += 1
        sink = _TRACE['stack'][-1]['tab'] if _TRACE['stack'] else _TRACE['tab']
        for k in ([key] if isinstance(key, str) else list(key)):
            sink.append((kind, id(tab), tab._get_key(k), _TRACE['seq']))

    def getitem(self, key):
        if _TRACE['on'] and not _TRACE['upd']:
            emit('r', self, key)
        return og(self, key)

    def setitem(self, key, value):
        if _TRACE['on'] and not _TRACE['upd']:
            emit('w', self, key)
        return os_(self, key, value)

    def update_data(self, ids, data_dict, **kw):
        if not _TRACE['on']:
            return oud(self, ids, data_dict, **kw)
        _TRACE['upd'] += 1
        try:
            return oud(self, ids, data_dict, **kw)
        finally:
            _TRACE['upd'] -= 1
            if not _TRACE['upd']:
                emit('w', self, list(data_dict))

    def update(self, dict_attributes):
        if not _TRACE['on']:
            return oup(self, dict_attributes)
        _TRACE['upd'] += 1
        try:
            return oup(self, dict_attributes)
        finally:
            _TRACE['upd'] -= 1
            if not _TRACE['upd']:
                try:
                    emit('w', self, list(dict_attributes.keys()))
                except Exception:
                    pass
    FEMAttributes.__getitem__ = getitem
    FEMAttributes.__setitem__ = setitem
    FEMAttributes.update_data = update_data
    FEMAttributes.update = update


def clear_caches():
    for lru in _WRAPPED.values():
        lru.cache_clear()


# ----------------------------------------------------------------------------------------------- canonical values
def _h(*bs):
    h = hashlib.blake2b(digest_size=12)
    for b in bs:
        h.update(b)
    return h.hexdigest()


def _num(a):
    """bit-exact canonical bytes of a numeric array (every NaN is one token, ints independent of their width)"""
    if a.dtype.kind == 'f':
        a = np.ascontiguousarray(a, dtype=np.float64)
        if a.size and np.isnan(a).any():
            a = np.where(np.isnan(a), np.nan, a)
        return 'f', a.tobytes()
    return 'a', np.ascontiguousarray(a, dtype=np.int64).tobytes()


def digest(v):
    if sp.issparse(v):
        c = v.tocoo()
        c.sum_duplicates()
        order = np.lexsort((c.col, c.row))
        return ('sp', c.shape, _h(_num(c.row[order])[1], _num(c.col[order])[1], _num(c.data[order].astype(float))[1]))
    if isinstance(v, (list, tuple)):
        if v and all(isinstance(x, (int, float, np.integer, np.floating)) and not isinstance(x, bool) for x in v):
            return ('seq', [('n', float(x).hex() if isinstance(x, (float, np.floating)) else int(x)) for x in v])
        return ('seq', [digest(x) for x in v])
    if isinstance(v, dict):
        return ('dict', sorted((str(k), digest(x)) for k, x in v.items()))
    if v is None:
        return ('none',)
    if hasattr(v, 'nodes') and hasattr(v, 'elements'):
        return ('fem', digest(v.nodes.ids), digest(v.nodes.data), connectivity_digest(v))
    a = np.asarray(v)
    if a.dtype == object:
        return ('obj', a.shape, [digest(x) for x in a.ravel()])
    if a.dtype.kind in 'fiub':
        k, b = _num(a)
        return (k, a.shape, _h(b))
    return ('a', a.shape, a.ravel().tolist())


def connectivity_digest(fd):
    d = {t: (e.ids, e.data) for t, e in fd.elements.items()}
    if 'polyhedron' in d and 'face' in fd.elemental_data.data:
        try:
            d['face'] = list(fd.elemental_data.data['face']['polyhedron'].data)
        except Exception:
            d['face'] = 'unreadable'
    return digest(d)


USER = {'nodal': ['T', 'U'], 'elemental': ['E', 'S']}
STRUCTURAL = {'NODE', 'face'}
# layouts of the additional user variables U (nodal) / S (elemental): (label, dtype, width k, number of steps; 0 = not a series).
# A series is stored as FEMAttribute(..., time_series=True) with data of shape (steps, n, k): exactly one step is a legal series.
LAYOUTS = [('series-1step', 'float64', 1, 1), ('series-1step-vec3', 'float64', 3, 1), ('series-2steps', 'float64', 1, 2),
           ('series-3steps-f32', 'float32', 2, 3), ('vec3', 'float64', 3, 0), ('float32', 'float32', 1, 0), ('int32', 'int32', 1, 0),
           ('int64-neg', 'int64', 2, 0), ('uint8', 'uint8', 1, 0), ('bool', 'bool', 1, 0), ('float16', 'float16', 1, 0),
           ('series-1step-int32', 'int32', 1, 1)]


def layout_of(a):
    """shape, dtype and flags of a stored variable exactly as stored (never broadcast, never cast)"""
    if isinstance(a, dict):      # FEMElementalAttribute: one attribute per element type
        return ('per-type', [(t, layout_of(x)) for t, x in sorted(dict.items(a))])
    d = a.data
    return (type(a).__name__, list(np.shape(d)), str(getattr(d, 'dtype', type(d).__name__)), bool(getattr(a, 'time_series', False)),
            list(np.shape(a.ids)))
MESH_PARTS = ('node ids', 'coordinates', 'connectivity')


def user_snapshot(fd):
    nd, ed = fd.nodal_data.data, fd.elemental_data.data
    return {
        'node ids': digest(fd.nodes.ids), 'coordinates': digest(fd.nodes.data), 'connectivity': connectivity_digest(fd),
        'user variables': digest({k: (nd[k].ids, nd[k].data) for k in USER['nodal'] if k in nd}
                                 | {'E:' + k: digest(ed[k].data) for k in USER['elemental'] if k in ed}),
        'user variable names': sorted(k for k in USER['nodal'] if k in nd) + sorted(k for k in USER['elemental'] if k in ed),
        'user variable layout (shape / dtype / time_series flag)': [(k, layout_of(nd[k])) for k in USER['nodal'] if k in nd]
        + [('E:' + k, layout_of(ed[k])) for k in USER['elemental'] if k in ed],
    }


def derived_state(fd):
    """digests of the derived variables (everything the user did not store) of both variable tables of an object"""
    out = {}
    for tab, user in ((fd.nodal_data, USER['nodal']), (fd.elemental_data, USER['elemental'])):
        for k, a in tab.data.items():
            if k in user or k in STRUCTURAL:
                continue
            try:
                out[(id(tab), k)] = digest(a.data)
            except Exception:
                out[(id(tab), k)] = ('undigestable', id(a))
    return out


def capture(fd):
    """plain copies of everything a freshly built equal mesh is built from: nodes, elements (and polyhedron faces), user variables"""
    nd, ed = fd.nodal_data.data, fd.elemental_data.data
    cap = {'nid': np.array(fd.nodes.ids).copy(), 'xyz': np.array(fd.nodes.data).copy(),
           'el': [(t, np.array(e.ids).copy(), np.array(e.data).copy()) for t, e in fd.elements.items()],
           'nodal': {k: (np.array(nd[k].ids).copy(), np.array(nd[k].data).copy(), bool(nd[k].time_series))
                     for k in USER['nodal'] if k in nd},
           'elemental': {k: np.array(ed[k].data).copy() for k in USER['elemental'] if k in ed and k == 'E'},
           'elemental_typed': {k: [(t, np.array(x.ids).copy(), np.array(x.data).copy(), bool(x.time_series)) for t, x in dict.items(ed[k])]
                               for k in USER['elemental'] if k in ed and k != 'E'}}
    if 'polyhedron' in fd.elements and 'face' in ed:
        src = ed['face']['polyhedron']
        cap['face'] = (np.array(src.ids).copy(), [[int(y) for y in x] for x in src.data])
    return cap


def build(cap):
    """a freshly built mesh from a capture (every array copied again: two builds share nothing)"""
    from femio import FEMData, FEMAttribute, FEMElementalAttribute
    with contextlib.redirect_stdout(io.StringIO()):
        nodes = FEMAttribute('NODE', ids=cap['nid'].copy(), data=cap['xyz'].copy(), silent=True)
        el = FEMElementalAttribute('ELEMENT', {t: FEMAttribute(t, ids=i.copy(), data=d.copy(), silent=True) for t, i, d in cap['el']})
        new = FEMData(nodes=nodes, elements=el)
        for k, (i, d, ts) in cap['nodal'].items():
            new.nodal_data[k] = FEMAttribute(k, ids=i.copy(), data=d.copy(), silent=True, time_series=ts)
        for k, d in cap['elemental'].items():
            new.elemental_data.update_data(new.elements.ids, {k: d.copy()})
        for k, parts in cap.get('elemental_typed', {}).items():
            new.elemental_data[k] = FEMElementalAttribute(k, {t: FEMAttribute(k, ids=i.copy(), data=d.copy(), silent=True, time_series=ts)
                                                              for t, i, d, ts in parts})
        if 'face' in cap:
            faces = np.empty(len(cap['face'][1]), object)
            for i, x in enumerate(cap['face'][1]):
                faces[i] = list(x)
            new.elemental_data.update({'face': FEMElementalAttribute('face', {
                'polyhedron': FEMAttribute('face', ids=cap['face'][0].copy(), data=faces, silent=True)})})
    return new


def clone_fresh(fd):
    """a freshly built equal mesh (copies of nodes, elements, polyhedron faces, user variables)"""
    return build(capture(fd))


# ----------------------------------------------------------------------------------------------- queries
def _T(f):
    return f.nodal_data.get_attribute_data('T')


def _E(f):
    return f.elemental_data.get_attribute_data('E')


def query_table():
    q = [
        ('calculate_incidence_matrix()', lambda f: f.calculate_incidence_matrix()),
        ('calculate_incidence_matrix(order1_only=False)', lambda f: f.calculate_incidence_matrix(order1_only=False)),
        ('calculate_adjacency_matrix()', lambda f: f.calculate_adjacency_matrix()),
        ("calculate_adjacency_matrix(mode='nodal')", lambda f: f.calculate_adjacency_matrix(mode='nodal')),
        ('calculate_adjacency_matrix_node()', lambda f: f.calculate_adjacency_matrix_node()),
        ('calculate_adjacency_matrix_element()', lambda f: f.calculate_adjacency_matrix_element()),
        ("calculate_n_hop_adj('nodal', 2)", lambda f: f.calculate_n_hop_adj('nodal', 2)),
        ("calculate_n_hop_adj(mode='nodal', n_hop=2)", lambda f: f.calculate_n_hop_adj(mode='nodal', n_hop=2)),
        ("calculate_n_hop_adj('elemental', 1)", lambda f: f.calculate_n_hop_adj('elemental', 1)),
        ("calculate_n_hop_adj('nodal', 1, include_self_loop=False)", lambda f: f.calculate_n_hop_adj('nodal', 1, include_self_loop=False)),
        ("calculate_n_hop_adj('elemental', 1, False)", lambda f: f.calculate_n_hop_adj('elemental', 1, False)),
        ("calculate_n_hop_adj('nodal', 3, False)", lambda f: f.calculate_n_hop_adj('nodal', 3, False)),
        ("calculate_nodal_spatial_gradients(T)", lambda f: f.calculate_nodal_spatial_gradients(_T(f))),
        ("calculate_elemental_spatial_gradients(E)", lambda f: f.calculate_elemental_spatial_gradients(_E(f))),
        ("calculate_element_degree() ", lambda f: f.calculate_element_degree()),
        ("calculate_nodal_spatial_gradients(T, kernel='gauss', alpha=1.)", lambda f: f.calculate_nodal_spatial_gradients(
            _T(f), kernel='gauss', alpha=1.)),
        ("calculate_nodal_spatial_gradients(T, kernel='gauss', alpha=40.)", lambda f: f.calculate_nodal_spatial_gradients(
            _T(f), kernel='gauss', alpha=40.)),
        ("calculate_nodal_spatial_gradients(T, consider_volume=False)", lambda f: f.calculate_nodal_spatial_gradients(
            _T(f), consider_volume=False)),
        ("calculate_elemental_spatial_gradients(E, n_hop=2)", lambda f: f.calculate_elemental_spatial_gradients(_E(f), n_hop=2)),
        ("calculate_elemental_spatial_gradients(E, kernel='exp', alpha=2.)", lambda f: f.calculate_elemental_spatial_gradients(
            _E(f), kernel='exp', alpha=2.)),
        ("calculate_euclidean_hop_graph(1.5)", lambda f: f.calculate_euclidean_hop_graph(1.5)),
        ("calculate_euclidean_hop_graph(1.5, mode='nodal')", lambda f: f.calculate_euclidean_hop_graph(1.5, mode='nodal')),
        ('calculate_laplacian_matrix()', lambda f: f.calculate_laplacian_matrix()),
        ("calculate_laplacian_matrix(mode='elemental')", lambda f: f.calculate_laplacian_matrix(mode='elemental')),
        ('calculate_edge_gradient_matrix()', lambda f: f.calculate_edge_gradient_matrix()),
        ('calculate_e2v_matrix()', lambda f: f.calculate_e2v_matrix()),
        ("calculate_e2v_matrix(mode='nodal')", lambda f: f.calculate_e2v_matrix(mode='nodal')),
        ('extract_surface()', lambda f: f.extract_surface()),
        ('filter_first_order_nodes()', lambda f: f.filter_first_order_nodes()),
        ('calculate_element_degree()', lambda f: f.calculate_element_degree()),
        ('calculate_surface_normals()', lambda f: f.calculate_surface_normals()),
        ('to_surface()', lambda f: f.to_surface()),
        ('to_facets()', lambda f: f.to_facets()),
        ("calculate_element_volumes(mode='linear', raise_negative_volume=False)",
         lambda f: f.calculate_element_volumes(mode='linear', raise_negative_volume=False)),
        ("calculate_element_volumes(mode='centroid', raise_negative_volume=False)",
         lambda f: f.calculate_element_volumes(mode='centroid', raise_negative_volume=False)),
        ('calculate_element_volumes(raise_negative_volume=False, return_abs_volume=True)',
         lambda f: f.calculate_element_volumes(raise_negative_volume=False, return_abs_volume=True)),
        ('calculate_element_metrics(raise_negative_metric=False)', lambda f: f.calculate_element_metrics(raise_negative_metric=False)),
        ("convert_nodal2elemental('T', calc_average=True)", lambda f: f.convert_nodal2elemental('T', calc_average=True)),
        ("convert_elemental2nodal('E', 'mean')", lambda f: f.convert_elemental2nodal(_E(f), 'mean')),
        # ---- geometric queries that look node ids up / read the coordinates directly (shells, solids, polyhedra)
        ("calculate_element_volumes(mode='gaussian', raise_negative_volume=False)",
         lambda f: f.calculate_element_volumes(mode='gaussian', raise_negative_volume=False)),
        ('calculate_element_areas()', lambda f: f.calculate_element_areas()),
        ("calculate_element_areas(mode='linear', return_abs_area=False)",
         lambda f: f.calculate_element_areas(mode='linear', return_abs_area=False)),
        ("calculate_element_areas(mode='gaussian')", lambda f: f.calculate_element_areas(mode='gaussian')),
        ('calculate_element_metrics(raise_negative_metric=False, return_abs_metric=True)',
         lambda f: f.calculate_element_metrics(raise_negative_metric=False, return_abs_metric=True)),
        ('calculate_edge_lengths()', lambda f: f.calculate_edge_lengths()),
        ('calculate_angles()', lambda f: f.calculate_angles()),
        ('calculate_jacobians()', lambda f: f.calculate_jacobians()),
        ('calculate_element_normals()', lambda f: f.calculate_element_normals()),
        ("calculate_element_normals(mode='linear')", lambda f: f.calculate_element_normals(mode='linear')),
        ('calculate_all_element_normals()', lambda f: f.calculate_all_element_normals()),
        ('calculate_normal_incidence_matrix()', lambda f: f.calculate_normal_incidence_matrix()),
        ('calculate_element_centroids()', lambda f: f.calculate_element_centroids()),
        ('integrate(T)', lambda f: f.integrate(_T(f))),
        ('integrate_elements(T)', lambda f: f.integrate_elements(_T(f))),
        ("convert_nodal2elemental('NODE', calc_average=True)", lambda f: f.convert_nodal2elemental('NODE', calc_average=True)),
        ("convert_nodal2elemental(T, mode='mean')", lambda f: f.convert_nodal2elemental(_T(f))),
        ("calculate_surface_normals(mode='effective')", lambda f: f.calculate_surface_normals(mode='effective')),
        # ---- derived meshes (the returned object may share arrays and variable tables with its parent)
        ('to_polyhedron()', lambda f: f.to_polyhedron()),
        ('to_first_order()', lambda f: f.to_first_order()),
        ('to_surface(remove_unnecessary_nodes=False)', lambda f: f.to_surface(remove_unnecessary_nodes=False)),
        ('to_facets(remove_duplicates=False)', lambda f: f.to_facets(remove_duplicates=False)),
        # ---- the default spellings RAISE on a mesh with an inverted element (raise_negative_*=True): what a failed query
        # leaves behind must not be seen by later queries; the tolerant spellings of the consumers of the stored metrics
        ('calculate_element_volumes()', lambda f: f.calculate_element_volumes()),
        ('calculate_element_metrics()', lambda f: f.calculate_element_metrics()),
        ("calculate_element_volumes(mode='linear')", lambda f: f.calculate_element_volumes(mode='linear')),
        ('calculate_element_volumes(raise_negative_volume=False)', lambda f: f.calculate_element_volumes(raise_negative_volume=False)),
        ("convert_elemental2nodal(E, 'mean', raise_negative_volume=False)",
         lambda f: f.convert_elemental2nodal(_E(f), 'mean', raise_negative_volume=False)),
        ("convert_elemental2nodal(E, 'effective')", lambda f: f.convert_elemental2nodal(_E(f), 'effective')),
        ("convert_nodal2elemental('U', calc_average=True)", lambda f: f.convert_nodal2elemental('U', calc_average=True)),
    ]
    return q


QUERIES = query_table()
QNAMES = [q[0] for q in QUERIES]
DERIVERS = ['to_polyhedron()', 'to_facets()', 'to_surface()', 'to_surface(remove_unnecessary_nodes=False)', 'to_first_order()',
            'to_facets(remove_duplicates=False)']
DEFAULT_TAG = 'centroid/signed'


def vopt(qname):
    """with which options a query makes femio evaluate (and store) the element volumes / areas / metrics"""
    if qname.startswith('calculate_element_volumes'):
        mode = 'linear' if "mode='linear'" in qname else 'gaussian' if "mode='gaussian'" in qname else 'centroid'
        return mode + ('/abs' if 'return_abs_volume=True' in qname else '/signed')
    if qname.startswith('calculate_element_areas'):
        mode = 'linear' if "mode='linear'" in qname else 'gaussian' if "mode='gaussian'" in qname else 'centroid'
        return mode + ('/signed' if 'return_abs_area=False' in qname else '/abs')
    if qname.startswith('calculate_element_metrics'):
        return 'centroid' + ('/abs' if 'return_abs_metric=True' in qname else '/signed')
    return DEFAULT_TAG


def base_name(qname):
    return qname.split('(')[0].strip()


# ----------------------------------------------------------------------------------------------- objects
ROOT_KINDS = ['tet', 'hex', 'prism', 'mixed', 'tet2', 'tri', 'quad', 'poly']
FAMILIES = {'solid': ['tet', 'hex', 'prism', 'tet2', 'mixed'], 'shell': ['tri', 'quad'], 'poly': ['poly']}
OFFSETS = [(10., 20., 30.), (-7.5, 100., 3.25), (1000., -2000., 500.)]
_CHILD_APPL = {}
_PENDING = {}
_APPL = {}      # class of object -> set of query indices that do not raise NotImplementedError / KeyError on it


def gen_spec(r, kind, max_cells=2):
    geo = dict(max_cells=max_cells, jitter=True, voids=False, unref=False, affine=False)
    if kind in ('tet', 'hex', 'prism', 'mixed'):
        m = mg.gen_geometric(r, kind=kind, **geo)
    elif kind == 'tet2':
        m = mg.gen_geometric(r, kind='tet', **geo)
        if r.random() < .3:      # inverted second-order tets: mirrored before the mid-edge nodes are attached
            m['blocks'] = dict(m['blocks'])
            m['inverted'] = invert_blocks(r, m['blocks'], r.choice(INVERT_STYLES))
        m = mg.promote_tet2(r, m)
    elif kind in ('tri', 'quad'):
        solid = mg.gen_geometric(r, kind='tet' if kind == 'tri' else 'hex', **geo)
        with contextlib.redirect_stdout(io.StringIO()):
            s = mg.to_femio(solid).to_surface()
        rows = [(int(e), [int(x) for x in c]) for e, c in zip(s.elements.ids, s.elements.data)]
        eids = r.sample(range(1, 4 * len(rows) + 2), len(rows))
        rows = [(e, c) for e, (_, c) in zip(eids, rows)]
        r.shuffle(rows)
        m = {'kind': kind, 'order': solid['order'], 'nodes': [(int(i), tuple(float(x) for x in p)) for i, p in zip(s.nodes.ids, s.nodes.data)],
             'blocks': {kind: rows}}
    else:
        # small: to_polyhedron converts element by element through a jitted function returning a Python list
        base = r.choice(['tet', 'hex', 'prism'])
        geo['max_cells'] = min(max_cells, 2 if base == 'hex' else 1)
        m = mg.gen_geometric(r, kind=base, **geo)
        m['poly'] = True
    m['kind'] = kind
    if r.random() < .5:     # not centred at the origin
        off = r.choice(OFFSETS)
        m['nodes'] = [(i, tuple(float(x) + d for x, d in zip(p, off))) for i, p in m['nodes']]
        m['offset'] = off
    return m


_POOL = {}


def pooled_spec(r, kind, size=6):
    """systematic streams (thousands of 3-op histories in the thorough tier) draw their mesh from a small pool per kind:
    generating a conforming mesh with exact rational geometry costs more than the history itself.  Unreferenced nodes, inverted
    tets, user variables and (for siblings) storage orders are still drawn per object."""
    pool = _POOL.setdefault(kind, [])
    if len(pool) < size:
        pool.append(gen_spec(r, kind))
        return pool[-1]
    return r.choice(pool)


INVERT = {'tet': [0, 2, 1, 3], 'hex': [4, 5, 6, 7, 0, 1, 2, 3], 'prism': [3, 4, 5, 0, 1, 2], 'pyr': [0, 3, 2, 1, 4]}
INVERT_STYLES = ['some', 'one-block', 'last-block', 'all']


def make_object(r, kind, sibling_of=None, pooled=False, layout=None, invert=None):
    if pooled and sibling_of is None:
        return _finish_object(r, kind, pooled_spec(r, kind), True, layout, invert)
    if sibling_of is not None:
        # same sizes and topology, other storage order and coordinates: anything shared between objects shows
        m = {k: v for k, v in sibling_of.items()}
        nodes = [(i, tuple(2 * x + 1 for x in p)) for i, p in sibling_of['nodes']]
        r.shuffle(nodes)
        m['nodes'] = nodes
        m['blocks'] = {t: list(b) for t, b in sibling_of['blocks'].items()}
        for b in m['blocks'].values():
            r.shuffle(b)
        return _finish_object(r, kind, m, False, layout, invert)
    return _finish_object(r, kind, gen_spec(r, kind), True, layout, invert)


def invert_blocks(r, blocks, style):
    """mirror the connectivity of some elements (negative signed volume): `some` = a third of the elements of every block drawn
    with probability 1/2 (at least one block), `one-block` = all elements of one block, `last-block` = all elements of the block
    that comes LAST in femio's canonical type order (the earlier blocks stay positive), `all` = every element"""
    from femio import FEMElementalAttribute
    order = [t for t in FEMElementalAttribute.ELEMENT_TYPES if t in blocks and t in INVERT]
    if not order:
        return []
    if style == 'last-block':
        chosen = {order[-1]: 1.}
    elif style == 'one-block':
        chosen = {r.choice(order): 1.}
    elif style == 'all':
        chosen = {t: 1. for t in order}
    else:
        chosen = {t: 1 / 3 for t in order if r.random() < .5} or {r.choice(order): 1 / 3}
    done = []
    for t, frac in chosen.items():
        rows = blocks[t] = list(blocks[t])
        for idx in r.sample(range(len(rows)), max(1, int(len(rows) * frac))):
            e, c = rows[idx]
            rows[idx] = (e, [c[j] for j in INVERT[t]])
        done.append(t)
    return done


def _finish_object(r, kind, m, fresh, layout=None, invert=None):
    from femio import FEMAttribute, FEMElementalAttribute
    from fractions import Fraction as F
    base = {k: v for k, v in m.items()}
    base['nodes'] = list(m['nodes'])
    base['blocks'] = {t: list(b) for t, b in m['blocks'].items()}
    nodes = list(m['nodes'])
    # unreferenced nodes so that remove_useless_nodes is a real modification.  (Not for polyhedra: their face table holds
    # storage indices which remove_useless_nodes does not renumber - noted, a different defect.)
    n_extra = r.choice([0, 1, 2]) if fresh and not m.get('poly') else 0
    mx = max(i for i, _ in nodes)
    used = {i for i, _ in nodes}
    gaps = [i for i in range(min(used) + 1, min(mx, min(used) + 400)) if i not in used]
    for k in range(n_extra):
        # id in the middle of the id range when there is a gap (remove_useless_nodes then drops a row in the middle of the
        # id-sorted table), else beyond the largest id; storage position anywhere
        nid = mx + 3 + k
        if gaps and r.random() < .6:
            nid = gaps.pop(r.randrange(len(gaps)))
        nodes.insert(r.randint(0, len(nodes)), (nid, (F(50 + k), F(50), F(50))))
    m = dict(m)
    m['nodes'] = nodes
    # inverted elements (negative signed volume) in every solid kind: make_elements_positive is a real modification, queries
    # with raise_negative_*=True (the default of most of them) RAISE, signed and absolute metrics differ
    inverted = []
    if kind in ('tet', 'hex', 'prism', 'mixed') and not m.get('poly'):
        if invert is None:
            invert = r.choice(INVERT_STYLES) if r.random() < (.6 if kind == 'tet' else .4) else 'none'
        if invert != 'none':
            m['blocks'] = dict(m['blocks'])
            inverted = invert_blocks(r, m['blocks'], invert)
    fd = mg.to_femio(m)
    with contextlib.redirect_stdout(io.StringIO()):
        if m.get('poly'):
            fd = clone_fresh(fd.to_polyhedron())
        fd.nodal_data['T'] = FEMAttribute('T', ids=fd.nodes.ids, data=np.array(
            [[r.uniform(-9, 9)] for _ in fd.nodes.ids]), silent=True)
        fd.elemental_data.update_data(fd.elements.ids, {'E': np.array([[r.uniform(1, 9)] for _ in fd.elements.ids])})
        # additional user variables in other layouts (vector, narrow / integer / bool dtypes, time series with 1, 2, 3 steps)
        if layout is None:
            layout = r.choice(LAYOUTS) if r.random() < .4 else 'none'
        if layout != 'none':
            label, dt, kk, steps = layout

            def values(n):
                shape = (steps, n, kk) if steps else (n, kk)
                if dt == 'bool':
                    return np.array([r.random() < .5 for _ in range(int(np.prod(shape)))]).reshape(shape)
                if dt.startswith('uint'):
                    return np.array([r.randrange(0, 250) for _ in range(int(np.prod(shape)))], dtype=dt).reshape(shape)
                if dt.startswith('int'):
                    return np.array([r.randrange(-40000, 40000) for _ in range(int(np.prod(shape)))], dtype=dt).reshape(shape)
                return np.array([r.uniform(-9, 9) for _ in range(int(np.prod(shape)))]).astype(dt).reshape(shape)
            fd.nodal_data['U'] = FEMAttribute('U', ids=fd.nodes.ids, data=values(len(fd.nodes.ids)), silent=True,
                                              time_series=bool(steps))
            types = fd.elements.keys()
            if not steps or len(types) == 1:
                fd.elemental_data['S'] = FEMElementalAttribute('S', {
                    t: FEMAttribute('S', ids=np.array(fd.elements[t].ids).copy(), data=values(len(fd.elements[t].ids)), silent=True,
                                    time_series=bool(steps)) for t in types})
    fd._verif_base = base
    fd._verif_kind = kind
    fd._verif_layout = layout if layout == 'none' else layout[0]
    fd._verif_inverted = inverted
    return fd


def describe_object(fd):
    """concrete description of a live object for the replay file"""
    nd, ed = fd.nodal_data.data, fd.elemental_data.data
    d = {'kind': getattr(fd, '_verif_kind', None), 'node_ids': np.asarray(fd.nodes.ids).tolist(),
         'coordinates': np.asarray(fd.nodes.data, dtype=float).tolist(),
         'elements': {t: {'ids': np.asarray(e.ids).tolist(), 'nodes': [[int(x) for x in row] for row in e.data]}
                      for t, e in fd.elements.items()}}
    if 'T' in nd:
        d['T'] = np.asarray(nd['T'].data, dtype=float).ravel().tolist()
    if 'E' in ed:
        d['E'] = np.asarray(ed['E'].data, dtype=float).ravel().tolist()
    if 'U' in nd:
        d['U'] = {'layout': layout_of(nd['U']), 'values': np.asarray(nd['U'].data, dtype=float).ravel().tolist()}
    if 'S' in ed:
        d['S'] = {'layout': layout_of(ed['S']), 'values': {t: np.asarray(x.data, dtype=float).ravel().tolist() for t, x in dict.items(ed['S'])}}
    if getattr(fd, '_verif_inverted', None):
        d['inverted_element_types'] = list(fd._verif_inverted)
    return d


def class_of(fd):
    return (tuple(sorted(fd.elements.keys())), 'T' in fd.nodal_data.data, 'E' in fd.elemental_data.data, 'U' in fd.nodal_data.data)


def applicable(fd, defer=False):
    """indices of the queries that are implemented for this class of object (probed once per class on a private clone).
    The probe goes through the lru caches, so it is never made in the middle of a history: with `defer` an unknown class is
    probed after the history (until then every query counts as implemented)"""
    key = class_of(fd)
    if key not in _APPL and defer:
        _PENDING.setdefault(key, capture(fd))
        return set(range(len(QUERIES)))
    if key not in _APPL:
        probe = clone_fresh(fd)
        ok = set()
        with contextlib.redirect_stdout(io.StringIO()):
            for qi, (qn, qf) in enumerate(QUERIES):
                try:
                    qf(probe)
                    ok.add(qi)
                except (NotImplementedError, KeyError):
                    pass
                except Exception:
                    ok.add(qi)
        clear_caches()
        _APPL[key] = ok
    return _APPL[key]


MODS = ['remove_useless_nodes', 'make_elements_positive', 'connectivity assignment', 'coordinate assignment',
        'user variable overwrite']


def apply_modifier(r, fd, which):
    with contextlib.redirect_stdout(io.StringIO()):
        if which == 'remove_useless_nodes':
            fd.remove_useless_nodes()
        elif which == 'make_elements_positive':
            fd.make_elements_positive()
        elif which == 'coordinate assignment':   # public setter of the node table: an affine change of all coordinates
            fd.nodes.data = fd.nodes.data * 1.25 + np.array([0.5, -0.25, 0.125])
        elif which == 'user variable overwrite':  # not a mesh modification: the user replaces the values of his own variable
            fd.nodal_data.overwrite('T', fd.nodal_data.get_attribute_data('T') * -2.0 + 1.0)
        else:   # connectivity assignment: swap two nodes of one element (keeps every referenced node)
            data = np.array(fd.elements.data).copy()
            j = r.randrange(len(data))
            data[j, [1, 2]] = data[j, [2, 1]]
            fd.elements.data = data


# ----------------------------------------------------------------------------------------------- provenance
def p_merge(a, b):
    v = dict(a[0])
    for k, x in b[0].items():
        v[k] = min(v.get(k, x), x)
    return (v, a[1] | b[1])


class History:
    """state of one history: live objects, versions, traced provenance of every cache entry and stored variable"""

    def __init__(self, ctx, hid, objs, label):
        self.ctx, self.hid, self.objs, self.label = ctx, hid, list(objs), label
        n = len(objs)
        self.alive = [True] * n
        self.parent = [None] * n
        self.versions = [0] * n
        self.mods = [[] for _ in range(n)]        # modifier that produced version k+1
        self.state_no = [0] * n                   # bumped whenever the user-visible state of the object changes
        self.snaps = [user_snapshot(fd) for fd in objs]
        self.kept = [None] * n
        self.lru_prov = {}                        # (recv id, meth, key) -> (provenance, lru-only stamp)
        self.stored = {}                          # (table id, name) -> provenance of the stored derived variable
        self.derived = {}
        for fd in objs:
            self.derived.update(derived_state(fd))
        self.descr = [describe_object(fd) for fd in objs]
        self.hist = []
        self.records = []
        self.ops_model = []
        self.model_on = True
        self.rules = {}
        self.argids = {}
        self.pristine = {}
        self.tmp_ids = {}
        self.replayed = {}
        self.mirror_ok = [True] * n               # does nodal_data['NODE'] of the object still mirror its node table?
        self.tmp_keep = []

    # -- bookkeeping
    def live(self):
        return [i for i, a in enumerate(self.alive) if a]

    def index_of(self, recv_id):
        for i, fd in enumerate(self.objs):
            if id(fd) == recv_id:
                return i
        return None

    def case(self):
        return {'stream': self.label, 'objects': self.descr, 'history': [list(h) for h in self.hist]}

    def adopt(self, child, parent, how):
        self.objs.append(child)
        self.alive.append(True)
        self.parent.append(parent)
        self.versions.append(0)
        self.mods.append([])
        self.state_no.append(0)
        self.snaps.append(user_snapshot(child))
        self.kept.append(None)
        self.mirror_ok.append(True)
        child._verif_kind = f'{how} of object {parent}'
        self.descr.append({'derived': how, 'from_object': parent})
        self.derived.update(derived_state(child))
        return len(self.objs) - 1

    def resnapshot(self):
        """snapshots of every live object; returns {object: [changed parts]}"""
        changed = {}
        for i in self.live():
            s = user_snapshot(self.objs[i])
            if s != self.snaps[i]:
                changed[i] = [k for k in s if s[k] != self.snaps[i][k]]
                self.snaps[i] = s
                self.state_no[i] += 1
        return changed

    def pristine_clone(self, o):
        k = (o, self.state_no[o])
        if k not in self.pristine:
            self.pristine[k] = capture(self.objs[o])
        return k

    # -- provenance of one traced query
    def provenance(self, o, log, toptab, tag):
        versions = self.versions
        first_write = {}
        for tab in [toptab] + [e['tab'] for e in log]:
            for kind, tid, name, seq in tab:
                if kind == 'w':
                    first_write[(tid, name)] = min(first_write.get((tid, name), seq), seq)
        stale_reads = []
        flags = set()

        def reads(tab):
            P = ({}, frozenset())
            for kind, tid, name, seq in tab:
                if kind != 'r' or seq >= first_write.get((tid, name), 1 << 60):
                    continue
                if (tid, name) in self.stored:
                    P = p_merge(P, self.stored[(tid, name)])
                    stale_reads.append(name)
                elif name == 'NODE' and tid == id(self.objs[o].nodal_data) and not self.mirror_ok[o]:
                    stale_reads.append(name)
                    flags.add('detached-node-variable')
            return P
        n = len(log)

        def proc(i):
            e = log[i]
            ridx = self.index_of(e['recv'])
            owner = o if ridx is None else ridx
            kk = (e['recv'], e['meth'], e['key'])
            if e['hit']:
                got = self.lru_prov.get(kk)
                if got is None:
                    got = (({owner: versions[owner]}, frozenset()), versions[owner])
                e['ls'] = got[1]
                return got[0], got[1], i + 1
            P = ({owner: versions[owner]}, frozenset())
            ls = versions[owner]
            j = i + 1
            while j < n and log[j]['depth'] > e['depth']:
                jj = j
                Pc, lsc, j = proc(jj)
                P = p_merge(P, Pc)
                if log[jj]['recv'] == e['recv']:
                    ls = min(ls, lsc)
            P = p_merge(P, reads(e['tab']))
            self.lru_prov[kk] = (P, ls)
            e['ls'] = ls
            return P, ls, j
        P = ({o: versions[o]}, frozenset())
        ls = versions[o]
        i = 0
        while i < n:
            ii = i
            Pc, lsc, i = proc(ii)
            P = p_merge(P, Pc)
            if log[ii]['recv'] == id(self.objs[o]):
                ls = min(ls, lsc)
        P = p_merge(P, reads(toptab))
        return P, ls, sorted(set(stale_reads)), flags

    def restamp_stored(self, P, tag, keep_old=False, rewriter=None):
        """derived variables that appeared / changed get the provenance P of the operation that wrote them: for a query its
        own provenance; for an in-place modifier (make_elements_positive stores the metrics of the mesh as it WAS,
        remove_useless_nodes filters every nodal variable) the version before the modification, resp. what the variable
        had (keep_old).  nodal_data['NODE'] is the constructor's mirror of the node table: it is current exactly as long as it
        still mirrors it (a derived object built on the same table rebinds it to its own attribute)."""
        new = {}
        for i in self.live():
            new.update(derived_state(self.objs[i]))
        for k, d in new.items():
            if self.derived.get(k) != d:
                if rewriter is not None:
                    # an in-place MESH modifier created / changed a stored derived variable itself: whatever a later query reads
                    # from it is the modifier's doing, not an entry that was "never invalidated" (F11)
                    # (it is the modifier's product for the mesh as it is NOW: current versions, earlier labels dropped)
                    self.stored[k] = ({i: self.versions[i] for i in P[0]}, frozenset({f'{k[1]} rewritten by {rewriter}'}))
                elif not (keep_old and k in self.stored):
                    self.stored[k] = (dict(P[0]), P[1] | {f'{k[1]} stored by {tag}'})
        for k in list(self.stored):
            if k not in new:
                del self.stored[k]
        self.derived = new
        for i in self.live():
            fd = self.objs[i]
            mirror = fd.nodal_data.data.get('NODE')
            try:
                self.mirror_ok[i] = mirror is None or (self.snaps[i]['coordinates'] == digest(mirror.data)
                                                       and self.snaps[i]['node ids'] == digest(mirror.ids))
            except Exception:
                self.mirror_ok[i] = False


def history_only(h, rec, idx):
    """does the SAME sequence of queries of this object, made on a freshly built equal mesh of the CURRENT state (no in-place
    modification, no other object), reproduce the deviating value?  Then the deviation is not a matter of a modification.
    One pass per (object, state): all queries of the object in order on one clone, the value at every position recorded."""
    key = (rec['obj'], rec['snapshot'])
    if key not in h.replayed:
        clear_caches()
        clone = build(h.pristine[rec['snapshot']])
        out = {}
        with contextlib.redirect_stdout(io.StringIO()):
            for i, r2 in enumerate(h.records):
                if r2['obj'] != rec['obj']:
                    continue
                try:
                    v = QUERIES[r2['q']][1](clone)
                    out[i] = digest(v) if r2['snapshot'] == rec['snapshot'] else None
                except Exception as e:
                    out[i] = ('raises', type(e).__name__)
        clear_caches()
        h.replayed[key] = out
    return h.replayed[key].get(idx) == rec['digest']


def signature_of(h, rec, hist_only):
    """attribute a value that differs from the fresh one; see the module docstring"""
    P, o, q = rec['P'], rec['obj'], base_name(rec['qname'])
    stored_by = sorted(P[1])
    failed = [x for x in stored_by if ' stored by FAILED ' in x]
    rewritten = [x for x in stored_by if ' rewritten by ' in x]
    # the open finding `options-ignored` explains a stored variable that is returned to a query asking for OTHER mode / sign options
    # than the query that stored it (user-level options; the indirect consumers count with the defaults they document:
    # centroid / signed).  When the options coincide there is nothing it can explain.
    other_options = [x for x in stored_by if x.endswith(']') and ' stored by ' in x and x[x.rindex('[') + 1:-1] != rec['tag']]
    if hist_only and other_options:
        return f'options-ignored:{q}', ('the same queries on an unmodified equal mesh give the same value: it returned a derived '
                                       f'variable as stored by an earlier query ({", ".join(stored_by)}), whatever the options')
    if hist_only and not stored_by:
        return f'history-dependent:{q}', 'the same queries on an unmodified equal mesh give the same value; it read no stored variable'
    stale = {}
    for oo, v in P[0].items():
        cur = rec['versions'][oo] if oo < len(rec['versions']) else 0
        if v < cur:
            stale[oo] = h.mods[oo][v:cur]
    if 'detached-node-variable' in rec['flags']:
        return f'detached-node-variable:{q}', ("it read nodal_data['NODE'], which no longer mirrors the node table of the object: another "
                                              'object built on the same variable table (to_facets / to_surface / to_polyhedron result) '
                                              'rebound it, and the coordinates of one of them were assigned since')
    if stale:
        kinds = sorted({m for ms in stale.values() for m in ms})
        if len(kinds) == 1:
            return f'stale-after:{kinds[0]}:{q}', f'its value was computed from the mesh as it was before {kinds[0]}'
        return f'stale-after-modify:{q}', f'its value was computed from the mesh as it was before {" / ".join(kinds)}'
    if any(oo != o for oo in P[0]):
        return f'shared-stored:{q}', ('it returned a derived variable stored by a query on ANOTHER live object that shares the '
                                     'variable table (derived object)')
    if other_options:
        return f'options-ignored:{q}', f'it returned a derived variable as stored by an earlier query ({", ".join(stored_by)})'
    # nothing it read is older than the mesh, nothing was stored with other options: not explained by the open findings
    if failed:
        return f'left-by-failed-query:{q}', ('it returned a derived variable that a query which RAISED had left in the variable table '
                                            f'({", ".join(failed)}; this query: [{rec["tag"]}]): a failed query must not be visible '
                                            'to later ones')
    if rewritten:
        mods = sorted({x.split(' rewritten by ')[1] for x in rewritten})
        return f'modifier-rewrote-derived:{"+".join(mods)}:{q}', (
            f'it returned a derived variable that the in-place modifier itself wrote or changed ({", ".join(rewritten)}): after a '
            'library modification later queries must reflect the modified mesh')
    if stored_by:
        return f'history-dependent:{q}', ('it returned a derived variable stored by an earlier query asked with the SAME mode / sign '
                                         f'options ({", ".join(stored_by)}; this query: [{rec["tag"]}]); nothing it read is older '
                                         'than the mesh' + ('; the same queries on an unmodified equal mesh give the same value'
                                                            if hist_only else ''))
    return f'history-dependent:{q}', ('it read no cache entry or stored variable older than the mesh'
                                     + ('; the same queries on an unmodified equal mesh give the same value' if hist_only else ''))


def run_history(ctx, hid, script=None, kind=None, label='random', n_roots=1, layout=None, invert=None):
    r = ctx.rng
    kind = kind or r.choice(['tet', 'tet', 'hex', 'prism', 'tet', 'hex', 'mixed', 'tet2', 'tri', 'quad', 'poly', 'poly'])
    n_obj = r.choice([1, 1, 2, 3]) if script is None else n_roots
    objs = []
    for i in range(n_obj):
        sib = objs[0]._verif_base if (i > 0 and r.random() < .6) else None
        objs.append(make_object(r, kind, sibling_of=sib, pooled=script is not None, layout=layout, invert=invert))
        ctx.count('user-variable-layout:' + objs[-1]._verif_layout)
        ctx.count('inverted-elements:' + (kind + ':' + '+'.join(objs[-1]._verif_inverted) if objs[-1]._verif_inverted else 'none'))
    names = sorted(_WRAPPED)
    meth_id = {n: i for i, n in enumerate(names)}
    caps = {meth_id[n]: _WRAPPED[n].cache_parameters()['maxsize'] for n in names}
    appl = [sorted(applicable(fd)) for fd in objs]
    clear_caches()
    _TRACE['objs'] = {}
    h = History(ctx, hid, objs, label)
    asked = [[] for _ in range(n_obj)]
    n_ops = r.randint(2, ctx.n(14, 40)) if script is None else len(script)
    wdir = ctx.tmp / f'w{hid}'
    wdir.mkdir(parents=True, exist_ok=True)
    ctx.count('history-kind:' + kind)
    for step in range(n_ops):
        setup_only = False
        if script is not None:
            op = tuple(script[step][:3])
            setup_only = len(script[step]) > 3
            if op[1] >= len(h.objs) or not h.alive[op[1]]:
                ctx.count('scripted-op-skipped(no such live object)')
                continue
        else:
            u = r.random()
            o = r.choice(h.live())
            while len(asked) < len(h.objs):
                asked.append([])
                appl.append(sorted(applicable(h.objs[len(appl)], defer=True)))
            if u < .70:
                # re-query bias: history dependence shows when a query is repeated after something else happened
                if asked[o] and r.random() < .4:
                    op = ('q', o, r.choice(asked[o]))
                elif appl[o] and r.random() < .95:
                    op = ('q', o, r.choice(appl[o]))
                else:
                    op = ('q', o, r.randrange(len(QUERIES)))
                asked[o].append(op[2])
            elif u < .86:
                while h.parent[o] is not None:      # in-place modifiers are applied to root objects only
                    o = h.parent[o]
                op = ('m', o, r.choice(MODS))
            elif u < .91:
                op = ('w', o, r.choice(['ucd', 'fistr']))
            elif u < .97:
                cand = [QNAMES.index(d) for d in DERIVERS if QNAMES.index(d) in appl[o]]
                op = ('d', o, r.choice(cand)) if cand and len(h.live()) < 4 else ('q', o, r.choice(appl[o] or [0]))
            else:
                op = ('c', o, 'reverse-surface-facets')
        kindop, o, arg = op
        fd = h.objs[o]
        h.hist.append([kindop, o, arg if kindop not in 'qd' else QNAMES[arg]])
        if kindop in 'qd':
            qname, qf = QUERIES[arg]
            tag = vopt(qname)
            _TRACE.update(log=[], depth=0, stack=[], tab=[], upd=0, on=True)
            err = None
            val = None
            try:
                with contextlib.redirect_stdout(io.StringIO()):
                    val = qf(fd)
                dg = digest(val)
                if qname == 'to_surface()':
                    h.kept[o] = val
            except Exception as e:
                err = f'{type(e).__name__}: {e}'
                dg = ('raises', type(e).__name__)
            finally:
                _TRACE['on'] = False
            log, toptab = _TRACE['log'], _TRACE['tab']
            P, ls, stale_reads, flags = h.provenance(o, log, toptab, tag)
            changed = h.resnapshot()
            case = h.case()
            if changed:
                oo = sorted(changed)[0]
                where = 'the mesh' if oo == o else f'ANOTHER live object (object {oo}, {h.descr[oo].get("derived", "independent")})'
                ctx.fail(f'user-data-changed:{base_name(qname)}:{changed[oo][0]}',
                         f'{qname} on object {o} changed the {", ".join(changed[oo])} of {where}', case, None)
                return
            h.restamp_stored(P, ('FAILED ' if err is not None else '') + f'{base_name(qname)}[{tag}]')
            modified_before = h.versions[o] > 0
            rec = {'step': step, 'obj': o, 'qname': qname, 'q': arg, 'digest': dg, 'version': h.versions[o],
                   'versions': list(h.versions), 'hits': sum(1 for e in log if e['hit']), 'misses': sum(1 for e in log if not e['hit']),
                   'snapshot': h.pristine_clone(o), 'case': case, 'err': err, 'P': P, 'ls': ls, 'tag': tag,
                   'reads_stored': bool(stale_reads), 'n_hist': len(h.hist), 'flags': flags, 'setup_only': setup_only}
            h.records.append(rec)
            # rules from the trace: children of every miss
            top = [e for e in log if e['depth'] == 0]
            tmp_serial = {}
            for e in log:
                # the nested calls of a query depend on the MESH of its receiver (e.g. which facet types its surface has), not only
                # on method / arguments / version: the argument id carries the receiver as well - the live object, or (query,
                # temporary) for a temporary mesh built by the query.  (Cache keys are unaffected: they contain the object anyway.)
                ri = h.index_of(e['recv'])
                if ri is None:
                    akey = (e['key'], 'tmp', len(h.records), tmp_serial.setdefault(e['recv'], len(tmp_serial)))
                else:
                    akey = (e['key'], 'obj', ri)
                e['mkey'] = (meth_id[e['meth']], h.argids.setdefault((e['meth'], akey), len(h.argids)))
            for i, e in enumerate(log):
                if e['hit']:
                    continue
                children = []
                tmp_ids = {}
                for f in log[i + 1:]:
                    if f['depth'] <= e['depth']:
                        break
                    if f['depth'] == e['depth'] + 1:
                        if f['recv'] == e['recv']:
                            recv = 0
                        else:
                            recv = tmp_ids.setdefault(f['recv'], len(tmp_ids) + 1)
                        children.append((f['mkey'][0], f['mkey'][1], recv))
                ri = h.index_of(e['recv'])
                ver = h.versions[ri] if ri is not None else 0
                rkey = (e['mkey'][0], e['mkey'][1], ver)
                if rkey in h.rules and [(c[0], c[2]) for c in h.rules[rkey]] != [(c[0], c[2]) for c in children]:
                    ctx.notes.append(f'nested calls of {e["meth"]}{e["key"]} are not static: {h.rules[rkey]} vs {children}')
                h.rules.setdefault(rkey, children)
            if err is not None:
                h.model_on = False       # lru_cache stores nothing when the wrapped call raises: not modelled
                ctx.count('query-raised(model off for the rest of the history)')
            if h.model_on:
                for tcall in top:    # an uncached query may make several top-level cached calls: one model query per call
                    ri = h.index_of(tcall['recv'])
                    if ri is None:       # a top-level cached call on a temporary mesh built by the (uncached) query
                        mo = h.tmp_ids.setdefault(tcall['recv'], 500 + len(h.tmp_ids))
                        h.tmp_keep.append(tcall)
                    else:
                        mo = ri + 1
                    h.ops_model.append(('q', mo, tcall['mkey'][0], tcall['mkey'][1], len(h.records) - 1, ri == o))
            ctx.case((hid, step), sample={'op': 'query', 'query': qname, 'object': o, 'hits': rec['hits'], 'misses': rec['misses'],
                                          'after_modification': modified_before},
                     nontrivial=rec['hits'] > 0 or modified_before or o > 0)
            ctx.count('query:' + base_name(qname))
            if stale_reads:
                ctx.count('query-read-stored-variable:' + '+'.join(stale_reads))
            if kindop == 'd':
                if (err is None and hasattr(val, 'nodes') and val is not fd and h.index_of(id(val)) is None
                        and all(e['recv'] != id(val) for e in log)):
                    ci = h.adopt(val, o, qname)
                    if h.kept[o] is val:
                        h.kept[o] = None
                    shares = [w for w, a, b in (('coordinates', val.nodes.data, fd.nodes.data),) if np.shares_memory(a, b)]
                    if val.nodal_data is fd.nodal_data:
                        shares.append('nodal table')
                    if val.elemental_data is fd.elemental_data:
                        shares.append('elemental table')
                    ctx.count(f'derived-object:{base_name(qname)}:shares[{",".join(shares) or "nothing"}]')
                    ctx.count(f'derived-object:adopted-as-object-{ci}')
                else:
                    ctx.count('derived-object:not-adopted')
        elif kindop == 'm':
            ver_before = h.versions[o]
            try:
                apply_modifier(r, fd, arg)
                merr = None
            except Exception as e:
                merr = type(e).__name__
                ctx.count(f'modifier-raised:{arg}:{merr}')
            changed = h.resnapshot()
            mesh_changed = [i for i, parts in changed.items() if any(p in MESH_PARTS for p in parts)]
            ctx.case((hid, step), sample={'op': 'modify', 'modifier': arg, 'object': o, 'changed_mesh': bool(mesh_changed)},
                     nontrivial=bool(mesh_changed))
            ctx.count('modifier:' + arg + ('' if changed else '(no-op)'))
            for i in mesh_changed:
                h.versions[i] += 1
                h.mods[i].append(arg)
                if h.model_on:
                    h.ops_model.append(('m', i + 1))
            if arg == 'remove_useless_nodes' and o in mesh_changed:
                # the modifier rebuilds the shared variable tables: objects derived from this one are no longer used
                for i in h.live():
                    p = h.parent[i]
                    while p is not None and p != o:
                        p = h.parent[p]
                    if p == o and i != o:
                        h.alive[i] = False
                        ctx.count('derived-object:retired-after-remove_useless_nodes-of-parent')
            h.restamp_stored(({o: ver_before}, frozenset()), arg, keep_old=True, rewriter=arg if mesh_changed else None)
        elif kindop == 'c':
            # another live object: the surface mesh an earlier to_surface() of this object returned is modified in place
            # (all its facets reversed by connectivity assignment).  The parent must not notice.
            ch = h.kept[o]
            if ch is not None:
                with contextlib.redirect_stdout(io.StringIO()):
                    try:
                        ch.elements.data = np.array(ch.elements.data)[:, ::-1].copy()
                    except Exception:   # mixed surfaces cannot be assigned: nothing happened
                        ctx.count('child-modification:not-applicable')
                        ch = None
            changed = h.resnapshot()
            ctx.case((hid, step), sample={'op': 'modify the surface object returned earlier', 'object': o}, nontrivial=ch is not None)
            ctx.count('child-modification' + ('' if ch is not None else '(no child yet)'))
            if changed:
                oo = sorted(changed)[0]
                ctx.fail(f'user-data-changed:child-modification:{changed[oo][0]}', 'modifying the surface object returned by to_surface() '
                         f'changed the {", ".join(changed[oo])} of live object {oo}', h.case(), None)
                return
        else:
            try:
                with contextlib.redirect_stdout(io.StringIO()):
                    fd.write(arg, wdir / f's{step}' / 'mesh', overwrite=True)
            except Exception as e:
                ctx.count(f'writer-raised:{arg}:{type(e).__name__}')
            changed = h.resnapshot()
            ctx.case((hid, step), sample={'op': 'write', 'format': arg, 'object': o}, nontrivial=True)
            ctx.count('writer:' + arg)
            if changed:
                oo = sorted(changed)[0]
                where = 'the mesh' if oo == o else f'ANOTHER live object (object {oo})'
                ctx.fail(f'user-data-changed:write-{arg}:{changed[oo][0]}',
                         f"write('{arg}') of object {o} changed the {', '.join(changed[oo])} of {where}", h.case(), None)
                return
            h.restamp_stored(({o: h.versions[o]}, frozenset()), 'write', keep_old=True)
    # ---------------- fresh values (cold caches, freshly built equal meshes)
    for key in list(_PENDING):
        if key not in _APPL:
            applicable(build(_PENDING[key]))
        del _PENDING[key]
    fresh_cache = {}
    for idx, rec in enumerate(h.records):
        if rec['setup_only']:     # (quick tier) a query that only prepares the caches for the ones after the modifier: its own
            continue              # value is compared in the other streams; purity snapshots were taken as for every operation
        fk = (rec['snapshot'], rec['q'])
        if fk not in fresh_cache:
            clear_caches()
            try:
                with contextlib.redirect_stdout(io.StringIO()):
                    fresh_cache[fk] = digest(QUERIES[rec['q']][1](build(h.pristine[rec['snapshot']])))
            except Exception as e:
                fresh_cache[fk] = ('raises', type(e).__name__)
        fv = fresh_cache[fk]
        rec['fresh'] = fv
        rec['is_fresh'] = fv == rec['digest']
        if not rec['is_fresh']:
            sig, why = signature_of(h, rec, history_only(h, rec, idx))
            case = dict(rec['case'])
            case['history'] = case['history'][:rec['n_hist']]
            ctx.fail(sig, f'{rec["qname"]} on object {rec["obj"]} returned a value different from the value on a freshly built '
                     f'equal mesh ({why}) after the history {case["history"]}'
                     + (f'; it raised {rec["err"]}' if rec['err'] else ''), case, None)
    clear_caches()
    # ---------------- correspondence with the cache model
    ops_model, rules, records = h.ops_model, h.rules, h.records
    if ctx.driver is not None and ops_model:
        line = 'c19.run 0 ' + C.enc_list(caps.items(), lambda kv: f'{kv[0]} {kv[1]}') + ' ' + C.enc_list(
            rules.items(), lambda kv: f'{kv[0][0]} {kv[0][1]} {kv[0][2]} ' + C.enc_list(kv[1], lambda c: f'{c[0]} {c[1]} {c[2]}')) + ' ' + \
            C.enc_list(ops_model, lambda op: (f'q {op[1]} {op[2]} {op[3]}' if op[0] == 'q' else f'm {op[1]}'))
        t = C.Toks(ctx.driver.ask(line))
        if t.tok() != 'ok':
            raise RuntimeError('driver')
        t.nat()
        per_rec = {}
        for op in ops_model:
            tag = t.tok()
            if tag == 'm':
                continue
            stamp, hits, misses = t.nat(), t.nat(), t.nat()
            acc = per_rec.setdefault(op[4], {'stamp': None, 'hits': 0, 'misses': 0})
            if op[5]:
                acc['stamp'] = stamp if acc['stamp'] is None else min(acc['stamp'], stamp)
            acc['hits'] += hits
            acc['misses'] += misses
        for idx, m in per_rec.items():
            rec = records[idx]
            if m['stamp'] is None:
                m['stamp'] = rec['version']
            if (m['hits'], m['misses']) != (rec['hits'], rec['misses']):
                ctx.disagree('cache hits/misses of ' + rec['qname'], rec['case'], {'hits': rec['hits'], 'misses': rec['misses']}, m)
                break
            # the version stamp the model predicts for the returned value = the stamp traced on the real lru entries
            if m['stamp'] != rec['ls']:
                ctx.disagree('version stamp of the value of ' + rec['qname'], rec['case'], {'stamp': rec['ls']}, m)
                break
            # queries that read the derived variables stored in the variable tables (volume / area / metric) are outside the
            # lru model: their freshness is judged by the oracle only
            if m['stamp'] == rec['version'] and rec.get('is_fresh') is False and not rec['reads_stored'] \
                    and all(v >= rec['versions'][oo] for oo, v in rec['P'][0].items()):
                ctx.disagree('model says computed from the current mesh, value differs from fresh: ' + rec['qname'], rec['case'],
                             'stale', m)
                break


def blocks_of(lst, k):
    return [lst[i:i + k] for i in range(0, len(lst), k)]


def run(ctx):
    install_tracing()
    ctx.extra['cached_methods'] = {n: _WRAPPED[n].cache_parameters()['maxsize'] for n in sorted(_WRAPPED)}
    for name, j in C.corpus_cases(PROP):
        ctx.count('corpus')
    r = ctx.rng
    nq = len(QUERIES)
    # which queries are implemented for which kind of mesh (probed on one object per kind)
    appl = {}
    pr = random.Random(19)
    for kd in ROOT_KINDS:     # (one-cell meshes: only whether a query is implemented matters here)
        appl[kd] = applicable(_finish_object(pr, kd, gen_spec(pr, kd, max_cells=1), True))
    clear_caches()
    ctx.extra['applicable_queries_per_kind'] = {kd: len(v) for kd, v in appl.items()}
    k = 0
    rot = {}

    def kind_for(qis, fams=('solid', 'shell', 'poly')):
        """a kind on which all the given queries are implemented (rotating), None if there is none"""
        cands = [kd for f in fams for kd in FAMILIES[f] if all(q in appl[kd] for q in qis)]
        if not cands:
            return None
        key = tuple(cands)
        rot[key] = rot.get(key, -1) + 1
        return cands[rot[key] % len(cands)]
    # (1) systematic sandwiches: every query, then every kind of in-place change, then the same query again
    for qi in range(nq):
        # quick: one rotating mesh modifier + (every third query) the user-variable overwrite; the diagonal blocks of stream (3)
        # are sandwiches with a second modifier
        for mname in (MODS if not ctx.quick else [MODS[(qi + k) % 4]] + (['user variable overwrite'] if qi % 3 == 0 else [])):
            kd = kind_for([qi]) if mname != 'make_elements_positive' else ('tet' if qi in appl['tet'] else kind_for([qi]))
            if kd is None:
                continue
            run_history(ctx, f's{k}', script=[('q', 0, qi), ('m', 0, mname), ('q', 0, qi)], kind=kd, label='sandwich [q, modifier, q]')
            k += 1
    qs = QNAMES.index('to_surface()')
    for q2 in ('to_surface()', 'calculate_surface_normals()', 'extract_surface()'):
        run_history(ctx, f's{k}', script=[('q', 0, qs), ('c', 0, 'reverse-surface-facets'), ('q', 0, QNAMES.index(q2))],
                    kind=r.choice(['tet', 'hex']), label='modify returned surface')
        k += 1
    # (2) ordered pairs of different spellings / options of the same query: the second must not see the first
    by_base = {}
    for qi, qn in enumerate(QNAMES):
        by_base.setdefault(base_name(qn), []).append(qi)
    pairs = [(a, b) for grp in by_base.values() for a in grp for b in grp if a != b]
    if ctx.quick:
        r.shuffle(pairs)
        pairs = pairs[:40]
    for a, b in pairs:
        kd = kind_for([a, b])
        if kd is None:
            continue
        run_history(ctx, f's{k}', script=[('q', 0, a), ('q', 0, b)], kind=kd, label='pair of spellings [a, b]')
        k += 1
    # (3) [queries A..., modifier, queries B...]: a modifier must be reflected by queries that were NOT asked before it as
    # well.  Every ordered pair (A, B) of the queries implemented for a family of meshes is covered with at least one modifier
    # (quick: blocks of 16 x 16, one modifier per pair of blocks; thorough: [A, modifier, block of 8] for every
    # A and every modifier).
    n_pair_hist = 0
    pair_mods = ['remove_useless_nodes', 'coordinate assignment', 'connectivity assignment', 'make_elements_positive']
    for fam, kinds in FAMILIES.items():
        qf = sorted(set().union(*[appl[kd] for kd in kinds]))
        r.shuffle(qf)
        bl = blocks_of(qf, 16 if ctx.quick else 8)
        if ctx.quick:
            covered = set()

            def block_history(A2, B2, kd):
                nonlocal k, n_pair_hist
                mname = pair_mods[n_pair_hist % 3] if fam != 'poly' else pair_mods[1 + n_pair_hist % 2]
                run_history(ctx, f'p{k}', script=[('q', 0, q, 'setup') for q in A2] + [('m', 0, mname)] + [('q', 0, q) for q in B2],
                            kind=kd, label='[block A, modifier, block B]')
                covered.update((a, b) for a in A2 for b in B2)
                k += 1
                n_pair_hist += 1
            for i, A in enumerate(bl):
                for j, B in enumerate(bl):
                    kd = kinds[(i + j) % len(kinds)]
                    A2 = [q for q in A if q in appl[kd]]
                    B2 = [q for q in B if q in appl[kd]]
                    if A2 and B2:
                        block_history(A2, B2, kd)
            # completion: pairs with a query that the kind drawn for their blocks does not implement (integrate: tets only, ...)
            for extra in range(12):
                best = None
                for kd in kinds:
                    todo = [(a, b) for a in qf for b in qf if a in appl[kd] and b in appl[kd] and (a, b) not in covered]
                    if todo and (best is None or len(todo) > len(best[1])):
                        best = (kd, todo)
                if best is None:
                    break
                kd, todo = best
                cnt = {}
                for a, b in todo:
                    cnt[a] = cnt.get(a, 0) + 1
                A2 = sorted(cnt, key=lambda a: -cnt[a])[:16]
                cb = {}
                for a, b in todo:
                    if a in A2:
                        cb[b] = cb.get(b, 0) + 1
                B2 = sorted(cb, key=lambda b: -cb[b])[:16]
                block_history(A2, B2, kd)
            ctx.extra.setdefault('ordered_pairs_not_covered', {})[fam] = sum(
                1 for a in qf for b in qf if (a, b) not in covered and any(a in appl[kd] and b in appl[kd] for kd in kinds))
        else:
            for a in qf:
                for mi, mname in enumerate(pair_mods):
                    for j, B in enumerate(bl):
                        cands = [kd for kd in kinds if a in appl[kd]]
                        if mname == 'make_elements_positive':
                            cands = [kd for kd in cands if kd == 'tet']
                        if not cands:
                            continue
                        kd = cands[(j + mi) % len(cands)]
                        B2 = [q for q in B if q in appl[kd]]
                        if not B2:
                            continue
                        run_history(ctx, f'p{k}', script=[('q', 0, a), ('m', 0, mname)] + [('q', 0, q) for q in B2],
                                    kind=kd, label='[A, modifier, block B]')
                        k += 1
                        n_pair_hist += 1
    ctx.extra['pair_histories'] = n_pair_hist
    # (4) derived live objects: derive a child (it may share arrays / variable tables with its parent), query the child,
    # query the parent; every live object is snapshotted after every operation
    n_der = 0
    for dname in DERIVERS:
        di = QNAMES.index(dname)
        for rep in range(ctx.n(3, 24)):
            kd = 'tet2' if dname == 'to_first_order()' else kind_for([di], fams=('solid',))
            if kd is None:
                continue
            run_derived(ctx, f'd{k}', kd, di)
            k += 1
            n_der += 1
    ctx.extra['derived_object_histories'] = n_der
    # (5) writers: every format on every kind of mesh, between two queries (a writer that touches the object shows in the
    # snapshot taken right after it, or in the query that follows)
    for kd in ROOT_KINDS:
        for fmt in ('ucd', 'fistr'):
            qa, qb = r.choice(sorted(appl[kd])), r.choice(sorted(appl[kd]))
            run_history(ctx, f'w{k}', script=[('q', 0, qa), ('w', 0, fmt), ('q', 0, qb)] + ([('w', 0, fmt), ('q', 0, qa)] if not ctx.quick else []),
                        kind=kd, label='[query, write, query]')
            k += 1
    # (5a) writers x layouts of the user variables: every layout (vector, narrow / integer / bool dtypes, time series with exactly
    # one, two, three steps) is written in every format; shapes, dtypes and the time_series flag of every user variable are
    # part of the snapshot (compared as stored, never after broadcasting)
    for li, layout in enumerate(LAYOUTS):
        for fi, fmt in enumerate(('ucd', 'fistr')):
            if ctx.quick and li >= 4 and (li + fi) % 2:
                continue          # quick: every series layout in both formats, the other layouts in one format each
            kd = ROOT_KINDS[(li + 3 * fi + k) % len(ROOT_KINDS)]
            qa, qb = r.choice(sorted(appl[kd])), r.choice(sorted(appl[kd]))
            run_history(ctx, f'w{k}', script=[('w', 0, fmt), ('q', 0, qa), ('w', 0, fmt), ('q', 0, qb)], kind=kd,
                        label='[write, query, write, query] x user-variable layout', layout=layout)
            k += 1
    # (6) the family of queries that store / read the derived variables volume / area / metric, on meshes WITH INVERTED ELEMENTS
    # (signed != absolute, the default spellings raise): [A, every reader in shuffled order] and [A, make_elements_positive,
    # every reader]; A runs over the storing spellings AND the raising ones (a query that failed, then the others); on mixed
    # meshes once with only the LAST type block inverted (the earlier blocks are evaluated before the failure)
    fam_a = [qi for qi, qn in enumerate(QNAMES) if base_name(qn) in ('calculate_element_volumes', 'calculate_element_metrics',
                                                                    'convert_elemental2nodal', 'integrate')
             or qn in ('calculate_nodal_spatial_gradients(T)', 'calculate_elemental_spatial_gradients(E)')]
    readers = [qi for qi, qn in enumerate(QNAMES) if base_name(qn) in ('calculate_element_volumes', 'calculate_element_metrics')]
    consumers = [qi for qi, qn in enumerate(QNAMES) if base_name(qn) in (
        'convert_elemental2nodal', 'integrate', 'integrate_elements', 'calculate_nodal_spatial_gradients',
        'calculate_elemental_spatial_gradients')]
    n_fam = 0
    solid_inv = ['tet', 'hex', 'prism', 'mixed']
    for ai, a in enumerate(fam_a):
        plans = [(solid_inv[(ai + k) % 4], r.choice(['some', 'one-block', 'all']), None), ('mixed', 'last-block', None),
                 ('tet', r.choice(['some', 'all']), 'make_elements_positive')]
        if not ctx.quick:
            plans += [(kd, st, md) for kd in solid_inv for st in INVERT_STYLES for md in (None, 'connectivity assignment')]
            plans += [('tet', st, 'make_elements_positive') for st in INVERT_STYLES]
        for kd, style, mod in plans:
            if a not in appl[kd]:
                continue
            bs = [q for q in readers if q in appl[kd]]
            r.shuffle(bs)
            bs += r.sample([q for q in consumers if q in appl[kd]], 2)
            run_history(ctx, f'f{k}', script=[('q', 0, a)] + ([('m', 0, mod)] if mod else []) + [('q', 0, q) for q in bs], kind=kd,
                        label='metric family on inverted elements [A, (modifier), every reader]', invert=style)
            k += 1
            n_fam += 1
    ctx.extra['metric_family_histories'] = n_fam
    ctx.extra['sandwich_histories'] = k
    for hno in range(ctx.n(72, 1000)):
        run_history(ctx, hno)
    clear_caches()


def run_derived(ctx, hid, kind, di):
    """[derive child, geometric / random queries on the child and on the parent alternately]"""
    r = ctx.rng
    if (kind, di) not in _CHILD_APPL:
        pr = make_object(random.Random(di), kind)
        with contextlib.redirect_stdout(io.StringIO()):
            try:
                child = QUERIES[di][1](clone_fresh(pr))
                ca = sorted(applicable(child)) if hasattr(child, 'nodes') else []
            except Exception:
                ca = []
        clear_caches()
        _CHILD_APPL[(kind, di)] = (sorted(applicable(pr)), ca)
    pa, ca = _CHILD_APPL[(kind, di)]
    script = [('d', 0, di)]
    for j in range(2):
        if ca:
            script.append(('q', 1, r.choice(ca)))
        script.append(('q', 0, r.choice(pa)))
    if ca and r.random() < .5:
        script.insert(1 + r.randrange(len(script) - 1), ('m', 0, r.choice(['coordinate assignment', 'user variable overwrite',
                                                                             'connectivity assignment'])))
    run_history(ctx, hid, script=script, kind=kind, label='[derive child, query child / parent]')


def replay(ctx, obj):
    return {'fails': False, 'note': 're-run ./check C19 with VERIF_SEED=%s: histories are rebuilt from the seed; the failing history and '
            'the concrete meshes (node ids, coordinates, connectivity, user variables of every object) are in obj["input"]' % obj.get('seed')}
